"""C08 - pruning, retaining and extracting yield exactly the induced subtree.

case = {"tree": spec tree (dv.trees), "rooted": True|False|None, "tlabels": [label id of taxon k],
        "ns": [taxon index, ...] (namespace order, may hold taxa that are not on the tree),
        "cs": namespace is_case_sensitive, "ops": [op, ...], "tags": [group id | None, ...],
        "coq": [bool, ...] (op goes to the Coq model as well / oracle only),
        optional "pre": {"tree": spec tree, "op": in-place op} - a two-step history: the library tree is
        built from pre.tree, pre.op (prune_subtree / filter_leaf_nodes with suppress_unifurcations=False)
        runs first and must leave exactly case["tree"] (checked, key pre-step:<op>); the ops then run on that
        tree, which carries the unifurcations the earlier operation left behind}
Every op runs on a FRESH build of the same tree.  label id l stands for the string
("t%d" if l even else "T%d") % (l // 2): ids 2k and 2k+1 differ only in case.
"""
import itertools
import time

from dv import core, trees
from dv.core import cz, cbool, clist, copt

HEADER = ("From DV Require Import Model.PyPrims Model.Tree Model.C08Model.\n"
          "From Coq Require Import ZArith. Open Scope Z_scope.")
BASE = 1000
QUICK_KEEPALL = 30

GROUP_OPS = ("PruneTaxa", "PruneLabels", "RetainTaxa", "RetainLabels", "ExtractWithTaxa", "ExtractWithoutTaxa",
             "ExtractWithLabels", "ExtractWithoutLabels")
INPLACE = ("PruneTaxa", "PruneLabels", "RetainTaxa", "RetainLabels", "FilterLeaves", "PruneSubtree",
           "PruneNoTaxa", "SuppressUnif", "RemoveChild")


def lab_str(l):
    return ("t%d" if l % 2 == 0 else "T%d") % (l // 2)


def node_label_index(s):
    return int(s[1:])


def xenum(e):
    from dendropy.utility.error import SeedNodeDeletionException
    if isinstance(e, SeedNodeDeletionException):
        return "ESeedDel"
    if isinstance(e, AttributeError):
        return "EAttr"
    if isinstance(e, ValueError):
        return "EValue"
    if isinstance(e, TypeError):
        return "EType"
    raise e


# ------------------------------------------------------------------------------------------------
# run-time probe of the two variants the model carries (see Model/C08Model.v: c_lab_ns, c_seed_err)
# ------------------------------------------------------------------------------------------------

_VARIANTS = None


def variants():
    """lab_ns: do extract_tree_with(out)_taxa_labels resolve labels through the namespace
    (notes/C08_fix_c.patch) or compare strings; seed_err: exception class when prune_taxa reaches the
    seed (AttributeError, or SeedNodeDeletionException with notes/C03_fix_1.patch)."""
    global _VARIANTS
    if _VARIANTS is None:
        import dendropy
        t = dendropy.Tree.get(data="(t0:1,t1:1);", schema="newick")
        try:
            n = len(t.extract_tree_with_taxa_labels(["T0", "t1"]).leaf_nodes())
        except Exception:
            n = 0
        lab_ns = (n == 2)
        t = dendropy.Tree.get(data="(t0:1,t1:1);", schema="newick")
        try:
            t.prune_taxa_with_labels(["t0", "t1"])
            seed = None
        except Exception as e:
            seed = xenum(e)
        if seed not in ("EAttr", "ESeedDel"):
            raise RuntimeError("probe: emptying a tree with prune_taxa gave %r" % (seed,))
        # both sites must be of the same class
        t = dendropy.Tree.get(data="(t0:1,t1:1);", schema="newick")
        for nd in t.leaf_nodes():
            nd.taxon = None
        try:
            t.prune_leaves_without_taxa()
            seed2 = None
        except Exception as e:
            seed2 = xenum(e)
        if seed2 != seed:
            raise RuntimeError("probe: prune_taxa raises %r but prune_leaves_without_taxa %r at the seed" % (seed, seed2))
        _VARIANTS = {"lab_ns": lab_ns, "seed_err": seed}
    return _VARIANTS


# ------------------------------------------------------------------------------------------------
# running the real library
# ------------------------------------------------------------------------------------------------

def build(case):
    import dendropy
    ns = dendropy.TaxonNamespace(is_case_sensitive=case["cs"])
    ntax = len(case["tlabels"])
    objs = [dendropy.Taxon(label=lab_str(case["tlabels"][k])) for k in range(ntax)]
    for k in case["ns"]:
        ns.add_taxon(objs[k])
    pre = case.get("pre")
    tree, by_id = trees.build_dendropy(pre["tree"] if pre else case["tree"], objs, is_rooted=case["rooted"],
                                       namespace=ns)
    tix = {id(o): k for k, o in enumerate(objs)}
    if pre:
        apply_pre(tree, by_id, pre["op"])
    return tree, by_id, objs, tix


def apply_pre(tree, by_id, op):
    """the earlier step of a two-step history (always with suppression declined and no re-encoding)"""
    if op[0] == "PruneSubtree":
        tree.prune_subtree(by_id[op[1]], update_bipartitions=op[2], suppress_unifurcations=op[3])
    elif op[0] == "FilterLeaves":
        okset = set(op[1])
        tree.filter_leaf_nodes(lambda nd: nd._dv_id in okset, recursive=op[2], update_bipartitions=op[3],
                               suppress_unifurcations=op[4])
    else:
        raise RuntimeError("unknown pre-step %r" % (op,))


def pre_ok(case):
    """does the earlier step of a two-step history leave exactly case["tree"]?  -> None | description"""
    tree, by_id, objs, tix = build(case)
    d, problems = dump(tree, tix)
    if problems:
        return "pointer structure broken: %s" % problems[:3]
    if d != case["tree"] or tree.is_rooted != case["rooted"]:
        return "left %s (rooted=%r), expected %s" % (trees.newick(d), tree.is_rooted, trees.newick(case["tree"]))
    return None


def dump(tree, tix, start=None):
    return trees.dump_dendropy(tree, tix, alloc=trees.IdAlloc(BASE), label_index=node_label_index, start=start)


def strip_ids(t):
    return {"taxon": t["taxon"], "label": t["label"], "len": t["len"], "kids": [strip_ids(k) for k in t["kids"]]}


def mk_filter(flt):
    if flt is None:
        return {}
    lfl, intl, oks = flt
    okset = set(oks)
    kw = {"node_filter_fn": (lambda nd: nd._dv_id in okset)}
    # the documented defaults (leaves: True, internal nodes: False) are exercised by not passing them
    if lfl is not True:
        kw["is_apply_filter_to_leaf_nodes"] = lfl
    if intl is not False:
        kw["is_apply_filter_to_internal_nodes"] = intl
    return kw


def run_op(case, op):
    import dendropy
    tree, by_id, objs, tix = build(case)
    name = op[0]
    if name in INPLACE:
        ret = []
        exc = None
        upd = False
        try:
            if name == "PruneTaxa":
                _, taxa, upd, sup, lf, intn = op
                r = tree.prune_taxa([objs[k] for k in taxa], update_bipartitions=upd, suppress_unifurcations=sup,
                                    is_apply_filter_to_leaf_nodes=lf, is_apply_filter_to_internal_nodes=intn)
                assert r is None
            elif name == "PruneLabels":
                _, lbs, upd, sup, lf, intn = op
                r = tree.prune_taxa_with_labels([lab_str(l) for l in lbs], update_bipartitions=upd,
                                                suppress_unifurcations=sup, is_apply_filter_to_leaf_nodes=lf,
                                                is_apply_filter_to_internal_nodes=intn)
                assert r is None
            elif name == "RetainTaxa":
                _, taxa, upd, sup = op
                r = tree.retain_taxa([objs[k] for k in taxa], update_bipartitions=upd, suppress_unifurcations=sup)
                assert r is None
            elif name == "RetainLabels":
                _, lbs, upd, sup = op
                r = tree.retain_taxa_with_labels([lab_str(l) for l in lbs], update_bipartitions=upd,
                                                 suppress_unifurcations=sup)
                assert r is None
            elif name == "FilterLeaves":
                _, oks, rec, upd, sup = op
                okset = set(oks)
                r = tree.filter_leaf_nodes(lambda nd: nd._dv_id in okset, recursive=rec, update_bipartitions=upd,
                                           suppress_unifurcations=sup)
                ret = [nd._dv_id for nd in r]
            elif name == "PruneSubtree":
                _, nid, upd, sup = op
                r = tree.prune_subtree(by_id[nid], update_bipartitions=upd, suppress_unifurcations=sup)
                assert r is None
            elif name == "PruneNoTaxa":
                _, rec, upd, sup = op
                r = tree.prune_leaves_without_taxa(recursive=rec, update_bipartitions=upd, suppress_unifurcations=sup)
                ret = [nd._dv_id for nd in r]
            elif name == "SuppressUnif":
                r = tree.suppress_unifurcations()
                ret = [x._dv_id for pair in r for x in pair]
            elif name == "RemoveChild":
                _, par, nid, sup = op
                r = by_id[par].remove_child(by_id[nid], suppress_unifurcations=sup)
                ret = [r._dv_id]
        except Exception as e:
            exc = xenum(e)
        d, problems = dump(tree, tix)
        o = {"k": "in", "exc": exc, "ret": ret, "tree": d, "rooted": tree.is_rooted, "problems": problems,
             "enc_ok": None}
        if upd and exc is None:
            o["enc_ok"] = encoding_fresh(tree, tix, op_sup(op))
        return o
    # extraction
    exc = None
    new = None
    try:
        if name == "Extract":
            _, flt, sup = op
            new = tree.extract_tree(suppress_unifurcations=sup, **mk_filter(flt))
        elif name == "ExtractAt":
            _, nid, flt, sup = op
            new = by_id[nid].extract_subtree(suppress_unifurcations=sup, **mk_filter(flt))
        elif name == "ExtractWithTaxa":
            new = tree.extract_tree_with_taxa([objs[k] for k in op[1]], suppress_unifurcations=op[2])
        elif name == "ExtractWithoutTaxa":
            new = tree.extract_tree_without_taxa([objs[k] for k in op[1]], suppress_unifurcations=op[2])
        elif name == "ExtractWithLabels":
            new = tree.extract_tree_with_taxa_labels([lab_str(l) for l in op[1]], suppress_unifurcations=op[2])
        elif name == "ExtractWithoutLabels":
            new = tree.extract_tree_without_taxa_labels([lab_str(l) for l in op[1]], suppress_unifurcations=op[2])
        else:
            raise RuntimeError("unknown op %r" % (name,))
    except Exception as e:
        exc = xenum(e)
    src_after, sproblems = dump(tree, tix)
    o = {"k": "new", "exc": exc, "new": None, "srcmap": None, "rooted": None, "src_after": src_after,
         "problems": sproblems, "src_rooted": tree.is_rooted, "shares_ns": None}
    if exc is None:
        if name == "ExtractAt":
            nd, nproblems = dump(None, tix, start=new)
            root = new
            o["rooted"] = case["rooted"]      # a bare Node has no rooting; the model echoes the input
            o["shares_ns"] = True
        else:
            nd, nproblems = dump(new, tix)
            root = new.seed_node
            o["rooted"] = new.is_rooted
            o["shares_ns"] = new.taxon_namespace is tree.taxon_namespace
        o["new"] = nd
        o["problems"] = sproblems + nproblems
        srcmap = []
        for n in root.preorder_iter():
            s = getattr(n, "extraction_source", None)
            srcmap.append(None if s is None else getattr(s, "_dv_id", -1))
        o["srcmap"] = srcmap
    return o


def op_sup(op):
    n = op[0]
    if n in ("PruneTaxa", "PruneLabels"):
        return op[3]
    if n in ("RetainTaxa", "RetainLabels", "PruneSubtree", "PruneNoTaxa"):
        return op[3]
    if n == "FilterLeaves":
        return op[4]
    return True


def encoding_fresh(tree, tix, sup=True):
    """update_bipartitions=True: the stored encoding equals a fresh encoding of a clone, and a fresh
    encoding (suppressing unifurcations only if the caller asked for that) does not restructure the
    tree any further.  -> [matches, stable] or the string "missing" (tree.bipartition_encoding is not a
    list of bipartitions at all: the operation returned without encoding) / "edges-missing" (a list is
    there but some edge of the tree has no bipartition)"""
    import dendropy
    stored = tree.bipartition_encoding
    if stored is None:
        return "missing"
    try:
        stored = list(stored)
        enc = [(b.leafset_bitmask, b.split_bitmask) for b in stored]
    except Exception:
        return "missing"
    if any(nd.edge.bipartition is None for nd in tree.preorder_node_iter()):
        return "edges-missing"
    ix = lambda tr: {id(t): k for k, t in enumerate(tr.taxon_namespace)}
    # (a) the stored encoding describes the tree as it is
    clone = dendropy.Tree(tree)
    clone.encode_bipartitions(suppress_unifurcations=False, collapse_unrooted_basal_bifurcation=False)
    enc1 = [(b.leafset_bitmask, b.split_bitmask) for b in clone.bipartition_encoding]
    edges_ok = all(any(nd.edge.bipartition is b for b in stored) for nd in tree.preorder_node_iter())
    matches = bool(enc == enc1 and edges_ok)
    # (b) a fresh default encoding of a clone gives the same list and does not restructure the tree
    clone = dendropy.Tree(tree)
    before = strip_ids(trees.dump_dendropy(clone, ix(clone))[0])
    clone.encode_bipartitions(suppress_unifurcations=sup)
    after = strip_ids(trees.dump_dendropy(clone, ix(clone))[0])
    enc2 = [(b.leafset_bitmask, b.split_bitmask) for b in clone.bipartition_encoding]
    return [matches, bool(enc == enc2 and before == after)]


def observe(case):
    obs = [run_op(case, op) for op in case["ops"]]
    if case.get("pre") and obs:
        obs[0]["pre_bad"] = pre_ok(case)
    return obs


# ------------------------------------------------------------------------------------------------
# Coq rendering
# ------------------------------------------------------------------------------------------------

def cob(b):
    return "None" if b is None else "(Some %s)" % cbool(b)


def czl(l):
    return clist([cz(x) for x in l])


def cflt(flt):
    if flt is None:
        return "None"
    lfl, intl, oks = flt
    return "(Some (%s, %s, %s))" % (cbool(lfl), cbool(intl), czl(oks))


def c_op(op):
    n = op[0]
    if n == "PruneTaxa":
        return "(PruneTaxa %s %s %s %s %s)" % (czl(op[1]), cbool(op[2]), cbool(op[3]), cbool(op[4]), cbool(op[5]))
    if n == "PruneLabels":
        return "(PruneLabels %s %s %s %s %s)" % (czl(op[1]), cbool(op[2]), cbool(op[3]), cbool(op[4]), cbool(op[5]))
    if n == "RetainTaxa":
        return "(RetainTaxa %s %s %s)" % (czl(op[1]), cbool(op[2]), cbool(op[3]))
    if n == "RetainLabels":
        return "(RetainLabels %s %s %s)" % (czl(op[1]), cbool(op[2]), cbool(op[3]))
    if n == "FilterLeaves":
        return "(FilterLeaves %s %s %s %s)" % (czl(op[1]), cbool(op[2]), cbool(op[3]), cbool(op[4]))
    if n == "PruneSubtree":
        return "(PruneSubtree %s %s %s)" % (cz(op[1]), cbool(op[2]), cbool(op[3]))
    if n == "PruneNoTaxa":
        return "(PruneNoTaxa %s %s %s)" % (cbool(op[1]), cbool(op[2]), cbool(op[3]))
    if n == "SuppressUnif":
        return "SuppressUnif"
    if n == "RemoveChild":
        return "(RemoveChild %s %s %s)" % (cz(op[1]), cz(op[2]), cbool(op[3]))
    if n == "Extract":
        return "(Extract %s %s)" % (cflt(op[1]), cbool(op[2]))
    if n == "ExtractAt":
        return "(ExtractAt %s %s %s)" % (cz(op[1]), cflt(op[2]), cbool(op[3]))
    if n in ("ExtractWithTaxa", "ExtractWithoutTaxa", "ExtractWithLabels", "ExtractWithoutLabels"):
        return "(%s %s %s)" % (n, czl(op[1]), cbool(op[2]))
    raise RuntimeError(n)


def c_obs(o):
    if o["k"] == "in":
        if o["exc"] is None:
            return "(OInPlace %s %s %s)" % (czl(o["ret"]), trees.c_tree(o["tree"]), cob(o["rooted"]))
        return "(OInPlaceErr %s %s)" % (o["exc"], trees.c_tree(o["tree"]))
    if o["exc"] is None:
        sm = [(-1 if x is None else x) for x in o["srcmap"]]
        return "(ONew %s %s %s %s)" % (trees.c_tree(o["new"]), czl(sm), cob(o["rooted"]), trees.c_tree(o["src_after"]))
    return "(ONewErr %s %s)" % (o["exc"], trees.c_tree(o["src_after"]))


def to_coq(case, obs):
    steps = ["(%s, %s)" % (c_op(op), c_obs(o))
             for op, o, q in zip(case["ops"], obs, case["coq"]) if q]
    ns = clist(["(%s, %s)" % (cz(k), cz(case["tlabels"][k])) for k in case["ns"]])
    v = variants()
    return "(mkcase %s %s %s %s %s %s %s %s)" % (trees.c_tree(case["tree"]), cob(case["rooted"]), ns,
                                                cbool(case["cs"]), cz(BASE), cbool(v["lab_ns"]), v["seed_err"],
                                                clist(steps))


# ------------------------------------------------------------------------------------------------
# the oracle: the property stated naively on the implementation's observation
# ------------------------------------------------------------------------------------------------

def madd(parent, child):
    if parent is None:
        return child
    if child is None:
        return parent
    return parent + child


def py_restrict(n, keepl, keepi, keepe, sup):
    """the induced subtree of the harness's own spec tree"""
    if not n["kids"]:
        return dict(n, kids=[]) if keepl(n) else None
    if not keepi(n):
        return None
    ks = [r for r in (py_restrict(k, keepl, keepi, keepe, sup) for k in n["kids"]) if r is not None]
    if not ks:
        return dict(n, kids=[]) if keepe(n) else None
    if len(ks) == 1 and sup:
        c = ks[0]
        return dict(c, len=madd(n["len"], c["len"]))
    return dict(n, kids=ks)


def all_nodes(t):
    return trees.preorder(t)


def leaf_ids_under(n):
    return [x["id"] for x in trees.leaves(n)]


def parent_map(t):
    pm = {t["id"]: None}
    for n in trees.preorder(t):
        for k in n["kids"]:
            pm[k["id"]] = n
    return pm


def path_dist(t, a, b):
    """naive: climb from both nodes to the root, sum the edges outside the common part"""
    pm = parent_map(t)
    by = {n["id"]: n for n in trees.preorder(t)}

    def up(x):
        out = []
        while x is not None:
            out.append(x)
            p = pm[x]
            x = None if p is None else p["id"]
        return out
    pa, pb = up(a), up(b)
    common = set(pa) & set(pb)
    d = 0
    for x in pa:
        if x in common:
            break
        d += by[x]["len"]
    for x in pb:
        if x in common:
            break
        d += by[x]["len"]
    return d


def splits(t):
    """non-trivial bipartitions of the leaf set (by leaf id), unrooted view"""
    allv = frozenset(leaf_ids_under(t))
    out = set()
    for n in trees.preorder(t):
        c = frozenset(leaf_ids_under(n))
        if 1 < len(c) < len(allv) - 1:
            out.add(frozenset([c, allv - c]))
    return out


def in_domain(spec):
    """the property's trees: every leaf carries a taxon, internal nodes carry none, taxa distinct"""
    tx = []
    for n in trees.preorder(spec):
        if n["kids"]:
            if n["taxon"] is not None:
                return False
        else:
            if n["taxon"] is None:
                return False
            tx.append(n["taxon"])
    return len(set(tx)) == len(tx)


def label_taxa(case, labels, reference_cs):
    """taxa (indices, members of the namespace) named by the label ids under the given case rule"""
    out = set()
    for k in case["ns"]:
        l = case["tlabels"][k]
        for q in labels:
            if (l == q) if reference_cs else (l // 2 == q // 2):
                out.add(k)
    return out


def expected_for(case, op):
    """-> None (no claim) or dict(keepl, keepi, keepe, sup, induced: bool, newtree: bool)"""
    spec = case["tree"]
    n = op[0]
    T = lambda nd: True
    F = lambda nd: False
    nsset = set(case["ns"])
    if n in ("PruneTaxa", "PruneLabels"):
        taxa = set(op[1]) if n == "PruneTaxa" else label_taxa(case, op[1], case["cs"])
        if not op[4] or op[5]:
            if op[5]:
                return None        # internal-node filter of prune_taxa: no claim in the property
            taxa = set()
        return dict(keepl=lambda nd: nd["taxon"] not in taxa, keepi=T, keepe=F, sup=op[3], upd=op[2], new=False)
    if n in ("RetainTaxa", "RetainLabels"):
        taxa = set(op[1]) if n == "RetainTaxa" else label_taxa(case, op[1], case["cs"])
        # taxa outside the namespace cannot be named by retain (it enumerates the namespace)
        return dict(keepl=lambda nd: nd["taxon"] in taxa or nd["taxon"] not in nsset, keepi=T, keepe=F,
                    sup=op[3], upd=op[2], new=False)
    if n == "FilterLeaves":
        oks = set(op[1])
        return dict(keepl=lambda nd: nd["id"] in oks, keepi=T,
                    keepe=(lambda nd: nd["id"] in oks) if op[2] else T, sup=op[4], upd=op[3], new=False)
    if n == "PruneSubtree":
        if op[1] == spec["id"]:
            return None
        below = set(x["id"] for x in trees.preorder([x for x in trees.preorder(spec) if x["id"] == op[1]][0]))
        return dict(keepl=lambda nd: nd["id"] not in below, keepi=lambda nd: nd["id"] not in below, keepe=F,
                    sup=op[3], upd=op[2], new=False)
    if n == "PruneNoTaxa":
        return dict(keepl=T, keepi=T, keepe=F, sup=op[3], upd=op[2], new=False)
    if n == "SuppressUnif":
        return dict(keepl=T, keepi=T, keepe=F, sup=True, upd=False, new=False)
    if n == "Extract":
        flt = op[1]
        if flt is None:
            return dict(keepl=T, keepi=T, keepe=F, sup=op[2], upd=False, new=True)
        lfl, intl, oks = flt
        oks = set(oks)
        return dict(keepl=(lambda nd: nd["id"] in oks) if lfl else T,
                    keepi=(lambda nd: nd["id"] in oks) if intl else T, keepe=F, sup=op[2], upd=False, new=True)
    if n in ("ExtractWithTaxa", "ExtractWithLabels"):
        taxa = set(op[1]) if n == "ExtractWithTaxa" else label_taxa(case, op[1], case["cs"])
        return dict(keepl=lambda nd: nd["taxon"] in taxa, keepi=T, keepe=F, sup=op[2], upd=False, new=True)
    if n in ("ExtractWithoutTaxa", "ExtractWithoutLabels"):
        taxa = set(op[1]) if n == "ExtractWithoutTaxa" else label_taxa(case, op[1], case["cs"])
        return dict(keepl=lambda nd: nd["taxon"] not in taxa, keepi=T, keepe=F, sup=op[2], upd=False, new=True)
    return None


def canon_src(t, srcmap_iter=None):
    """(id, taxon, label, len, kids) with ids taken from the extraction_source map when given"""
    if srcmap_iter is not None:
        i = next(srcmap_iter)
    else:
        i = t["id"]
    return (i, t["taxon"], t["label"], t["len"], tuple(canon_src(k, srcmap_iter) for k in t["kids"]))


def canon_spec(t):
    return (t["id"], t["taxon"], t["label"], t["len"], tuple(canon_spec(k) for k in t["kids"]))


def has_unifurcation(t):
    return any(len(n["kids"]) == 1 for n in trees.preorder(t))


def all_lengths(t):
    return all(n["len"] is not None for n in trees.preorder(t))


def check_op(case, op, o):
    """-> None | (what, key)"""
    spec = case["tree"]
    name = op[0]
    tag = "%s %s on %s" % (name, op[1:], trees.newick(spec))
    if o["problems"]:
        return ("pointer structure broken after %s: %s" % (tag, o["problems"][:3]), "pointers:" + name)
    if o["k"] == "new":
        if o["src_after"] != spec or o["src_rooted"] != case["rooted"]:
            return ("extraction altered the source tree: %s" % tag, "source-altered:" + name)
    if not in_domain(spec):
        return None
    ex = expected_for(case, op)
    if ex is None:
        return None
    want = py_restrict(spec, ex["keepl"], ex["keepi"], ex["keepe"], ex["sup"])
    if want is None:
        return None         # nothing survives: outside "keep at least one leaf"
    if not trees.leaves(want) or any(n["kids"] == [] and n["taxon"] is None and not ex["keepe"](n)
                                     for n in trees.preorder(want)):
        return None
    if o["exc"] is not None:
        if name == "ExtractAt":
            return None
        if name in ("ExtractWithLabels", "ExtractWithoutLabels") and not case["cs"]:
            taxa = label_taxa(case, op[1], True)
            alt_keepl = (lambda nd: nd["taxon"] in taxa) if name == "ExtractWithLabels" else (lambda nd: nd["taxon"] not in taxa)
            if py_restrict(spec, alt_keepl, ex["keepi"], ex["keepe"], ex["sup"]) is None:
                return ("%s: labels are matched case-sensitively by the extract_* methods although the namespace "
                        "is case-insensitive (the in-place methods match %s); here nothing matched and %s was raised"
                        % (tag, sorted(label_taxa(case, op[1], False)), o["exc"]), "extract-labels-case-sensitive")
        return ("%s raised %s although leaves survive" % (tag, o["exc"]), "raises:%s:%s" % (name, o["exc"]))
    if ex["new"]:
        got = o["new"]
        if any(x is None or x < 0 for x in o["srcmap"]):
            return ("a node of the extracted tree has no extraction_source on the source tree: %s" % tag,
                    "no-extraction-source:" + name)
        if any(n["id"] < BASE for n in trees.preorder(got)):
            return ("extracted tree shares a node object with the source: %s" % tag, "shared-node:" + name)
        gotc = canon_src(got, iter(o["srcmap"]))
        if o["rooted"] != case["rooted"]:
            return ("extracted tree has rooting %r, source %r" % (o["rooted"], case["rooted"]), "rooting:" + name)
    else:
        got = o["tree"]
        gotc = canon_spec(got)
    wantc = canon_spec(want)
    unrooted_view = (not ex["new"]) and ex["upd"] and case["rooted"] is not True
    if ex["upd"] and o.get("enc_ok") in ("missing", "edges-missing"):
        return ("update_bipartitions=True was passed but %s: %s (result %s)"
                % ("tree.bipartition_encoding is None afterwards (the operation returned without encoding)"
                   if o["enc_ok"] == "missing" else "some edge of the tree has no bipartition afterwards",
                   tag, trees.newick(got)), "encoding-missing:" + name)
    if ex["upd"] and o.get("enc_ok") and not o["enc_ok"][0]:
        return ("update_bipartitions=True left an encoding that does not describe the tree: %s" % tag,
                "stale-encoding:" + name)
    if gotc != wantc:
        # classify
        want_sup = py_restrict(spec, ex["keepl"], ex["keepi"], ex["keepe"], True)
        if (not ex["sup"]) and name.startswith("ExtractWith") and gotc == canon_spec(want_sup):
            return ("%s: suppress_unifurcations=False was passed but the wrapper does not hand it to extract_tree; "
                    "unifurcations were suppressed" % tag, "extract-wrapper-ignores-suppress-unifurcations")
        if name in ("ExtractWithLabels", "ExtractWithoutLabels") and not case["cs"]:
            alt = dict(ex)
            taxa = label_taxa(case, op[1], True)
            alt_keepl = (lambda nd: nd["taxon"] in taxa) if name == "ExtractWithLabels" else (lambda nd: nd["taxon"] not in taxa)
            w2 = py_restrict(spec, alt_keepl, ex["keepi"], ex["keepe"], ex["sup"])
            if w2 is not None and gotc == canon_spec(w2):
                return ("%s: labels are matched case-sensitively by the extract_* methods although the namespace "
                        "is case-insensitive (the in-place methods match %s)" % (tag, sorted(label_taxa(case, op[1], False))),
                        "extract-labels-case-sensitive")
        if ex["upd"] and not ex["sup"] and not unrooted_view and gotc == canon_spec(want_sup):
            return ("%s: suppress_unifurcations=False declined, but update_bipartitions=True suppressed the "
                    "unifurcations anyway" % tag, "update-bipartitions-overrides-declined-suppression")
        if name == "PruneSubtree":
            wk = py_restrict(spec, ex["keepl"], ex["keepi"], lambda nd: True, ex["sup"] or (ex["upd"]))
            if wk is not None and canon_spec(wk) != canon_spec(py_restrict(spec, ex["keepl"], ex["keepi"], ex["keepe"], ex["sup"] or ex["upd"])):
                stay = [n["id"] for n in trees.leaves(wk) if n["taxon"] is None]
                if stay and all(any(n["id"] == i and not n["kids"] for n in trees.preorder(got)) for i in stay):
                    return ("%s: the parent of the pruned subtree had no other child and stays behind as a "
                            "taxon-less leaf (node %s)" % (tag, stay), "prune-subtree-childless-parent-stays")
        if unrooted_view:
            # an unrooted tree may have had its basal bifurcation collapsed by the encoding: compare as
            # unrooted trees (leaf identity, bipartitions, path lengths)
            gl = sorted((n["id"], n["taxon"], n["label"]) for n in trees.leaves(got))
            wl = sorted((n["id"], n["taxon"], n["label"]) for n in trees.leaves(want))
            if gl != wl:
                return ("%s: surviving leaves %s, expected %s" % (tag, gl, wl), "wrong-leaves:" + name)
            if splits(got) != splits(want):
                return ("%s: bipartitions of the result differ from those of the induced tree" % tag, "wrong-splits:" + name)
            uw = sorted(n["id"] for n in trees.preorder(want) if len(n["kids"]) == 1)
            ug = sorted(n["id"] for n in trees.preorder(got) if len(n["kids"]) == 1)
            if not ex["sup"] and uw != ug:
                return ("%s: suppress_unifurcations=False declined, but update_bipartitions=True suppressed "
                        "unifurcations anyway (kept %s, expected %s)" % (tag, ug, uw),
                        "update-bipartitions-overrides-declined-suppression")
            if ex["sup"] and ug:
                return ("%s: unifurcations %s left although suppression was requested" % (tag, ug), "not-suppressed:" + name)
        else:
            return ("%s: result %s is not the induced subtree %s" % (tag, trees.newick(got), trees.newick(want)),
                    "not-induced:" + name)
    if ex["upd"] and o.get("enc_ok") and not o["enc_ok"][1]:
        if not ex["sup"]:
            return ("%s: with suppression declined, update_bipartitions=True leaves an unrooted tree whose basal "
                    "bifurcation a fresh encode_bipartitions() collapses (stored encoding lists the basal split twice)" % tag,
                    "update-bipartitions-declined-suppression-not-normalised")
        return ("update_bipartitions=True left an encoding that differs from a fresh one: %s" % tag,
                "stale-encoding:" + name)
    # independent semantic statements on the implementation's result
    keptl = [n for n in trees.leaves(got)]
    if ex["new"]:
        it = iter(o["srcmap"])
        ren = {}
        for n in trees.preorder(got):
            ren[n["id"]] = next(it)
    else:
        ren = {n["id"]: n["id"] for n in trees.preorder(got)}
    S = set(ren[n["id"]] for n in keptl)
    if ex["keepe"] is not None and not unrooted_view:
        got_cl = set(frozenset(ren[x] for x in leaf_ids_under(n)) for n in trees.preorder(got))
        want_cl = set()
        for n in trees.preorder(spec):
            c = frozenset(x for x in leaf_ids_under(n) if x in S)
            if c:
                want_cl.add(c)
        emptied_kept = any(n["kids"] and n["id"] in S for n in trees.preorder(spec))
        if not emptied_kept and not (ex["keepi"](spec) is True and any(not ex["keepi"](n) for n in trees.preorder(spec))):
            if got_cl != want_cl:
                return ("%s: clades of the result are not the non-empty restrictions of the original clades" % tag,
                        "clades:" + name)
    if all_lengths(spec):
        inv = {v: k for k, v in ren.items()}
        ls = sorted(S)
        for a, b in itertools.combinations(ls[:12], 2):
            if path_dist(got, inv[a], inv[b]) != path_dist(spec, a, b):
                return ("%s: path length between surviving leaves %d and %d changed from %s to %s"
                        % (tag, a, b, path_dist(spec, a, b), path_dist(got, inv[a], inv[b])), "distance:" + name)
        if len(ls) == 1 and ex["sup"]:
            # single survivor: that leaf, carrying the whole path from above the root
            a = ls[0]
            pm = parent_map(spec)
            by = {n["id"]: n for n in trees.preorder(spec)}
            tot, x = 0, a
            while x is not None:
                tot += by[x]["len"]
                p = pm[x]
                x = None if p is None else p["id"]
            if got["kids"] or got["len"] != tot:
                return ("%s: single survivor should be the bare leaf with length %s, got %s" % (tag, tot, trees.newick(got)),
                        "single-survivor:" + name)
    if name in ("FilterLeaves", "PruneNoTaxa"):
        bad = check_removed(spec, got, o["ret"], ex)
        if bad:
            return ("%s: %s" % (tag, bad), "removed-list:" + name)
    return None


def check_removed(spec, got, ret, ex):
    orig = {n["id"]: n for n in trees.preorder(spec)}
    res_ids = set(n["id"] for n in trees.preorder(got))
    if len(set(ret)) != len(ret):
        return "a node is reported as removed twice: %s" % ret
    if not set(ret) <= set(orig):
        return "a reported node is not a node of the tree"
    if set(ret) & res_ids:
        return "a node reported as removed is still in the tree"
    surv_leaves = set(n["id"] for n in trees.leaves(got))
    for i, n in orig.items():
        if i in res_ids:
            continue
        has_surv = any(x["id"] in surv_leaves for x in trees.preorder(n))
        if has_surv and i in ret:
            return "node %d is reported as removed although a surviving leaf descends from it" % i
        if not has_surv and i not in ret:
            return "node %d disappeared with everything below it but is not reported as removed" % i
    # order: by removal round, within a round in leaf order

    def rnd(n):
        return 1 if not n["kids"] else 1 + max(rnd(k) for k in n["kids"])
    pos = {n["id"]: j for j, n in enumerate(trees.postorder(spec))}
    keyed = [(rnd(orig[i]), pos[i]) for i in ret]
    if keyed != sorted(keyed):
        return "removed nodes are not reported pass by pass in leaf order: %s" % ret
    return None


def oracle(case, obs):
    first = None
    if case.get("pre") and obs and obs[0].get("pre_bad"):
        pop = case["pre"]["op"]
        return ("earlier step %s on %s: %s" % (pop, trees.newick(case["pre"]["tree"]), obs[0]["pre_bad"]),
                "pre-step:" + pop[0])
    for op, o in zip(case["ops"], obs):
        v = check_op(case, op, o)
        if v and first is None:
            first = v
    if first:
        return first
    # agreement inside a group (in-place prune / retain of the complement / extract with / without ...)
    groups = {}
    for op, o, g in zip(case["ops"], obs, case["tags"]):
        if g is None or o["exc"] is not None:
            continue
        ex = expected_for(case, op)
        if ex is None:
            continue
        if (not ex["new"]) and ex["upd"] and case["rooted"] is not True:
            continue        # an unrooted in-place result may have its basal bifurcation collapsed (judged per op)
        want = py_restrict(case["tree"], ex["keepl"], ex["keepi"], ex["keepe"], ex["sup"])
        if want is None:
            continue
        # only operations that name the same surviving leaves with the same flags are claimed to agree
        sig = (g, repr(strip_ids(want)))
        t = o["tree"] if o["k"] == "in" else o["new"]
        groups.setdefault(sig, []).append((op, strip_ids(t)))
    if in_domain(case["tree"]):
        for g, lst in groups.items():
            for op, t in lst[1:]:
                if t != lst[0][1]:
                    return ("%s and %s disagree on %s: %s vs %s" % (lst[0][0], op, trees.newick(case["tree"]),
                                                                   lst[0][1], t),
                            "disagree:%s:%s" % (lst[0][0][0], op[0]))
    return None


# ------------------------------------------------------------------------------------------------
# generators
# ------------------------------------------------------------------------------------------------

def mk_group_ops(case, keep, upd, sup, rng=None, flipcase=False, full=0):
    """full=1/2: the retain / extract-with lists also name every namespace taxon that is not on the tree,
    so that "keep all" hands prune_taxa an EMPTY set; full=2 additionally pads the prune / extract-without
    label lists with labels that match no taxon of the namespace"""
    ontree = [n["taxon"] for n in trees.leaves(case["tree"]) if n["taxon"] is not None]
    comp = [k for k in ontree if k not in keep]
    keep = [k for k in ontree if k in keep]
    if full:
        keep = keep + [k for k in case["ns"] if k not in ontree]
    if rng:
        rng.shuffle(comp)
        rng.shuffle(keep)
    lab = lambda k: (case["tlabels"][k] ^ 1) if flipcase else case["tlabels"][k]
    nomatch = []
    if full == 2:
        top = 2 * (max(case["tlabels"] + [0]) // 2 + 1)
        nomatch = [top + 2, top + 5]
    return [
        ["PruneTaxa", comp, upd, sup, True, False],
        ["RetainTaxa", keep, upd, sup],
        ["ExtractWithTaxa", keep, sup],
        ["ExtractWithoutTaxa", comp, sup],
        ["PruneLabels", [lab(k) for k in comp] + nomatch, upd, sup, True, False],
        ["RetainLabels", [lab(k) for k in keep], upd, sup],
        ["ExtractWithLabels", [lab(k) for k in keep], sup],
        ["ExtractWithoutLabels", [lab(k) for k in comp] + nomatch, sup],
    ]


def random_keep(rng, taxa):
    n = len(taxa)
    r = rng.random()
    if r < 0.12:
        return [rng.choice(taxa)]
    if r < 0.24 and n > 1:
        out = list(taxa)
        out.remove(rng.choice(taxa))
        return out
    if r < 0.30:
        return list(taxa)
    if r < 0.33:
        return []
    p = rng.choice([0.2, 0.5, 0.5, 0.8])
    out = [k for k in taxa if rng.random() < p]
    return out


def renumber(spec):
    for i, nd in enumerate(trees.preorder(spec)):
        nd["id"] = i
    return spec


def force_unifurcation(rng, spec, k=1):
    """wrap k random nodes of the spec tree in a new outdegree-one parent (ids renumbered in pre-order)"""
    for _ in range(k):
        nodes = trees.preorder(spec)
        nd = rng.choice(nodes)
        inner = dict(nd)
        ln = rng.choice([None, 0, 512, 1024, 2048]) if nd["len"] is None else rng.choice([256, 512, 1024, 2048])
        nd.update({"taxon": None, "label": None, "len": ln, "kids": [inner]})
    return renumber(spec)


def binary_parent_children(spec):
    return [k["id"] for n in trees.preorder(spec) if len(n["kids"]) == 2 for k in n["kids"]]


def add_pre_history(case, preop):
    """turn `case` (ops still empty) into a two-step history: case["tree"] becomes what `preop`
    (suppression declined) leaves, computed by the oracle's own restriction; -> False if not usable"""
    ex = expected_for(case, preop)
    if ex is None or ex["sup"] or ex["upd"]:
        return False
    mid = py_restrict(case["tree"], ex["keepl"], ex["keepi"], ex["keepe"], False)
    if mid is None or not in_domain(mid) or not has_unifurcation(mid):
        return False
    import copy
    case["pre"] = {"tree": case["tree"], "op": preop}
    case["tree"] = copy.deepcopy(mid)
    return True


def gen_keepall_case(rng):
    """the "nothing to remove" corner on a tree that still has something to normalise: a source with
    outdegree-one nodes (built that way, or left behind by an earlier prune_subtree / filter_leaf_nodes
    with suppress_unifurcations=False), all eight variants with the keep-all subset (retain lists name
    the whole namespace, prune lists are empty or name labels that match nothing), then a second group
    with a random subset"""
    nl = rng.choice([1, 2, 2, 3, 3, 4, 5, 6, 8, 12])
    lengths = rng.choice(["dyadic", "positive", "mixed", "none", "int", "positive"])
    spec = trees.gen_tree(rng, nl, lengths=lengths, unifurcations=rng.choice([0.0, 0.2]),
                          internal_labels=rng.choice([0.0, 0.4]))
    ntax = nl + rng.randint(0, 2)
    tl = [2 * k + (1 if rng.random() < 0.3 else 0) for k in range(ntax)]
    nsorder = list(range(ntax))
    rng.shuffle(nsorder)
    case = {"tree": spec, "rooted": rng.choice([True, False, None, True]), "tlabels": tl, "ns": nsorder,
            "cs": rng.random() < 0.25, "ops": [], "tags": [], "coq": []}
    made = False
    if nl >= 3 and rng.random() < 0.5:
        if rng.random() < 0.7:
            cands = binary_parent_children(spec)
            if cands:
                made = add_pre_history(case, ["PruneSubtree", rng.choice(cands), False, False])
        else:
            leafids = [n["id"] for n in trees.leaves(spec)]
            drop = rng.choice(leafids)
            made = add_pre_history(case, ["FilterLeaves", [i for i in leafids if i != drop], True, False, False])
    if not made and not has_unifurcation(case["tree"]):
        force_unifurcation(rng, case["tree"], rng.choice([1, 1, 2]))
    spec = case["tree"]
    ontree = [n["taxon"] for n in trees.leaves(spec) if n["taxon"] is not None]
    sup = rng.random() < 0.85
    for g, keep in enumerate([list(ontree), random_keep(rng, ontree)]):
        upd = rng.random() < 0.4
        ops = mk_group_ops(case, keep, upd, sup, rng, full=rng.choice([1, 2, 2]))
        sel = range(8) if g == 0 else sorted(rng.sample(range(8), 3))
        for j in sel:
            case["ops"].append(ops[j]); case["tags"].append(g); case["coq"].append(True)
    return case


def gen_bare_clade_case(rng):
    """model faithfulness for the one-pass forms (wave 12): an internal node ALL of whose children are taxon-less
    leaves, so that prune_leaves_without_taxa(recursive=False) / filter_leaf_nodes(recursive=False) empty it in the
    first pass and must leave it standing (recursive=True removes it in the second pass).  Outside the property's
    domain (bare leaves): the oracle makes no claim, the comparison is model vs. implementation."""
    nl = rng.choice([3, 4, 5, 6, 8])
    lengths = rng.choice(["dyadic", "positive", "mixed", "none"])
    spec = trees.gen_tree(rng, nl, lengths=lengths, unifurcations=0.0, internal_labels=0.0)
    cands = [n for n in trees.preorder(spec) if n["kids"] and n is not spec and all(not k["kids"] for k in n["kids"])]
    if not cands:
        cands = [n for n in trees.preorder(spec) if n["kids"] and all(not k["kids"] for k in n["kids"])]
    bare = []
    if cands:
        x = rng.choice(cands)
        for k in x["kids"]:
            k["taxon"] = None
            bare.append(k["id"])
    ntax = nl
    tl = [2 * k for k in range(ntax)]
    nsorder = list(range(ntax))
    case = {"tree": spec, "rooted": rng.choice([True, False, None, True]), "tlabels": tl, "ns": nsorder,
            "cs": False, "ops": [], "tags": [], "coq": []}
    allids = [n["id"] for n in trees.preorder(spec)]
    for rec in (False, True):
        upd = rng.random() < 0.3
        sup = rng.random() < 0.5
        case["ops"].append(["PruneNoTaxa", rec, upd, sup]); case["tags"].append(None); case["coq"].append(True)
        case["ops"].append(["FilterLeaves", [i for i in allids if i not in bare], rec, upd, sup])
        case["tags"].append(None); case["coq"].append(True)
    return case


def gen_case(rng, big=False):
    r = rng.random()
    if big:
        nl = rng.randint(21, 40)
    elif r < 0.04:
        nl = 1
    elif r < 0.60:
        nl = rng.randint(2, 8)
    else:
        nl = rng.randint(9, 20)
    unif = rng.choice([0.0, 0.0, 0.0, 0.15, 0.3])
    lengths = rng.choice(["dyadic", "positive", "mixed", "none", "int", "positive"])
    spec = trees.gen_tree(rng, nl, lengths=lengths, unifurcations=unif, internal_labels=rng.choice([0.0, 0.4]))
    ntax = nl + rng.randint(0, 2)
    odd = rng.random()
    if odd < 0.06:
        # outside the property's domain (model faithfulness only): taxa on internal nodes / bare leaves
        extra_t = list(range(nl, ntax))
        for n in trees.preorder(spec):
            if n["kids"] and extra_t and rng.random() < 0.4:
                n["taxon"] = extra_t.pop()
            elif not n["kids"] and rng.random() < 0.2:
                n["taxon"] = None
    tl = [2 * k + (1 if rng.random() < 0.3 else 0) for k in range(ntax)]
    if rng.random() < 0.08 and ntax > 2:
        tl[1] = tl[0]           # two taxa with the same label
    nsorder = list(range(ntax))
    rng.shuffle(nsorder)
    case = {"tree": spec, "rooted": rng.choice([True, False, None, True, False]), "tlabels": tl, "ns": nsorder,
            "cs": rng.random() < 0.25, "ops": [], "tags": [], "coq": []}
    ontree = [n["taxon"] for n in trees.leaves(spec) if n["taxon"] is not None]
    allids = [n["id"] for n in trees.preorder(spec)]
    leafids = [n["id"] for n in trees.leaves(spec)]
    nops = 2 if big else rng.randint(3, 6)
    g = 0
    while len(case["ops"]) < nops:
        k = rng.random()
        upd = rng.random() < 0.3
        sup = rng.random() < 0.7
        if k < 0.45 and ontree:
            keep = random_keep(rng, ontree)
            ops = mk_group_ops(case, keep, upd, sup, rng, flipcase=rng.random() < 0.15, full=rng.choice([0, 0, 1, 2]))
            pick = rng.sample(range(8), 2 if big else rng.choice([2, 3, 4]))
            for j in sorted(pick):
                case["ops"].append(ops[j]); case["tags"].append(g); case["coq"].append(True)
            g += 1
            continue
        if k < 0.57:
            mode = rng.random()
            if mode < 0.5:
                oks = [i for i in leafids if rng.random() < 0.6]       # internal nodes evaluate False
            elif mode < 0.8:
                oks = [i for i in allids if rng.random() < 0.6]
            else:
                oks = [i for i in allids if i not in leafids] + [i for i in leafids if rng.random() < 0.5]
            op = ["FilterLeaves", oks, rng.random() < 0.75, upd, sup]
        elif k < 0.65:
            op = ["PruneSubtree", rng.choice(allids) if rng.random() < 0.9 else spec["id"], upd, sup]
        elif k < 0.69:
            op = ["PruneNoTaxa", rng.random() < 0.7, upd, sup]
        elif k < 0.72:
            op = ["SuppressUnif"]
        elif k < 0.76:
            par = rng.choice(allids)
            pn = [n for n in trees.preorder(spec) if n["id"] == par][0]
            if pn["kids"] and rng.random() < 0.9:
                ch = rng.choice(pn["kids"])["id"]
            else:
                ch = rng.choice(allids)
            op = ["RemoveChild", par, ch, rng.random() < 0.6]
        elif k < 0.90:
            mode = rng.random()
            if mode < 0.1:
                flt = None
            else:
                lfl = rng.random() < 0.85
                intl = rng.random() < 0.3
                oks = [i for i in allids if rng.random() < (0.85 if i not in leafids else 0.55)]
                flt = [lfl, intl, oks]
            op = ["Extract", flt, sup]
        elif k < 0.95:
            lfl = rng.random() < 0.85
            intl = rng.random() < 0.2
            oks = [i for i in allids if rng.random() < (0.9 if i not in leafids else 0.6)]
            op = ["ExtractAt", rng.choice(allids), None if rng.random() < 0.2 else [lfl, intl, oks], sup]
        else:
            taxa = [t for t in ontree if rng.random() < 0.4]
            op = ["PruneTaxa", taxa, upd, sup, rng.random() < 0.7, rng.random() < 0.6]
        case["ops"].append(op); case["tags"].append(None); case["coq"].append(True)
    return case


LEN_PATTERNS = [
    lambda rng: rng.choice([256, 512, 1024, 1536, 2048, 3072]),
    lambda rng: None if rng.random() < 0.3 else rng.choice([0, 512, 1024, 2048]),
    lambda rng: None,
    lambda rng: rng.choice([0, 0, 1024]),
]


def exhaustive_cases(rng, maxn, coq_maxn, coq_sample=0.0):
    """every shape with <= maxn leaves x every subset of its leaves; the flags, the rooting and the
    length pattern rotate.  All eight API variants are run and judged by the oracle; the Coq model
    receives all of them for shapes up to coq_maxn leaves and a random sample above."""
    j = 0
    for nl in range(1, maxn + 1):
        for shape in trees.all_shapes(nl):
            for sub in range(0, 2 ** nl):
                keep = [k for k in range(nl) if sub >> k & 1]
                j += 1
                spec = trees.shape_to_tree(shape, LEN_PATTERNS[j % 4 if j % 3 else 0], rng)
                case = {"tree": spec, "rooted": [True, False, None][j % 3], "tlabels": [2 * k for k in range(nl)],
                        "ns": list(range(nl)), "cs": False, "ops": [], "tags": [], "coq": []}
                upd = (j // 3) % 4 == 0
                sup = (j // 5) % 3 != 0
                ops = mk_group_ops(case, keep, upd, sup)
                incoq = nl <= coq_maxn or rng.random() < coq_sample
                if nl > 5:
                    # rotate four of the eight variants
                    sel = [(j + q) % 8 for q in (0, 1, 2, 3)] if nl == 7 else list(range(8))
                else:
                    sel = list(range(8))
                for q in sel:
                    case["ops"].append(ops[q]); case["tags"].append(0); case["coq"].append(incoq)
                yield case


def unif_shapes(nl, maxu):
    """every shape with nl leaves in which 1..maxu nodes (any, the root included) have been given a new
    outdegree-one parent"""
    import copy
    for shape in trees.all_shapes(nl):
        def count(s):
            return 1 + sum(count(k) for k in s)
        N = count(shape)
        for u in range(1, maxu + 1):
            for pos in itertools.combinations(range(N), u):
                ctr = [0]

                def wrap(s):
                    me = ctr[0]
                    ctr[0] += 1
                    out = [wrap(k) for k in s]
                    return [out] if me in pos else out
                yield wrap(copy.deepcopy(shape))


def exhaustive_unif_cases(rng, maxn, maxu, coq_maxn, coq_sample=0.0, others=1.0, keepall_first=False):
    """every shape with <= maxn leaves and 1..maxu pre-existing outdegree-one nodes x every non-empty
    subset of its leaves, all eight API variants.  The keep-all subset (empty prune set, retain of the
    whole namespace, labels that match nothing) always runs, with suppression requested and
    update_bipartitions alternating; of the other subsets a fraction `others`."""
    j = ka = 0
    passes = (True, False) if keepall_first else (None,)
    for only_all in passes:
        for nl in range(1, maxn + 1):
            for shape in unif_shapes(nl, maxu):
                full_sub = 2 ** nl - 1
                for sub in range(1, 2 ** nl):
                    j += 1
                    if only_all is True and sub != full_sub:
                        continue
                    if only_all is False and sub == full_sub:
                        continue
                    if sub != full_sub and others < 1.0 and rng.random() >= others:
                        continue
                    keep = [k for k in range(nl) if sub >> k & 1]
                    spec = trees.shape_to_tree(shape, LEN_PATTERNS[j % 4 if j % 3 else 0], rng)
                    case = {"tree": spec, "rooted": [True, False, None][j % 3], "tlabels": [2 * k for k in range(nl)],
                            "ns": list(range(nl)), "cs": False, "ops": [], "tags": [], "coq": []}
                    if sub == full_sub:
                        ka += 1
                        upd, sup = (ka % 2 == 0), True
                    else:
                        upd, sup = (j // 3) % 4 == 0, (j // 5) % 3 != 0
                    ops = mk_group_ops(case, keep, upd, sup, full=2)
                    incoq = nl <= coq_maxn or rng.random() < coq_sample
                    for q in range(8):
                        case["ops"].append(ops[q]); case["tags"].append(0); case["coq"].append(incoq)
                    yield case


def exhaustive_pre_cases(rng, maxn, coq_maxn, others=1.0):
    """two-step histories: every shape with 2..maxn leaves, every child of a bifurcating node pruned by
    prune_subtree(suppress_unifurcations=False) (leaves its parent as an outdegree-one node), then all
    eight variants on every non-empty subset of the remaining leaves (keep-all always; retain lists name the
    whole namespace, which still holds the pruned taxa)"""
    j = ka = 0
    for nl in range(2, maxn + 1):
        for shape in trees.all_shapes(nl):
            base = trees.shape_to_tree(shape, None, rng)
            for nid in binary_parent_children(base):
                j += 1
                spec = trees.shape_to_tree(shape, LEN_PATTERNS[j % 4 if j % 3 else 0], rng)
                proto = {"tree": spec, "rooted": [True, False, None][j % 3], "tlabels": [2 * k for k in range(nl)],
                         "ns": list(range(nl)), "cs": False, "ops": [], "tags": [], "coq": []}
                if not add_pre_history(proto, ["PruneSubtree", nid, False, False]):
                    continue
                left = [n["taxon"] for n in trees.leaves(proto["tree"])]
                m = len(left)
                for sub in range(1, 2 ** m):
                    j += 1
                    allsub = sub == 2 ** m - 1
                    if not allsub and others < 1.0 and rng.random() >= others:
                        continue
                    import copy
                    case = copy.deepcopy(proto)
                    keep = [left[k] for k in range(m) if sub >> k & 1]
                    if allsub:
                        ka += 1
                        upd, sup = (ka % 2 == 0), True
                    else:
                        upd, sup = (j // 3) % 4 == 0, (j // 5) % 3 != 0
                    ops = mk_group_ops(case, keep, upd, sup, full=2)
                    for q in range(8):
                        case["ops"].append(ops[q]); case["tags"].append(0); case["coq"].append(nl <= coq_maxn)
                    yield case


def nontrivial(case, obs):
    return len(trees.leaves(case["tree"])) >= 3 and any(
        o["exc"] is None and (o["tree"] if o["k"] == "in" else o["new"]) is not None
        and len(trees.preorder(o["tree"] if o["k"] == "in" else o["new"])) < len(trees.preorder(case["tree"]))
        for o in obs)


def count_case(ctx, case, obs):
    nl = len(trees.leaves(case["tree"]))
    ctx.count("leaves %s" % ("1" if nl == 1 else "2-4" if nl <= 4 else "5-8" if nl <= 8 else "9-20" if nl <= 20 else "21-40"))
    ctx.count("rooted=%s" % case["rooted"])
    if has_unifurcation(case["tree"]):
        ctx.count("source has unifurcations")
    if case.get("pre"):
        ctx.count("two-step history: source left by %s(suppress_unifurcations=False)" % case["pre"]["op"][0])
    if not all_lengths(case["tree"]):
        ctx.count("source has None lengths")
    if not in_domain(case["tree"]):
        ctx.count("outside domain (internal taxa / bare leaves): correspondence only")
    for op, o in zip(case["ops"], obs):
        ctx.count("op " + op[0])
        if has_unifurcation(case["tree"]) and in_domain(case["tree"]) and op[0] in GROUP_OPS:
            ex = expected_for(case, op)
            if ex is not None and all(ex["keepl"](n) for n in trees.leaves(case["tree"])):
                ctx.count("keep-all subset on a source with unifurcations: " + op[0])
        ctx.count("outcome %s:%s" % (op[0], o["exc"] or "ok"))
        if o["exc"] is None:
            t = o["tree"] if o["k"] == "in" else o["new"]
            nlv = len(trees.leaves(t))
            if nlv == 1 and nl > 1:
                ctx.count("single survivor")
            if nlv == nl - 1:
                ctx.count("all but one survive")
            if has_unifurcation(t):
                ctx.count("result keeps a unifurcation")
        if op[0] in ("PruneTaxa", "PruneLabels", "RetainTaxa", "RetainLabels", "FilterLeaves", "PruneSubtree", "PruneNoTaxa"):
            ctx.count("flags upd=%s sup=%s" % (op[-3] if op[0] in ("PruneTaxa", "PruneLabels") else op[-2],
                                               op[-2] if op[0] in ("PruneTaxa", "PruneLabels") else op[-1]))


def sweep(ctx, cases, budget_s=None):
    """oracle-only pass (no Coq): observe + oracle"""
    t0 = time.time()
    n = 0
    for case in cases:
        obs = observe(case)
        n += len(obs)
        v = oracle(case, obs)
        if v:
            ctx.violation(v[0], {"case": case, "observed": obs}, key=v[1])
        if budget_s and time.time() - t0 > budget_s:
            break
    return n


def search(ctx, budget_s):
    rng = ctx.rng
    # sources with outdegree-one nodes (built in, or left by an earlier prune_subtree(suppress_unifurcations=False)):
    # keep-all subsets first, then every other subset
    n = sweep(ctx, exhaustive_unif_cases(rng, 4, 2, 0, keepall_first=True), budget_s * 0.12)
    n += sweep(ctx, exhaustive_pre_cases(rng, 5, 0), budget_s * 0.08)
    n += sweep(ctx, exhaustive_cases(rng, 6, 0), budget_s * 0.45)
    t0 = time.time()
    while time.time() - t0 < budget_s * 0.35:
        n += sweep(ctx, [gen_case(rng) for _ in range(40)] + [gen_keepall_case(rng) for _ in range(10)])
    ctx.notes.append("search: %d implementation runs judged by the oracle" % n)


def run(tier, seed, replay=None):
    ctx = core.Ctx("C08", tier, seed)
    ctx.assumptions = [
        "coq/Model/C08Model.v is a hand transcription of the anchored methods on id-carrying rose trees; tied by this correspondence run",
        "edge lengths are multiples of 2^-10 (binary64 + is exact on them); float rounding is outside the model",
        "the loops over lazy iterators are modelled over the post-order list at loop entry; that this is what the generated iterator machine (Gen/Traversals.v) interleaved with the mutating body yields is now a theorem (lazy_postorder_loop_is_list_loop); trusted there: the translator's rendering of the generator and that the body runs between two resumptions",
        "a new node of an extracted tree is named by its extraction_source in the model; the harness names it by pre-order position",
        "filter functions are functions of node identity only",
        "two variants of the library are probed at run time and passed to the model in every case: whether the extract_*_labels wrappers resolve labels through the namespace (notes/C08_fix_c.patch), and the exception class when prune_taxa / prune_leaves_without_taxa reach the seed (notes/C03_fix_1.patch); theorems cover both values",
    ]
    ctx.notes.append("probed variants: %r" % (variants(),))
    if replay:
        import json
        r = json.load(open(replay))["replay"]
        case = r["case"]
        obs = observe(case)
        v = oracle(case, obs)
        print("oracle:", v)
        return 1 if v and v[1] not in ctx.known else 0
    ok = core.proof_stage(ctx, ["Props/C08.vo", "Props/C08Gen.vo"], gen_needed=("Traversals", "Mutators", "Extract"))
    ok = core.proof_stage(ctx, ["Props/C08Gen.vo"], props_file="Props/C08Gen.v", gen_needed=("Mutators", "Extract")) and ok
    if not ok:
        core.broken_proof(ctx, search)
    rng = ctx.rng
    if tier == "quick":
        cases = [gen_case(rng) for _ in range(260)] + [gen_case(rng, big=True) for _ in range(14)]
        small = list(exhaustive_cases(rng, 4, 3))
        cases += [c for c in small if len(trees.leaves(c["tree"])) <= 3 or rng.random() < 0.4]
        cases += [gen_keepall_case(rng) for _ in range(QUICK_KEEPALL)]
        cases += [gen_bare_clade_case(rng) for _ in range(12)]
        cases += list(exhaustive_unif_cases(rng, 3, 2, 3, others=0.15))
        cases += list(exhaustive_pre_cases(rng, 4, 4, others=0.15))
    else:
        cases = [gen_case(rng) for _ in range(3000)] + [gen_case(rng, big=True) for _ in range(150)]
        cases += list(exhaustive_cases(rng, 5, 5))
        cases += [gen_keepall_case(rng) for _ in range(400)]
        cases += [gen_bare_clade_case(rng) for _ in range(150)]
        cases += list(exhaustive_unif_cases(rng, 4, 2, 3, coq_sample=0.2))
        cases += list(exhaustive_pre_cases(rng, 5, 4))
        big = [c for c in exhaustive_cases(rng, 7, 0, coq_sample=0.02) if len(trees.leaves(c["tree"])) >= 6]
        incoq = [c for c in big if c["coq"][0]]
        rest = [c for c in big if not c["coq"][0]]
        cases += incoq
        n = sweep(ctx, rest)
        ctx.evaluations += len(rest)
        ctx.count("oracle-only exhaustive (shape, subset) pairs with 6-7 leaves", len(rest))
        ctx.count("oracle-only implementation runs", n)

    def observe_counted(case):
        obs = observe(case)
        count_case(ctx, case, obs)
        return obs

    core.corr_stage(ctx, cases, observe_counted, to_coq, HEADER, "case_ok", oracle=oracle, show_fn="case_show",
                    nontrivial=nontrivial, search=search, shard=200,
                    sample_fn=lambda c, o: {"tree": trees.newick(c["tree"]), "rooted": c["rooted"], "ops": c["ops"][:3],
                                            "results": [trees.newick(x["tree"] if x["k"] == "in" else x["new"]) if x["exc"] is None else x["exc"] for x in o[:3]]})
    return ctx.finish(level="proof",
                      rule="each case = one tree (random shape mix incl. unifurcations, 1-40 leaves; length patterns "
                           "dyadic/zero/None; rooting True/False/None; namespace with extra taxa, upper/lower-case "
                           "labels, both case settings) and 2-8 operations each run on a fresh build: the eight "
                           "taxon/label variants for one random keep-set (corner sets: one, all-but-one, all, none), "
                           "filter_leaf_nodes, prune_subtree, prune_leaves_without_taxa, suppress_unifurcations, "
                           "remove_child, extract_tree / Node.extract_subtree with node filters on leaves and internal "
                           "nodes, all with random update_bipartitions / suppress_unifurcations; plus every shape "
                           "x every leaf subset for <= 3 leaves and a 40% sample for 4 (quick); <= 5 leaves in Coq, "
                           "6-7 leaves all subsets by the oracle with a 2% sample in Coq (thorough). "
                           "Wave 8: keep-all subsets handing prune_taxa an EMPTY set (retain lists naming the whole namespace, empty "
                           "prune lists, labels that match nothing) on sources that carry outdegree-one nodes - built in, or "
                           "left behind by an earlier prune_subtree / filter_leaf_nodes(suppress_unifurcations=False) run on "
                           "the same library tree (two-step history, the intermediate tree checked too): random cases, every "
                           "shape with <= 3 leaves and 1-2 outdegree-one nodes (quick; <= 4 thorough) and every "
                           "prune_subtree history on <= 4 leaves (quick; <= 5 thorough), all eight variants; after "
                           "update_bipartitions=True a missing encoding is reported as encoding-missing:<op>. "
                           "Non-trivial = tree with >= 3 leaves on which some operation removed a node; distinct by case content")
