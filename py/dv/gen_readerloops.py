"""Reader-loop classifier: Gen/ReaderLoops.v  (used by C20, C13).

generate(repo) walks, with Python `ast`, every loop of the reader modules

    dataio/tokenizer.py  nexusprocessing.py  newickreader.py  nexusreader.py  nexusyielder.py
    newickyielder.py

and emits one Coq record per *reader loop* (every `while`, and every `for .. in itertools.count()`,
which is a `while True` in disguise).  A record holds only facts read off the syntax:

  guard facts     guard is constant True / has a top-level conjunct that leaves the loop when the
                  token variable is None / when the tokenizer is at end of stream (`is_eof()`) /
                  when the current character is "" (`_cur_char`)
  fetches         every token/character fetch call that occurs syntactically in the body, in source
                  order: the tokenizer primitives by name, calls of functions defined in the analysed
                  modules as `FCallee name consuming raising` (classification of the callee, below)
  path facts      a must-analysis over the paths through the body that reach the back edge
                  (fall off the end / `continue`):
                    every_path_fetches      each such path executes >= 1 fetch primitive or a call
                                            of a callee that itself fetches on all its normal-return
                                            paths
                    every_path_requires     each such path executes a `require_*` primitive (raises
                                            UnexpectedEndOfStreamError at end of stream) or a callee
                                            that does so on all its normal-return paths
                    every_path_eof_checked  each such path executes a `require_*` fetch, or passes the
                                            continuing branch of an `if` whose other branch always
                                            leaves the loop (break/return/raise) and whose test is true
                                            when the tokenizer is at end of stream (`is_eof()`,
                                            `_cur_char == ""`, `not <tok>.current_token`) or when a
                                            variable assigned on this path from a non-require fetch
                                            primitive is None (`not v`, `v is None`, `v == None`,
                                            `v != "<string constant>"`)
                    has_unconditional_exit  no path reaches the back edge at all

The progress rule itself (R1/R2/R3, allow-list) is *not* decided here: it is the boolean
`loop_ok` in coq/Model/C20Model.v, and `loop_progress` in coq/Props/C20.v is proved by vm_compute
over the table generated from the current source.

Excluded (listed in the generated file as comments): `for` loops over finite collections
(lists, strings, `enumerate(lines)`, `range`, `zip`, generator objects whose own loops are in the
table); they terminate with their iterable.  nexusprocessing.bitmask_as_newick_string's bit loop is
not a reader loop (C10 covers it; after the F6 fix it is a `for zip(..)`), nor are the formatting
helpers of nexusprocessing: a `while` appearing in one of those non-reader functions is listed under
`excluded_loops` (visible in the generated file), never dropped silently.

Fail closed: any statement / call form the analysis does not know raises Unsupported, which makes
py2coq write a stub, so that every dependent proof breaks.
"""
import ast
import hashlib
import os

FILES = ["tokenizer.py", "nexusprocessing.py", "newickreader.py", "nexusreader.py", "nexusyielder.py", "newickyielder.py"]

PRIMS = {
    "next_token": ("FNextToken", False),
    "require_next_token": ("FRequireNextToken", True),
    "next_token_ucase": ("FNextTokenUcase", False),
    "require_next_token_ucase": ("FRequireNextTokenUcase", True),
    "skip_to_semicolon": ("FSkipToSemicolon", False),
    "_get_next_char": ("FGetNextChar", False),
}
# primitives whose result is None at end of stream (value-returning, non-raising)
NONE_AT_EOF = {"next_token", "next_token_ucase"}

# functions of nexusprocessing.py that never touch a tokenizer (writers / formatting / taxon lookup)
NON_READER_FUNCS = {
    ("nexusprocessing.py", n) for n in (
        "parse_comment_metadata_to_annotations", "process_comments_for_item", "format_annotated_value",
        "format_item_annotations_as_comments", "escape_nexus_token", "bitmask_as_newick_string",
        "group_ranges", "get_rooting_argument", "reset_supplemental_mappings", "lookup_taxon_symbol",
        "new_taxon", "add_taxon", "add_translate_token", "require_taxon_for_symbol")
}

# module whose definitions `self.<name>` falls back to (inheritance), and receivers that name a module
FALLBACK = {"nexusyielder.py": ["nexusreader.py"], "nexusprocessing.py": ["tokenizer.py"]}
RECEIVER_MODULE = {"newick_reader": "newickreader.py", "nexusprocessing": "nexusprocessing.py",
                   "newickreader": "newickreader.py", "nexusreader": "nexusreader.py",
                   "tokenizer": "tokenizer.py"}
TOKENIZER_RECEIVERS = {"_nexus_tokenizer", "nexus_tokenizer"}


class Unsupported(Exception):
    pass


# ---------------------------------------------------------------------------------------------
# abstract state along one path:  (fetched, req, checked, fvars)
#   fetched  a fetch happened            req   a require_* fetch happened
#   checked  passed the continuing branch of an exiting end-of-stream test
#   fvars    frozenset of variable names assigned on this path from a None-at-EOF primitive
# ---------------------------------------------------------------------------------------------
INIT = (False, False, False, frozenset())


def st_fetch(st, req=False):
    return (True, st[1] or req, st[2], st[3])


def st_setvar(st, name, from_prim):
    fv = set(st[3])
    if from_prim:
        fv.add(name)
    else:
        fv.discard(name)
    return (st[0], st[1], st[2], frozenset(fv))


def st_checked(st):
    return (st[0], st[1], True, st[3])


def st_forget(st):
    return (st[0], st[1], st[2], frozenset())


class Module:
    def __init__(self, fname, tree):
        self.fname = fname
        self.tree = tree
        self.defs = {}         # name -> [FunctionDef]
        self.qual = {}         # id(FunctionDef) -> "Class.name"
        for node in tree.body:
            if isinstance(node, ast.FunctionDef):
                self.defs.setdefault(node.name, []).append(node)
                self.qual[id(node)] = node.name
            elif isinstance(node, ast.ClassDef):
                self._cls(node, node.name)

    def _cls(self, c, prefix):
        for node in c.body:
            if isinstance(node, ast.FunctionDef):
                self.defs.setdefault(node.name, []).append(node)
                self.qual[id(node)] = prefix + "." + node.name
            elif isinstance(node, ast.ClassDef):
                self._cls(node, prefix + "." + node.name)


class Analysis:
    def __init__(self, repo):
        base = os.path.join(repo, "src", "dendropy", "dataio")
        self.mods = {}
        for fn in FILES:
            with open(os.path.join(base, fn)) as f:
                self.mods[fn] = Module(fn, ast.parse(f.read()))
        # may_fetch: the function (transitively) contains a fetch primitive call at all
        self.may = {}
        self.cls = {}
        for fn, m in self.mods.items():
            for name in m.defs:
                self.cls[(fn, name)] = (False, False)
        for fn, m in self.mods.items():
            for name, fns in m.defs.items():
                self.may[(fn, name)] = False
        changed = True
        while changed:
            changed = False
            for fn, m in self.mods.items():
                for name, fns in m.defs.items():
                    if self.may[(fn, name)] or name == "__init__":
                        continue
                    hit = False
                    for f in fns:
                        for n in ast.walk(f):
                            if isinstance(n, ast.Call):
                                try:
                                    r = self.resolve(fn, n)
                                except Unsupported:
                                    r = None
                                if r is None:
                                    continue
                                if r[0] == "prim" or self.may.get((r[1], r[2]), False):
                                    hit = True
                    if hit:
                        self.may[(fn, name)] = True
                        changed = True
        # callee classification, least fixpoint:  (file, name) -> (consuming, raising)
        self.cls = {}
        for fn, m in self.mods.items():
            for name in m.defs:
                self.cls[(fn, name)] = (False, False)
        changed = True
        rounds = 0
        while changed:
            changed = False
            rounds += 1
            if rounds > 50:
                raise Unsupported("callee classification does not stabilise")
            for fn, m in self.mods.items():
                for name, fns in m.defs.items():
                    if name == "__init__":
                        continue
                    cons, rais = True, True
                    for f in fns:
                        c, r = self.classify_function(fn, f)
                        cons, rais = cons and c, rais and r
                    if (cons, rais) != self.cls[(fn, name)]:
                        self.cls[(fn, name)] = (cons, rais)
                        changed = True

    # ---- call resolution -------------------------------------------------------------------
    def resolve(self, fn, call):
        """-> None (external, ignored) | ("prim", name) | ("callee", file, name)"""
        r = self.resolve0(fn, call)
        if r is not None and r[0] == "callee" and (r[1], r[2]) in NON_READER_FUNCS:
            return None
        return r

    def resolve0(self, fn, call):
        f = call.func
        if isinstance(f, ast.Name):
            if f.id in PRIMS:
                raise Unsupported("%s: primitive %s called as a bare name" % (fn, f.id))
            if f.id in self.mods[fn].defs:
                return ("callee", fn, f.id)
            return None
        if not isinstance(f, ast.Attribute):
            return None
        name = f.attr
        if name in PRIMS:
            return ("prim", name)
        if name == "__next__":
            return ("callee", "tokenizer.py", "__next__")
        if name == "__init__":
            return None
        recv = f.value
        rname = recv.id if isinstance(recv, ast.Name) else (recv.attr if isinstance(recv, ast.Attribute) else None)
        if rname == "self":
            for cand in [fn] + FALLBACK.get(fn, []):
                if name in self.mods[cand].defs:
                    return ("callee", cand, name)
            return None
        if rname in RECEIVER_MODULE:
            cand = RECEIVER_MODULE[rname]
            if name in self.mods[cand].defs:
                return ("callee", cand, name)
            return None
        if rname in TOKENIZER_RECEIVERS:
            for cand in ("nexusprocessing.py", "tokenizer.py"):
                if name in self.mods[cand].defs:
                    return ("callee", cand, name)
            return None
        # unknown receiver: a method name defined in exactly one analysed module is taken to be it
        hits = [c for c in FILES if name in self.mods[c].defs]
        if len(hits) == 1:
            return ("callee", hits[0], name)
        if len(hits) > 1:
            raise Unsupported("%s:%d: call of %s on an unknown receiver is ambiguous (%s)"
                              % (fn, call.lineno, name, hits))
        return None

    # ---- expressions ---------------------------------------------------------------------
    def calls_in_order(self, e, must=True):
        """yield (call, must_execute) for the Call nodes of an expression"""
        if e is None:
            return
        if isinstance(e, (ast.Lambda, ast.ListComp, ast.SetComp, ast.DictComp, ast.GeneratorExp)):
            for c in ast.walk(e):
                if isinstance(c, ast.Call):
                    r = None
                    try:
                        r = self.resolve(self.cur_file, c)
                    except Unsupported:
                        raise
                    if r is not None:
                        raise Unsupported("%s:%d: fetch or reader callee inside a lambda/comprehension"
                                          % (self.cur_file, c.lineno))
            return
        if isinstance(e, ast.BoolOp):
            for i, v in enumerate(e.values):
                for x in self.calls_in_order(v, must and i == 0):
                    yield x
            return
        if isinstance(e, ast.IfExp):
            for x in self.calls_in_order(e.test, must):
                yield x
            for x in self.calls_in_order(e.body, False):
                yield x
            for x in self.calls_in_order(e.orelse, False):
                yield x
            return
        if isinstance(e, ast.Call):
            for x in self.calls_in_order(e.func, must):
                yield x
            for a in e.args:
                for x in self.calls_in_order(a, must):
                    yield x
            for k in e.keywords:
                for x in self.calls_in_order(k.value, must):
                    yield x
            yield (e, must)
            return
        if isinstance(e, ast.Attribute):
            if e.attr in PRIMS and not getattr(e, "_dv_called", False):
                raise Unsupported("%s:%d: tokenizer primitive %s referenced without being called (alias?)"
                                  % (self.cur_file, e.lineno, e.attr))
            for x in self.calls_in_order(e.value, must):
                yield x
            return
        for ch in ast.iter_child_nodes(e):
            if isinstance(ch, ast.expr):
                for x in self.calls_in_order(ch, must):
                    yield x

    def mark_called(self, root):
        for n in ast.walk(root):
            if isinstance(n, ast.Call) and isinstance(n.func, ast.Attribute):
                n.func._dv_called = True

    def ev(self, e, st, fetch_log=None):
        """effect of evaluating expression e"""
        for call, must in self.calls_in_order(e):
            r = self.resolve(self.cur_file, call)
            if r is None:
                continue
            if r[0] == "prim":
                kind, req = PRIMS[r[1]]
                if fetch_log is not None:
                    fetch_log.append((call.lineno, call.col_offset, kind))
                if must:
                    st = st_fetch(st, req)
            else:
                cons, rais = self.cls[(r[1], r[2])]
                if fetch_log is not None and self.may.get((r[1], r[2]), False):
                    fetch_log.append((call.lineno, call.col_offset,
                                      '(FCallee "%s" %s %s)' % (r[2], cb(cons), cb(rais))))
                if must and cons:
                    st = st_fetch(st, rais)
                st = st_forget(st)
        return st

    # ---- tests ---------------------------------------------------------------------------
    @staticmethod
    def is_state_eof_atom(a):
        # <x>.is_eof()
        if isinstance(a, ast.Call) and isinstance(a.func, ast.Attribute) and a.func.attr == "is_eof" and not a.args:
            return True
        # self._cur_char == ""
        if (isinstance(a, ast.Compare) and len(a.ops) == 1 and isinstance(a.ops[0], ast.Eq)
                and isinstance(a.left, ast.Attribute) and a.left.attr == "_cur_char"
                and isinstance(a.comparators[0], ast.Constant) and a.comparators[0].value == ""):
            return True
        # not <x>.current_token      /  <x>.current_token is None
        if isinstance(a, ast.UnaryOp) and isinstance(a.op, ast.Not) and isinstance(a.operand, ast.Attribute) \
                and a.operand.attr == "current_token":
            return True
        if (isinstance(a, ast.Compare) and len(a.ops) == 1 and isinstance(a.ops[0], (ast.Is, ast.Eq))
                and isinstance(a.left, ast.Attribute) and a.left.attr == "current_token"
                and isinstance(a.comparators[0], ast.Constant) and a.comparators[0].value is None):
            return True
        return False

    @staticmethod
    def falsy_var_atom(a):
        """name of the variable v if the atom is `not v` / `v is None` / `v == None` / `v != "<str>"`
        (every one of them is true when v is None)"""
        if isinstance(a, ast.UnaryOp) and isinstance(a.op, ast.Not) and isinstance(a.operand, ast.Name):
            return a.operand.id
        if (isinstance(a, ast.Compare) and len(a.ops) == 1 and isinstance(a.ops[0], ast.NotEq)
                and isinstance(a.left, ast.Name)
                and isinstance(a.comparators[0], ast.Constant) and isinstance(a.comparators[0].value, str)):
            return a.left.id
        if (isinstance(a, ast.Compare) and len(a.ops) == 1 and isinstance(a.ops[0], (ast.Is, ast.Eq))
                and isinstance(a.left, ast.Name)
                and isinstance(a.comparators[0], ast.Constant) and a.comparators[0].value is None):
            return a.left.id
        return None

    @staticmethod
    def disjuncts(t):
        if isinstance(t, ast.BoolOp) and isinstance(t.op, ast.Or):
            out = []
            for v in t.values:
                out.extend(Analysis.disjuncts(v))
            return out
        return [t]

    def test_true_at_eof(self, test, st):
        """the `if` test is certainly true when the stream is exhausted (see module docstring)"""
        for a in self.disjuncts(test):
            if self.is_state_eof_atom(a):
                return True
            v = self.falsy_var_atom(a)
            if v is not None and v in st[3]:
                return True
        return False

    # ---- statements -----------------------------------------------------------------------
    def run(self, stmts, states, log=None):
        """-> (fall_states, exits) ; exits = set of (kind, state), kind in break/continue/return/raise"""
        exits = set()
        cur = set(states)
        for s in stmts:
            if not cur:
                break
            cur, ex = self.stmt(s, cur, log)
            exits |= ex
        return cur, exits

    def stmt(self, s, states, log):
        self.mark_called(s) if not getattr(s, "_dv_marked", False) else None
        s._dv_marked = True
        if isinstance(s, ast.Expr):
            if isinstance(s.value, (ast.Yield, ast.YieldFrom)):
                v = s.value.value
                return {self.ev(v, st, log) for st in states}, set()
            return {self.ev(s.value, st, log) for st in states}, set()
        if isinstance(s, (ast.Assign, ast.AugAssign, ast.AnnAssign)):
            value = s.value
            if isinstance(value, (ast.Yield, ast.YieldFrom)):
                value = value.value
            targets = s.targets if isinstance(s, ast.Assign) else [s.target]
            out = set()
            direct_prim = None
            if isinstance(value, ast.Call):
                r = self.resolve(self.cur_file, value)
                if r is not None and r[0] == "prim" and r[1] in NONE_AT_EOF:
                    direct_prim = r[1]
            first = True
            for st in states:
                st2 = self.ev(value, st, log if first else None)
                first = False
                for t in targets:
                    for x in self.calls_in_order(t):
                        if self.resolve(self.cur_file, x[0]) is not None:
                            raise Unsupported("%s:%d: fetch in an assignment target" % (self.cur_file, s.lineno))
                    if isinstance(t, ast.Name):
                        st2 = st_setvar(st2, t.id, direct_prim is not None and isinstance(s, ast.Assign))
                    elif isinstance(t, (ast.Tuple, ast.List)):
                        for el in t.elts:
                            if isinstance(el, ast.Name):
                                st2 = st_setvar(st2, el.id, False)
                out.add(st2)
            return out, set()
        if isinstance(s, ast.If):
            fall = set()
            exits = set()
            first = True
            for st in states:
                st1 = self.ev(s.test, st, log if first else None)
                b_fall, b_ex = self.run(s.body, {st1}, log if first else None)
                o_fall, o_ex = self.run(s.orelse, {st1}, log if first else None)
                first = False
                if not b_fall and self.test_true_at_eof(s.test, st1):
                    # the true branch always leaves; whoever continues has passed an EOF check
                    o_fall = {st_checked(x) for x in o_fall}
                    o_ex = {(k, st_checked(x)) for k, x in o_ex}
                fall |= b_fall | o_fall
                exits |= b_ex | o_ex
            return fall, exits
        if isinstance(s, (ast.While, ast.For)):
            if s.orelse:
                raise Unsupported("%s:%d: loop with else clause" % (self.cur_file, s.lineno))
            fall = set()
            exits = set()
            first = True
            const_true = self.loop_is_infinite(s)
            for st in states:
                st1 = self.ev(s.test if isinstance(s, ast.While) else s.iter, st, log if first else None)
                b_fall, b_ex = self.run(s.body, {st_forget(st1)}, log if first else None)
                first = False
                if not const_true:
                    fall.add(st_forget(st1))
                    fall |= {st_forget(x) for x in b_fall}
                for k, x in b_ex:
                    if k == "break":
                        fall.add(st_forget(x))
                    elif k == "continue":
                        if not const_true:
                            fall.add(st_forget(x))
                    else:
                        exits.add((k, x))
            return fall, exits
        if isinstance(s, ast.Try):
            if s.finalbody:
                raise Unsupported("%s:%d: try/finally" % (self.cur_file, s.lineno))
            fall, exits = self.run(s.body, states, log)
            if s.orelse:
                fall, ex2 = self.run(s.orelse, fall, log)
                exits |= ex2
            for h in s.handlers:
                # an exception may leave the body before any of its fetches: handlers start from
                # the states before the try (a lower bound for every must-fact)
                h_fall, h_ex = self.run(h.body, {st_forget(x) for x in states}, log)
                fall |= h_fall
                exits |= h_ex
            return fall, exits
        if isinstance(s, ast.With):
            for it in s.items:
                states = {self.ev(it.context_expr, st, log) for st in states}
            return self.run(s.body, states, log)
        if isinstance(s, ast.Return):
            return set(), {("return", self.ev(s.value, st, log)) for st in states}
        if isinstance(s, ast.Raise):
            return set(), {("raise", self.ev(s.exc, st, log)) for st in states}
        if isinstance(s, ast.Break):
            return set(), {("break", st) for st in states}
        if isinstance(s, ast.Continue):
            return set(), {("continue", st) for st in states}
        if isinstance(s, ast.Assert):
            return {self.ev(s.test, st, log) for st in states}, set()
        if isinstance(s, ast.Delete):
            return set(states), set()
        if isinstance(s, (ast.Pass, ast.Import, ast.ImportFrom, ast.Global, ast.Nonlocal)):
            return set(states), set()
        raise Unsupported("%s:%d: statement %s" % (self.cur_file, s.lineno, type(s).__name__))

    @staticmethod
    def loop_is_infinite(s):
        if isinstance(s, ast.While):
            return isinstance(s.test, ast.Constant) and s.test.value is True
        it = s.iter
        return (isinstance(it, ast.Call) and not it.args
                and ((isinstance(it.func, ast.Attribute) and it.func.attr == "count"
                      and isinstance(it.func.value, ast.Name) and it.func.value.id in ("it", "itertools"))))

    def classify_function(self, fn, f):
        self.cur_file = fn
        fall, exits = self.run(f.body, {INIT})
        ends = set(fall) | {st for k, st in exits if k == "return"}
        if not ends:
            return True, True       # never returns normally
        return all(st[0] for st in ends), all(st[1] for st in ends)

    # ---- guards ---------------------------------------------------------------------------
    def conjuncts(self, t, neg=False):
        """top-level conjuncts of the guard as (atom, negated) - de Morgan through `not (a or b)`"""
        if isinstance(t, ast.UnaryOp) and isinstance(t.op, ast.Not):
            return self.conjuncts(t.operand, not neg)
        if isinstance(t, ast.BoolOp):
            is_and = isinstance(t.op, ast.And)
            if is_and != neg:       # and (positive)  /  not (.. or ..)
                out = []
                for v in t.values:
                    out.extend(self.conjuncts(v, neg))
                return out
            return [(t, neg)]       # a disjunction: opaque
        return [(t, neg)]

    def guard_facts(self, loop, body_back_states):
        """-> dict(guard_true, tests_none (var), tests_eof, tests_cur_char)"""
        g = {"true": self.loop_is_infinite(loop), "none_var": None, "eof": False, "cur": False}
        if isinstance(loop, ast.For):
            return g
        for call, _m in self.calls_in_order(loop.test):
            r = self.resolve(self.cur_file, call)
            if r is not None and (r[0] == "prim" or self.cls[(r[1], r[2])][0]):
                raise Unsupported("%s:%d: fetch inside a loop guard" % (self.cur_file, loop.lineno))
        for a, neg in self.conjuncts(loop.test):
            # loop continues only if (a xor neg); so the loop is LEFT when ...
            if isinstance(a, ast.Call) and isinstance(a.func, ast.Attribute) and a.func.attr == "is_eof" and neg:
                g["eof"] = True
            if isinstance(a, ast.Compare) and len(a.ops) == 1:
                l, op, r = a.left, a.ops[0], a.comparators[0]
                isnone = isinstance(r, ast.Constant) and r.value is None
                isempty = isinstance(r, ast.Constant) and r.value == ""
                if isinstance(l, ast.Name) and isnone:
                    if (isinstance(op, (ast.NotEq, ast.IsNot)) and not neg) or (isinstance(op, (ast.Eq, ast.Is)) and neg):
                        g["none_var"] = l.id
                if isinstance(l, ast.Attribute) and l.attr == "_cur_char" and isempty:
                    if (isinstance(op, ast.NotEq) and not neg) or (isinstance(op, ast.Eq) and neg):
                        g["cur"] = True
        return g

    # ---- per loop ---------------------------------------------------------------------------
    def loops(self):
        recs = []
        excluded = []
        notes = []
        for fn in FILES:
            m = self.mods[fn]
            self.cur_file = fn
            for name, fns in m.defs.items():
                for f in fns:
                    idx = 0
                    for node in self.own_nodes(f):
                        if isinstance(node, ast.For) and not self.loop_is_infinite(node):
                            notes.append("%s %s:%d  for .. in %s" % (fn, m.qual[id(f)], node.lineno,
                                                                   ccomment(ast.unparse(node.iter))[:60]))
                            continue
                        if not isinstance(node, (ast.While, ast.For)):
                            continue
                        idx += 1
                        if (fn, name) in NON_READER_FUNCS:
                            excluded.append((fn, m.qual[id(f)], node.lineno))
                            continue
                        recs.append(self.loop_record(fn, m.qual[id(f)], f, node, idx))
        recs.sort(key=lambda r: (FILES.index(r["file"]), r["line"]))
        return recs, excluded, notes

    @staticmethod
    def own_nodes(f):
        """nodes of f in source order, not descending into nested function definitions"""
        out = []

        def walk(n):
            for ch in ast.iter_child_nodes(n):
                if isinstance(ch, (ast.FunctionDef, ast.AsyncFunctionDef, ast.ClassDef)):
                    raise Unsupported("nested definition in %s" % f.name)
                out.append(ch)
                walk(ch)
        walk(f)
        return out

    def loop_record(self, fn, qual, f, loop, idx):
        self.cur_file = fn
        self.mark_called(f)
        log = []
        fall, exits = self.run(loop.body, {INIT}, log)
        back = set(fall) | {st for k, st in exits if k == "continue"}
        g = self.guard_facts(loop, back)
        # guard variable re-fetched: on every back-edge path the None-tested variable holds the
        # result of a None-at-EOF primitive
        refetched = g["none_var"] is not None and all(g["none_var"] in st[3] for st in back) and bool(back)
        seen = set()
        fetches = []
        for ln, col, kind in sorted(log):
            if (ln, col) in seen:
                continue
            seen.add((ln, col))
            fetches.append(kind)
        digest = hashlib.sha1(ast.dump(loop, include_attributes=False).encode()).hexdigest()[:12]
        return {
            "file": fn, "func": qual, "line": loop.lineno, "index": idx, "digest": digest,
            "for_count": isinstance(loop, ast.For),
            "guard_true": g["true"], "guard_tests_none": g["none_var"] is not None,
            "guard_none_var_refetched": refetched,
            "guard_tests_eof": g["eof"], "guard_tests_cur_char": g["cur"],
            "fetches": fetches or ["FNone"],
            "every_path_fetches": all(st[0] for st in back),
            "every_path_requires": all(st[1] for st in back),
            "every_path_eof_checked": all(st[1] or st[2] for st in back),
            "has_unconditional_exit": not back,
            "guard_src": (ast.unparse(loop.test) if isinstance(loop, ast.While) else "for .. in " + ast.unparse(loop.iter)),
        }

    def recursions(self):
        out = []
        for fn in FILES:
            m = self.mods[fn]
            self.cur_file = fn
            for name, fns in m.defs.items():
                for f in fns:
                    for n in ast.walk(f):
                        if isinstance(n, ast.Call):
                            r = None
                            try:
                                r = self.resolve(fn, n)
                            except Unsupported:
                                r = None
                            if r and r[0] == "callee" and r[1] == fn and r[2] == name and name != "__init__":
                                out.append((fn, m.qual[id(f)], n.lineno))
        return sorted(set(out))


def ccomment(t):
    """text safe inside a Coq comment (Coq lexes strings and nested comments inside comments)"""
    return t.replace("\n", " ").replace('"', "'").replace("(*", "( *").replace("*)", "* )")


def cb(b):
    return "true" if b else "false"


def cs(s):
    return '"%s"' % s.replace('"', '""')


HEADER = '''(* GENERATED by py/dv/gen_readerloops.py from dataio/{tokenizer,nexusprocessing,newickreader,
   nexusreader,nexusyielder,newickyielder}.py -- do not edit.  One record per reader loop; see the generator's
   docstring for the meaning of every field. *)
From Coq Require Import ZArith List String Bool.
Import ListNotations.
Open Scope string_scope.
Open Scope Z_scope.

Inductive fetch_kind : Type :=
| FNextToken | FRequireNextToken | FNextTokenUcase | FRequireNextTokenUcase
| FSkipToSemicolon | FGetNextChar
| FCallee (name : string) (consuming : bool) (raising_at_eof : bool)
| FNone.

Record loop : Type := mkLoop {
  l_file : string; l_func : string; l_line : Z;
  l_index : Z;                      (* ordinal of the loop inside its function *)
  l_digest : string;                (* sha1 prefix of the loop's AST (no positions) *)
  l_for_count : bool;               (* `for .. in itertools.count()` *)
  guard_true : bool;                (* while True / for count *)
  guard_tests_none : bool;          (* a conjunct leaves the loop when the token variable is None *)
  guard_none_var_refetched : bool;  (* .. and on every back-edge path that variable holds a fetch result *)
  guard_tests_eof : bool;           (* a conjunct `not <tokenizer>.is_eof()` *)
  guard_tests_cur_char : bool;      (* a conjunct `self._cur_char != ""` *)
  fetches : list fetch_kind;        (* syntactic, in source order; [FNone] if none *)
  every_path_fetches : bool;
  every_path_requires : bool;
  every_path_eof_checked : bool;
  has_unconditional_exit : bool
}.
'''


def generate(repo):
    a = Analysis(repo)
    recs, excluded, notes = a.loops()
    out = [HEADER]
    names = []
    for r in recs:
        nm = "loop_%s_%d" % (r["file"].replace(".py", ""), r["line"])
        names.append(nm)
        out.append("(* %s:%d  %s   guard: %s *)" % (r["file"], r["line"], r["func"],
                                                   ccomment(r["guard_src"])[:150]))
        out.append("Definition %s : loop := mkLoop %s %s %d %d %s %s %s %s %s %s %s\n  [%s]\n  %s %s %s %s.\n" % (
            nm, cs(r["file"]), cs(r["func"]), r["line"], r["index"], cs(r["digest"]), cb(r["for_count"]),
            cb(r["guard_true"]), cb(r["guard_tests_none"]), cb(r["guard_none_var_refetched"]),
            cb(r["guard_tests_eof"]), cb(r["guard_tests_cur_char"]),
            "; ".join(r["fetches"]),
            cb(r["every_path_fetches"]), cb(r["every_path_requires"]), cb(r["every_path_eof_checked"]),
            cb(r["has_unconditional_exit"])))
    out.append("Definition reader_loops : list loop :=\n  [%s].\n" % ";\n   ".join(names))
    out.append("(* `while` loops inside non-reader helper functions (never touch a tokenizer): file, function, line *)")
    out.append("Definition excluded_loops : list (string * string * Z) :=\n  [%s].\n" % "; ".join(
        "(%s, %s, %d)" % (cs(f), cs(q), ln) for f, q, ln in excluded))
    out.append("(* functions of the analysed modules that (transitively) call a fetch primitive: (file, name, fetches on every normal-return path,\n"
               "   executes a require_* fetch on every normal-return path) *)")
    rows = []
    for (fn, name), (c, r) in sorted(a.cls.items()):
        if name == "__init__" or not a.may.get((fn, name), False):
            continue
        rows.append("(%s, %s, %s, %s)" % (cs(fn), cs(name), cb(c), cb(r)))
    out.append("Definition reader_functions : list (string * string * bool * bool) :=\n  [%s].\n" % ";\n   ".join(rows))
    out.append("(* direct self-recursion in the analysed modules: file, function, line of the call *)")
    out.append("Definition reader_recursions : list (string * string * Z) :=\n  [%s].\n" % "; ".join(
        "(%s, %s, %d)" % (cs(f), cs(q), ln) for f, q, ln in a.recursions()))
    out.append("(* excluded: `for` loops over finite iterables (terminate with the iterable):")
    for n in notes:
        out.append("     " + n)
    out.append("*)")
    return "\n".join(out) + "\n"


if __name__ == "__main__":
    import sys
    print(generate(sys.argv[1] if len(sys.argv) > 1 else "/repo"))
