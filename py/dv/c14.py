"""C14 - path distances and common ancestors are exact, and NJ/UPGMA invert them.

Three kinds of cases on spec trees of dv.trees (edge lengths = integers in units of 2**-10, so every
sum the library forms is exact in binary64):

  pdm   tree.phylogenetic_distance_matrix() / PhylogeneticDistanceMatrix.from_tree /
        treemeasure.PatristicDistanceMatrix: the three raw dictionaries over all pairs, tree length,
        edge count, mapped taxa, number of distinct pairs, distance()/patristic_distance()/
        path_edge_count() with both normalisations, mean_pairwise_distance and
        mean_nearest_taxon_distance under filters and options
  mrca  a short history of Tree.mrca(taxa= | taxon_labels= | leafset_bitmask=, start_node=,
        is_bipartitions_updated=) and treemeasure.patristic_distance calls on a tree whose stored
        encoding is absent, current or stale; result, tree, rooting flag and stored bitmasks after
        every call
  clu   pdm.nj_tree() / pdm.upgma_tree() on matrices of random additive / ultrametric / arbitrary
        trees (weighted and unweighted), on matrices written to CSV and read back (plain and
        normalised), and on arbitrary symmetric matrices given as CSV text; the iteration order of
        the set `_mapped_taxa` (hashed by id()) is read before the call and handed to the model

The model (coq/Model/C14Model.v) is evaluated on the same input inside coqc; `case_ok` compares.
The oracle recomputes distances / steps / common ancestors by explicit path walks, the summaries from
their definitions with exact fractions, the deepest covering node by brute force, and compares NJ /
UPGMA outputs with the generating tree (unrooted splits / rooted clades with lengths).
"""
import io
import random
import warnings
from fractions import Fraction

from dv import core, trees
from dv.core import cz, cbool, clist, copt, cpair, cq

HEADER = ("From DV Require Import Model.PyPrims Model.Tree Model.C14Model.\n"
          "From Coq Require Import ZArith QArith. Open Scope Z_scope.")

UNIT = trees.UNIT
FUNIT = Fraction(UNIT)

KEY_TAXONLESS = "tree-mrca-beside-taxonless-leaf"
KEY_CSV_DELIM = "write-csv-ignores-delimiter"
KEY_CSV_REWRITE = "write-csv-of-matrix-read-from-csv"
KEY_CSV_PAIRS = "matrix-read-from-csv-has-no-distinct-pairs"


# ----------------------------------------------------------------------------------------------
# small helpers
# ----------------------------------------------------------------------------------------------

def fr(x):
    """float/int -> exact Fraction"""
    return Fraction(x)


def fr_json(f):
    return [f.numerator, f.denominator]


def fr_of(j):
    return Fraction(j[0], j[1])


def units(x):
    """float distance -> integer units (exact) ; raises when not a multiple of the unit"""
    f = Fraction(x) / FUNIT
    if f.denominator != 1:
        raise ValueError("distance %r is not a multiple of the dyadic unit" % (x,))
    return int(f)


def res_call(f):
    """-> ["Ok", value] | ["Err", enum]"""
    try:
        with warnings.catch_warnings():
            warnings.simplefilter("ignore")
            return ["Ok", f()]
    except Exception as e:
        return ["Err", core.exc_enum(e)]


def c_res(r, f):
    if r[0] == "Ok":
        return "(Ok %s)" % f(r[1])
    return "(Err %s)" % r[1]


def c_q(j):
    return cq(fr_of(j))


def zl(l):
    return clist([cz(x) for x in l])


def spec_parents(t):
    par = {}
    nodes = {}

    def walk(n, p):
        nodes[n["id"]] = n
        par[n["id"]] = p
        for k in n["kids"]:
            walk(k, n["id"])
    walk(t, None)
    return nodes, par


def leaf_taxa_below(n):
    if not n["kids"]:
        return [n["taxon"]]
    out = []
    for k in n["kids"]:
        out.extend(leaf_taxa_below(k))
    return out


# ----------------------------------------------------------------------------------------------
# pdm cases
# ----------------------------------------------------------------------------------------------

def gen_size(rng, tier):
    r = rng.random()
    if r < 0.08:
        return rng.choice([1, 2, 2, 3])
    if r < 0.75:
        return rng.randint(2, 12)
    return rng.randint(13, 30)


def gen_pdm_case(rng, tier):
    n = gen_size(rng, tier)
    lengths = rng.choice(["dyadic", "dyadic", "mixed", "mixed", "none", "int", "positive"])
    unif = rng.choice([0.0, 0.0, 0.15, 0.3])
    t = trees.gen_tree(rng, n, lengths=lengths, unifurcations=unif)
    lv = trees.leaves(t)
    if rng.random() < 0.04:
        rng.choice(lv)["taxon"] = None          # assert desc1.taxon is not None
    taxa = [x["taxon"] for x in lv if x["taxon"] is not None]
    ctor = rng.choice(["method", "method", "from_tree", "legacy"])
    acc = []
    if taxa:
        for _ in range(rng.randint(2, 6)):
            acc.append([rng.choice(taxa), rng.choice(taxa), rng.random() < 0.5, rng.random() < 0.5])
    means = []
    for _ in range(rng.randint(3, 6)):
        r = rng.random()
        if r < 0.35 or not taxa:
            filt = None
        elif r < 0.5:
            filt = sorted(rng.sample(taxa, min(len(taxa), rng.choice([0, 1, 2]))))
        else:
            filt = sorted(rng.sample(taxa, rng.randint(1, len(taxa))))
        means.append([rng.choice(["MPD", "MNTD"]), filt, rng.random() < 0.6, rng.random() < 0.4])
    return {"kind": "pdm", "tree": t, "ctor": ctor, "acc": acc, "means": means,
            "rooted": rng.choice([True, False, None])}


def make_pdm(tree, ctor):
    import dendropy
    from dendropy.calculate import treemeasure
    with warnings.catch_warnings():
        warnings.simplefilter("ignore")
        if ctor == "method":
            return tree.phylogenetic_distance_matrix()
        if ctor == "from_tree":
            return dendropy.PhylogeneticDistanceMatrix.from_tree(tree)
        return treemeasure.PatristicDistanceMatrix(tree)


def observe_pdm(case):
    t = case["tree"]
    ntax = max([x["taxon"] for x in trees.leaves(t) if x["taxon"] is not None] + [0]) + 1
    ns, objs = trees.make_namespace(ntax)
    tree, by_id = trees.build_dendropy(t, objs, is_rooted=case["rooted"], namespace=ns)
    tix = {id(o): i for i, o in enumerate(objs)}
    try:
        pdm = make_pdm(tree, case["ctor"])
    except Exception as e:
        return ["Err", core.exc_enum(e)]
    return ["Ok", snapshot(pdm, objs, tix, case["acc"], case["means"])]


def snapshot(pdm, objs, tix, acc_q, means_q, full=True):
    """the tables of the matrix object and the answers to the queries, as the object is now"""
    taxa = sorted(tix[id(x)] for x in pdm._mapped_taxa)
    tobj = lambda i: objs[i]

    def table(d, conv):
        rows = []
        for a in taxa:
            row = []
            for b in taxa:
                try:
                    row.append(conv(d[tobj(a)][tobj(b)]))
                except KeyError:
                    row.append(-1)
            rows.append(row)
        return rows
    obs = {
        "taxa": taxa,
        "tree_length": units(pdm._tree_length) if full else -1,
        "num_edges": pdm._num_edges if full else -1,
        "dist": table(pdm._taxon_phylogenetic_distances, units),
        "steps": table(pdm._taxon_phylogenetic_path_steps, int),
        "mrca": table(pdm._mrca, lambda nd: nd._dv_id),
        "npairs": len(pdm._all_distinct_mapped_taxa_pairs),
    }
    # the accessors agree with each other (checked here, the model has one `distance`)
    acc = []
    for a, b, w, nrm in acc_q:
        ta, tb = tobj(a), tobj(b)
        r = res_call(lambda: pdm.distance(ta, tb, is_weighted_edge_distances=w, is_normalize_by_tree_size=nrm))
        if w:
            r2 = res_call(lambda: pdm.patristic_distance(ta, tb, is_normalize_by_tree_size=nrm))
        else:
            r2 = res_call(lambda: pdm.path_edge_count(ta, tb, is_normalize_by_tree_size=nrm))
        if r != r2:
            raise RuntimeError("distance() and its delegate disagree: %r %r" % (r, r2))
        if w and not nrm and r != res_call(lambda: pdm(ta, tb)):
            raise RuntimeError("__call__ and patristic_distance disagree")
        if r[0] == "Ok":
            r = ["Ok", fr_json(fr(r[1]))]
        acc.append([a, b, w, nrm, r])
    obs["acc"] = acc
    means = []
    for kind, filt, w, nrm in means_q:
        ff = None
        if filt is not None:
            fs = set(id(tobj(i)) for i in filt)
            ff = lambda x, fs=fs: id(x) in fs
        if kind == "MPD":
            r = res_call(lambda: pdm.mean_pairwise_distance(filter_fn=ff, is_weighted_edge_distances=w, is_normalize_by_tree_size=nrm))
        else:
            r = res_call(lambda: pdm.mean_nearest_taxon_distance(filter_fn=ff, is_weighted_edge_distances=w, is_normalize_by_tree_size=nrm))
        if r[0] == "Ok":
            r = ["Ok", fr_json(fr(r[1]))]
        means.append([kind, filt, w, nrm, r])
    obs["means"] = means
    # seen by the oracle only
    obs["distances_list"] = res_call(lambda: sorted(units(x) for x in pdm.distances()))
    obs["sum_of_distances"] = res_call(lambda: units(pdm.sum_of_distances()))
    return obs


def path_walk(t):
    """independent: for every pair of taxon-bearing leaves: (sum of lengths, edges, turning node)"""
    nodes, par = spec_parents(t)
    lv = [x for x in trees.leaves(t) if x["taxon"] is not None]

    def up(i):
        out = [i]
        while par[out[-1]] is not None:
            out.append(par[out[-1]])
        return out
    res = {}
    for a in lv:
        ua = up(a["id"])
        for b in lv:
            ub = up(b["id"])
            sb = set(ub)
            turn = next(x for x in ua if x in sb)
            d = 0
            s = 0
            for chain in (ua, ub):
                for x in chain:
                    if x == turn:
                        break
                    d += nodes[x]["len"] or 0
                    s += 1
            res[(a["taxon"], b["taxon"])] = (d, s, turn)
    return res


def close(x, y, eps):
    return abs(x - y) <= eps * (1 + abs(y))


def oracle_pdm(case, obs, mode="tree"):
    """mode: "tree" = compiled from case["tree"]; "dict" = compiled from the dict of that tree's patristic
    distances (no steps / mrca / tree size); "empty" = cleared or never compiled"""
    if mode == "empty":
        o = obs[1]
        if o["taxa"]:
            return ("an empty matrix maps taxa %s" % o["taxa"], "mapped-taxa")
        for a, b, w, nrm, r in o["acc"]:
            if a != b and r[0] == "Ok":
                return ("distance(%d,%d) on an empty matrix returned %s" % (a, b, r), "accessor")
        for kind, filt, w, nrm, r in o["means"]:
            if r[0] == "Ok":
                return ("%s on an empty matrix returned %s instead of raising" % (kind, r), "mean-null")
        return None
    t = case["tree"]
    lv = trees.leaves(t)
    if any(x["taxon"] is None for x in lv) and len(trees.preorder(t)) > 1:
        return None     # outside the domain (a leaf without a taxon): the library asserts
    if obs[0] != "Ok":
        return ("phylogenetic_distance_matrix raised %s on a tree whose leaves all carry taxa" % obs[1], "pdm-raises")
    o = obs[1]
    if len(trees.preorder(t)) == 1:
        return None     # a single node: the matrix is empty
    want = path_walk(t)
    taxa = sorted(x["taxon"] for x in lv)
    if o["taxa"] != taxa:
        return ("mapped taxa %s are not the leaf taxa %s" % (o["taxa"], taxa), "mapped-taxa")
    for i, a in enumerate(taxa):
        for j, b in enumerate(taxa):
            d, s, turn = want[(a, b)]
            if o["dist"][i][j] != d:
                key = "zero-diagonal" if a == b else "distance"
                return ("distance[%d][%d] = %s units, path walk gives %d" % (a, b, o["dist"][i][j], d), key)
            if mode == "dict":
                if o["dist"][i][j] != o["dist"][j][i]:
                    return ("matrix not symmetric at (%d,%d)" % (a, b), "symmetry")
                continue
            if o["steps"][i][j] != s:
                return ("steps[%d][%d] = %s, path walk gives %d" % (a, b, o["steps"][i][j], s), "steps")
            if o["mrca"][i][j] != turn:
                return ("mrca[%d][%d] = node %s, the path turns at node %d" % (a, b, o["mrca"][i][j], turn), "mrca-entry")
            if o["dist"][i][j] != o["dist"][j][i] or o["steps"][i][j] != o["steps"][j][i] or o["mrca"][i][j] != o["mrca"][j][i]:
                return ("matrix not symmetric at (%d,%d)" % (a, b), "symmetry")
    n = len(taxa)
    if o["npairs"] != n * (n - 1) // 2:
        return ("%d distinct pairs recorded for %d taxa" % (o["npairs"], n), "pairs-count")
    allp = sorted(want[(a, b)][0] for i, a in enumerate(taxa) for b in taxa[i + 1:])
    if o["distances_list"] != ["Ok", allp]:
        return ("distances() is not the list of the %d pairwise distances, each once" % len(allp), "pairs-once")
    if o["sum_of_distances"] != ["Ok", sum(allp)]:
        return ("sum_of_distances() = %s, expected %d units" % (o["sum_of_distances"], sum(allp)), "pairs-once")
    tl = sum((x["len"] or 0) for x in trees.preorder(t))
    ne = len(trees.preorder(t))
    for a, b, w, nrm, r in o["acc"]:
        if a not in taxa or b not in taxa:
            if a != b and r[0] == "Ok":
                return ("distance(%d,%d) returned %s, taxon not in the matrix" % (a, b, r), "accessor")
            continue
        base = Fraction(want[(a, b)][0]) * FUNIT if w else Fraction(want[(a, b)][1])
        nf = (Fraction(tl) * FUNIT if w else Fraction(ne)) if nrm else Fraction(1)
        if a == b or not nrm:
            exp = Fraction(0) if a == b else base
        elif nf == 0:
            continue
        else:
            exp = base / nf
        if r[0] != "Ok" or not close(fr_of(r[1]), exp, Fraction(1, 10 ** 12)):
            return ("distance(%d,%d,weighted=%s,normalize=%s) = %s, expected %s" % (a, b, w, nrm, r, exp), "accessor")
    for kind, filt, w, nrm, r in o["means"]:
        sel = taxa if filt is None else [x for x in taxa if x in filt]
        val = lambda a, b: (Fraction(want[(a, b)][0]) * FUNIT if w else Fraction(want[(a, b)][1]))
        nf = (Fraction(tl) * FUNIT if w else Fraction(ne)) if nrm else Fraction(1)
        if len(sel) < 2:
            if r[0] == "Ok":
                return ("%s over %d taxa returned %s instead of raising" % (kind, len(sel), r), "mean-null")
            continue
        if nf == 0:
            continue
        if kind == "MPD":
            vals = [val(a, b) for i, a in enumerate(sel) for b in sel[i + 1:]]
        else:
            vals = [min(val(a, b) for b in sel if b != a) for a in sel]
        exp = sum(vals) / nf / len(vals)
        if r[0] != "Ok" or not close(fr_of(r[1]), exp, Fraction(1, 10 ** 12)):
            return ("%s(filter=%s, weighted=%s, normalize=%s) = %s, the stated average is %s"
                    % (kind, filt, w, nrm, r, exp), "mean-%s" % kind.lower())
    return None


def c_pdm_obs(o):
    acc = clist(["(%s, %s, %s, %s, %s)" % (cz(a), cz(b), cbool(w), cbool(n), c_res(r, c_q)) for a, b, w, n, r in o["acc"]])
    means = clist(["(%s, %s, %s, %s, %s)" % (k, copt(f, zl), cbool(w), cbool(n), c_res(r, c_q)) for k, f, w, n, r in o["means"]])
    rows = lambda m: clist([zl(r) for r in m])
    return "(mkPdmObs %s %s %s %s %s %s %s %s %s)" % (
        zl(o["taxa"]), cz(o["tree_length"]), cz(o["num_edges"]), rows(o["dist"]), rows(o["steps"]),
        rows(o["mrca"]), cz(o["npairs"]), acc, means)


# ----------------------------------------------------------------------------------------------
# mrca cases
# ----------------------------------------------------------------------------------------------

def gen_mrca_case(rng, tier):
    r = rng.random()
    n = rng.choice([1, 2, 3]) if r < 0.08 else (rng.randint(2, 10) if r < 0.8 else rng.randint(11, 30))
    unif = rng.choice([0.0, 0.0, 0.2, 0.35])
    t = trees.gen_tree(rng, n, lengths=rng.choice(["dyadic", "mixed", "none", "positive"]), unifurcations=unif)
    extra = rng.choice([0, 0, 1, 3])
    holes = rng.choice([0, 0, 2])
    dup = extra > 0 and rng.random() < 0.4     # an unused member carrying the label of a used one
    rooted = rng.choice([True, True, True, False, False, None])
    state = rng.choice(["fresh", "encoded", "encoded", "stale", "stale"])
    mut = None
    if state == "stale":
        mut = {"seed": rng.randrange(10 ** 9), "kind": rng.choice(["regraft", "regraft", "swap", "newleaf"])}
    nq = rng.randint(2, 5)
    qs = []
    for _ in range(nq):
        qs.append({"seed": rng.randrange(10 ** 9)})
    if rng.random() < 0.12 and n >= 3:
        # a tree not flagged rooted with a basal bifurcation and missing lengths: the refresh collapses it
        t = trees.gen_tree(rng, n, shape="binary", lengths="mixed")
        for k in t["kids"]:
            if rng.random() < 0.5:
                k["len"] = None
        rooted = rng.choice([False, None])
        state = rng.choice(["fresh", "encoded"])
        mut = None
        qs[0]["force"] = "tm"
    return {"kind": "mrca", "tree": t, "n": n, "extra": extra, "holes": holes, "dup": dup, "rooted": rooted,
            "state": state, "mut": mut, "queries": qs, "ns_seed": rng.randrange(10 ** 9)}


def build_mrca_world(case):
    """-> tree, ns, objs (taxon index -> Taxon), foreign Taxon"""
    import dendropy
    rng = random.Random(case["ns_seed"])
    n = case["n"]
    ns, objs = trees.make_namespace(n, rng=rng, holes=case["holes"], extra=case["extra"])
    if case["dup"]:
        objs[n].label = objs[rng.randrange(n)].label
    tree, by_id = trees.build_dendropy(case["tree"], objs, is_rooted=case["rooted"], namespace=ns)
    with warnings.catch_warnings():
        warnings.simplefilter("ignore")
        if case["state"] in ("encoded", "stale"):
            tree.encode_bipartitions(suppress_unifurcations=False, collapse_unrooted_basal_bifurcation=False)
        if case["mut"]:
            mutate(tree, case["mut"], objs, n)
    foreign = dendropy.Taxon(label="foreign")
    return tree, ns, objs, foreign


def mutate(tree, mut, objs, n):
    """make the stored encoding stale"""
    import dendropy
    rng = random.Random(mut["seed"])
    nodes = list(tree.preorder_node_iter())
    if mut["kind"] == "swap":
        lv = [x for x in nodes if not x._child_nodes]
        if len(lv) >= 2:
            a, b = rng.sample(lv, 2)
            a.taxon, b.taxon = b.taxon, a.taxon
        return
    if mut["kind"] == "newleaf" and len(objs) > n:
        internal = [x for x in nodes if x._child_nodes]
        if internal:
            p = rng.choice(internal)
            ch = dendropy.Node()
            ch._dv_id = 500
            ch.taxon = objs[n]
            ch.edge.length = 1.0
            p.add_child(ch)
        return
    # (a parent left without children would be a leaf without a taxon: that class of trees is
    #  covered by the fixed probe case of probe_cases(), not by the random histories)
    cands = [x for x in nodes if x._parent_node is not None and len(x._parent_node._child_nodes) >= 2]
    if not cands:
        return
    x = rng.choice(cands)
    sub = set(id(y) for y in x.preorder_iter())
    targets = [y for y in nodes if id(y) not in sub and y._child_nodes and y is not x._parent_node]
    if not targets:
        return
    y = rng.choice(targets)
    x._parent_node.remove_child(x)
    y.add_child(x)


def read_enc(tree):
    return [[nd._dv_id, nd.edge.bipartition.leafset_bitmask] for nd in tree.preorder_node_iter()]


def ns_table(ns, objs, labels):
    return [[i, ns.accession_index(o), labels.index(o.label)] for i, o in enumerate(objs)]


_EARLY_EXIT = []


def early_exit():
    """which variant of Tree.mrca's loop the working tree has (the model is parameterised by it):
    True = the `if cm == leafset_bitmask: ... return curr_node` early exit is present"""
    if not _EARLY_EXIT:
        import dendropy
        with warnings.catch_warnings():
            warnings.simplefilter("ignore")
            t = dendropy.Tree.get(data="(X,(B,A));", schema="newick", rooting="force-rooted")
            x = t.find_node_with_taxon_label("X")
            x.taxon = None
            a, b = (t.taxon_namespace.get_taxon(l) for l in "AB")
            _EARLY_EXIT.append(t.mrca(taxa=[a, b]) is t.seed_node)
    return _EARLY_EXIT[0]


def probe_cases():
    """fixed cases run in every tier"""
    leaf = lambda i, x: {"id": i, "taxon": x, "label": None, "len": 1024, "kids": []}
    t = {"id": 0, "taxon": None, "label": None, "len": None, "kids": [
        leaf(1, None),
        {"id": 3, "taxon": None, "label": None, "len": 1024, "kids": [leaf(4, 1), leaf(2, 0)]}]}
    return [{"kind": "mrca", "tree": t, "n": 2, "extra": 0, "holes": 0, "dup": False, "rooted": True,
             "state": "fresh", "mut": None, "ns_seed": 1,
             "queries": [{"seed": 1, "fixed": ["mrca", ["taxa", [0, 1]], None, True]},
                         {"seed": 2, "fixed": ["mrca", ["taxa", [1]], None, True]}]}]


def observe_mrca(case):
    from dendropy.calculate import treemeasure
    tree, ns, objs, foreign = build_mrca_world(case)
    tix = {id(o): i for i, o in enumerate(objs)}
    tix[id(foreign)] = 900
    labels = sorted(set(o.label for o in objs)) + ["nolabel"]
    dump = lambda: trees.dump_dendropy(tree, tix)[0]
    t0 = dump()
    enc0 = read_enc(tree)
    rooted0 = tree.is_rooted
    obs = {"tree0": t0, "enc0": enc0, "rooted0": rooted0, "ns": ns_table(ns, objs, labels), "steps": []}
    n = case["n"]
    cur_tree, cur_enc, cur_rooted = t0, enc0, rooted0
    for q in case["queries"]:
        rng = random.Random(q["seed"])
        nodes = list(tree.preorder_node_iter())
        leaf_tax = [tix[id(x.taxon)] for x in nodes if not x._child_nodes and x.taxon is not None]
        pool = list(range(len(objs)))
        r = rng.random()
        kw = {}
        if q.get("fixed"):
            qd = q["fixed"]
            _, arg, start, upd = qd
            if arg[0] == "taxa":
                kw["taxa"] = [objs[i] for i in arg[1]]
            elif arg[0] == "mask":
                kw["leafset_bitmask"] = arg[1]
            if start is not None:
                kw["start_node"] = [x for x in nodes if x._dv_id == start][0]
            if not upd:
                kw["is_bipartitions_updated"] = False
            res = res_call(lambda: tree.mrca(**kw))
            if res[0] == "Ok":
                res = ["Ok", None if res[1] is None else getattr(res[1], "_dv_id", -7)]
        elif (r < 0.18 or q.get("force") == "tm") and len(leaf_tax) >= 1:
            a, b = rng.choice(leaf_tax), rng.choice(leaf_tax)
            upd = rng.random() < 0.4 and q.get("force") != "tm"
            qd = ["tm", a, b, upd]
            res = res_call(lambda: treemeasure.patristic_distance(tree, objs[a], objs[b], is_bipartitions_updated=upd))
            if res[0] == "Ok":
                res = ["Ok", units(res[1])]
        else:
            # the set of taxa
            rr = rng.random()
            if rr < 0.55 and leaf_tax:
                x = rng.choice(nodes)
                below = [tix[id(y.taxon)] for y in x.leaf_iter() if y.taxon is not None] or leaf_tax
                sel = rng.sample(below, rng.randint(1, len(below)))
            elif rr < 0.85 and leaf_tax:
                sel = rng.sample(leaf_tax, rng.randint(1, min(len(leaf_tax), 4)))
            elif rr < 0.95:
                sel = rng.sample(pool, rng.randint(0, min(len(pool), 3)))
            else:
                sel = rng.sample(pool, rng.randint(0, min(len(pool), 2))) + [900]
            if rng.random() < 0.1 and sel:
                sel = sel + [sel[0]]
            form = rng.choice(["taxa", "taxa", "labels", "mask", "mask"]) if rng.random() < 0.96 else "none"
            if form == "taxa":
                arg = ["taxa", sel]
                kw["taxa"] = [foreign if i == 900 else objs[i] for i in sel]
            elif form == "labels":
                ls = [len(labels) - 1 if i == 900 else labels.index(objs[i].label) for i in sel]
                arg = ["labels", ls]
                kw["taxon_labels"] = [labels[i] for i in ls]
            elif form == "mask":
                m = 0
                for i in sel:
                    m |= (1 << rng.randrange(12)) if i == 900 else (1 << ns.accession_index(objs[i]))
                arg = ["mask", m]
                kw["leafset_bitmask"] = m
            else:
                arg = ["none"]
            start = None
            if rng.random() < 0.3:
                sn = rng.choice(nodes)
                start = sn._dv_id
                kw["start_node"] = sn
            upd = True
            rr = rng.random()
            if rr < 0.35:
                upd = False
                kw["is_bipartitions_updated"] = False
            elif rr < 0.5:
                kw["is_bipartitions_updated"] = True
            qd = ["mrca", arg, start, upd]
            res = res_call(lambda: tree.mrca(**kw))
            if res[0] == "Ok":
                res = ["Ok", None if res[1] is None else getattr(res[1], "_dv_id", -7)]
        t1 = dump()
        enc1 = read_enc(tree)
        rooted1 = tree.is_rooted
        obs["steps"].append({
            "q": qd, "res": res,
            "tree": None if (t1 == cur_tree and rooted1 == cur_rooted) else [t1, rooted1],
            "enc": None if enc1 == cur_enc else enc1,
            "pre": [cur_tree, cur_enc, cur_rooted],
        })
        cur_tree, cur_enc, cur_rooted = t1, enc1, rooted1
    return obs


def fresh_masks(t, bit):
    """independent: leafset bitmask of every node from the namespace bits"""
    out = {}

    def walk(n):
        if not n["kids"]:
            m = 0 if n["taxon"] is None else (1 << bit[n["taxon"]])
        else:
            m = 0
            for k in n["kids"]:
                m |= walk(k)
        out[n["id"]] = m
        return m
    walk(t)
    return out


def oracle_mrca(case, obs):
    bit = {r[0]: r[1] for r in obs["ns"]}
    by_label = {}
    for r in obs["ns"]:
        by_label.setdefault(r[2], []).append(r[0])
    for st in obs["steps"]:
        q, res = st["q"], st["res"]
        pre_tree, pre_enc, pre_rooted = st["pre"]
        post_tree = st["tree"][0] if st["tree"] else pre_tree
        nodes, par = spec_parents(post_tree)
        pre_nodes, pre_par = spec_parents(pre_tree)
        lv = [x["taxon"] for x in trees.leaves(post_tree) if x["taxon"] is not None]
        if len(set(lv)) != len(lv) or any(x["taxon"] is not None and x["kids"] for x in trees.preorder(post_tree)):
            continue        # taxa repeated on leaves or sitting on internal nodes: outside the domain
        if any(x not in bit for x in lv):
            continue
        if q[0] == "tm":
            _, a, b, upd = q
            if a not in lv or b not in lv:
                continue
            if not upd or dict(pre_enc) == fresh_masks(pre_tree, bit):
                want = path_walk(pre_tree)[(a, b)][0]
                if res != ["Ok", want]:
                    return ("treemeasure.patristic_distance(%d,%d) = %s, the path between them has %d units"
                            % (a, b, res, want), "tm-patristic")
            continue
        _, arg, start, upd = q
        if arg[0] == "none":
            continue
        if arg[0] == "taxa":
            sel = arg[1]
            if any(i not in bit for i in sel) or not sel:
                continue
            S = set(sel)
        elif arg[0] == "labels":
            if any(len(by_label.get(l, [])) != 1 for l in arg[1]) or len(set(arg[1])) != len(arg[1]) or not arg[1]:
                continue
            S = set(by_label[l][0] for l in arg[1])
        else:
            if arg[1] <= 0:
                continue
            inv = {v: k for k, v in bit.items()}
            S = set()
            for i in range(arg[1].bit_length()):
                if (arg[1] >> i) & 1:
                    S.add(inv.get(i, ("bit", i)))
        sid = start if start is not None else pre_tree["id"]
        if sid not in nodes:
            continue        # the start node was removed from the tree by the refresh
        current = dict(pre_enc) == fresh_masks(pre_tree, bit)
        refreshed = (not upd) or dict(pre_enc).get(sid, 0) == 0
        if not (current or refreshed):
            continue        # stale encoding and no refresh: outside the property's proviso
        # deepest node of start's subtree (in the tree as it is after the call) whose leaves include S
        best = None

        def walk(n, depth):
            nonlocal best
            if S <= set(leaf_taxa_below(n)):
                if best is None or depth > best[0]:
                    best = (depth, n["id"])
            for k in n["kids"]:
                walk(k, depth + 1)
        walk(nodes[sid], 0)
        want = None if best is None else best[1]
        if res != ["Ok", want]:
            key = "tree-mrca-%s" % arg[0]
            if any(x["taxon"] is None for x in trees.leaves(post_tree)):
                key = KEY_TAXONLESS
            return ("Tree.mrca(%s, start_node=%s, is_bipartitions_updated=%s) returned %s; the deepest node whose "
                    "leaves include the taxa is %s" % (arg, start, upd, res, want), key)
    return None


def c_mq(q):
    if q[0] == "tm":
        return "(QTm %s %s %s)" % (cz(q[1]), cz(q[2]), cbool(q[3]))
    arg = q[1]
    if arg[0] == "taxa":
        a = "(ByTaxa %s)" % zl(arg[1])
    elif arg[0] == "labels":
        a = "(ByLabels %s)" % zl(arg[1])
    elif arg[0] == "mask":
        a = "(ByMask %s)" % cz(arg[1])
    else:
        a = "NoArg"
    return "(QMrca %s %s %s)" % (a, copt(q[2], cz), cbool(q[3]))


def c_ob(b):
    return "None" if b is None else "(Some %s)" % cbool(b)


def c_enc(e):
    return clist([cpair(cz(i), cz(m)) for i, m in e])


def c_mobs(st):
    q = st["q"]
    if q[0] == "tm":
        r = "(MRdist %s)" % c_res(st["res"], cz)
    else:
        r = "(MRnode %s)" % c_res(st["res"], lambda x: copt(x, cz))
    t = "None" if st["tree"] is None else "(Some (%s, %s))" % (trees.c_tree(st["tree"][0]), c_ob(st["tree"][1]))
    e = "None" if st["enc"] is None else "(Some %s)" % c_enc(st["enc"])
    return "(mkMobs %s %s %s)" % (r, t, e)


# ----------------------------------------------------------------------------------------------
# clustering cases
# ----------------------------------------------------------------------------------------------

def gen_additive(rng, n, pendant_zero=False):
    shape = rng.choice(["binary", "binary", "mixed", "poly", "caterpillar"])
    t = trees.gen_tree(rng, n, shape=shape, lengths="positive")
    if pendant_zero:
        for x in trees.leaves(t):
            if rng.random() < 0.3:
                x["len"] = 0
    return t


def gen_ultrametric(rng, n):
    """random binary ultrametric tree; node heights are even numbers of units"""
    t = trees.gen_tree(rng, n, shape=rng.choice(["binary", "binary", "caterpillar"]), lengths="unit")
    height = {}

    def h(nd):
        if not nd["kids"]:
            height[nd["id"]] = 0
        else:
            height[nd["id"]] = max(h(k) for k in nd["kids"]) + 2 * rng.choice([128, 256, 512, 512, 1024, 1536])
        return height[nd["id"]]
    h(t)

    def setlen(nd, parent_h):
        nd["len"] = None if parent_h is None else parent_h - height[nd["id"]]
        for k in nd["kids"]:
            setlen(k, height[nd["id"]])
    setlen(t, None)
    return t


def gen_clu_case(rng, tier):
    r = rng.random()
    n = rng.choice([1, 2, 2, 3, 3]) if r < 0.1 else (rng.randint(3, 10) if r < 0.8 else rng.randint(11, 30))
    r = rng.random()
    nj = rng.random() < 0.5
    case = {"kind": "clu", "nj": nj, "via": "tree", "weighted": True, "gen": None,
            "probe": rng.choice(["mpd", "rewrite"])}
    if r < 0.30:
        case["gen"] = "additive"
        case["tree"] = gen_additive(rng, n, pendant_zero=rng.random() < 0.25)
        case["nj"] = True if rng.random() < 0.85 else nj
    elif r < 0.55:
        case["gen"] = "ultrametric"
        case["tree"] = gen_ultrametric(rng, n)
        case["nj"] = False if rng.random() < 0.85 else nj
    elif r < 0.70:
        case["gen"] = "any"
        case["tree"] = trees.gen_tree(rng, n, lengths=rng.choice(["dyadic", "mixed", "int"]),
                                      unifurcations=rng.choice([0.0, 0.2]))
        case["weighted"] = rng.random() < 0.5
    elif r < 0.90:
        case["gen"] = rng.choice(["additive", "ultrametric"])
        case["tree"] = gen_additive(rng, n) if case["gen"] == "additive" else gen_ultrametric(rng, n)
        case["nj"] = (case["gen"] == "additive") if rng.random() < 0.8 else nj
        case["via"] = rng.choice(["csv", "csv", "csv-normalized", "csv-tab"])
    else:
        case["gen"] = "matrix"
        m = rng.randint(2, 8)
        vals = [[0] * m for _ in range(m)]
        for i in range(m):
            for j in range(i + 1, m):
                vals[i][j] = vals[j][i] = rng.choice([256, 512, 1024, 1024, 1536, 2048, 3072, 4096])
        case["matrix"] = vals
        case["via"] = "csv-text"
        case["header"] = rng.choice(["both", "both", "rows"])
    return case


def clu_sim(vals, order, nj, num):
    """reference run of the algorithm in the arithmetic `num` (float or Fraction): the join sequence.
    Only used to leave out inputs whose tie-breaks depend on binary64 rounding."""
    n = len(order)
    ids = list(range(n))
    d = {}
    for i in ids:
        for j in ids:
            if i != j:
                d[(i, j)] = num(vals[order[i]][order[j]])
    joins = []
    nxt = n
    if nj:
        xs = {}
        for i in ids:      # plain left-to-right accumulation, as the library does (builtin sum() compensates)
            acc = num(0)
            for j in ids:
                if j != i:
                    acc += d[(i, j)]
            xs[i] = acc
        pool = list(ids)
        m = n
        while m > 1:
            best = None
            for a in range(len(pool) - 1):
                for b in range(a + 1, len(pool)):
                    i, j = pool[a], pool[b]
                    q = (m - 2) * d[(i, j)] - xs[i] - xs[j]
                    if best is None or q < best[0]:
                        best = (q, i, j)
            _, i, j = best
            joins.append((i, j))
            pool.remove(i)
            pool.remove(j)
            xs[nxt] = num(0)
            for k in pool:
                dist = (d[(k, i)] + d[(k, j)] - d[(i, j)]) / 2
                d[(nxt, k)] = d[(k, nxt)] = dist
                xs[nxt] += dist
                xs[k] += dist
                xs[k] -= d[(i, k)]
                xs[k] -= d[(j, k)]
            pool.append(nxt)
            nxt += 1
            m -= 1
    else:
        size = {i: 1 for i in ids}
        pool = list(ids)
        while len(pool) > 1:
            best = None
            for a in range(len(pool) - 1):
                for b in range(a + 1, len(pool)):
                    i, j = pool[a], pool[b]
                    if best is None or d[(i, j)] < best[0]:
                        best = (d[(i, j)], i, j)
            _, i, j = best
            joins.append((i, j))
            pool.remove(i)
            pool.remove(j)
            for k in pool:
                dist = (d[(i, k)] * size[i] + d[(j, k)] * size[j]) / (size[i] + size[j])
                d[(nxt, k)] = d[(k, nxt)] = dist
            size[nxt] = size[i] + size[j]
            pool.append(nxt)
            nxt += 1
    return joins


def dump_qtree(node, tix):
    return {"taxon": None if node.taxon is None else tix[id(node.taxon)],
            "len": None if node.edge.length is None else fr_json(fr(node.edge.length)),
            "kids": [dump_qtree(c, tix) for c in node._child_nodes]}


def observe_clu(case):
    import dendropy
    obs = {"skip": None, "extra": []}
    via_csv = False
    if case["via"] == "csv-text":
        m = len(case["matrix"])
        labels = ["t%d" % i for i in range(m)]
        lines = []
        if case["header"] == "both":
            lines.append("," + ",".join(labels))
        for i in range(m):
            lines.append(labels[i] + "," + ",".join(repr(v * UNIT) for v in case["matrix"][i]))
        src = io.StringIO("\n".join(lines) + "\n")
        pdm = dendropy.PhylogeneticDistanceMatrix.from_csv(
            src, is_first_row_column_names=(case["header"] == "both"), is_first_column_row_names=True)
        objs = [pdm.taxon_namespace.get_taxon(l) for l in labels]
        via_csv = True
    else:
        t = case["tree"]
        ntax = len(trees.leaves(t))
        ns, objs = trees.make_namespace(ntax)
        tree, _ = trees.build_dendropy(t, objs, is_rooted=True, namespace=ns)
        pdm = tree.phylogenetic_distance_matrix()
        if case["via"] != "tree" and len(pdm._mapped_taxa) == len(objs):
            kw = {}
            if case["via"] == "csv":
                kw["is_normalize_by_tree_size"] = False
            if case["via"] == "csv-tab":
                kw["is_normalize_by_tree_size"] = False
                kw["delimiter"] = "\t"
            out = io.StringIO()
            try:
                pdm.write_csv(out, is_weighted_edge_distances=case["weighted"], **kw)
                out.seek(0)
                rkw = {"delimiter": "\t"} if case["via"] == "csv-tab" else {}
                pdm2 = dendropy.PhylogeneticDistanceMatrix.from_csv(out, **rkw)
            except Exception as e:
                obs["roundtrip_error"] = "%s: %s" % (type(e).__name__, e)
                obs["skip"] = "csv round trip failed"
                return obs
            new = [pdm2.taxon_namespace.get_taxon(o.label) for o in objs]
            if any(x is None for x in new) or len(pdm2._mapped_taxa) != len(pdm._mapped_taxa):
                obs["roundtrip_error"] = "taxa not recovered"
                obs["skip"] = "csv round trip failed"
                return obs
            # what else works on a matrix that was read from CSV (oracle only)
            if case["probe"] == "mpd" and len(objs) >= 2:
                obs["extra"].append([
                    "mpd",
                    res_call(lambda: fr_json(fr(pdm2.mean_pairwise_distance()))),
                    res_call(lambda: fr_json(fr(pdm.mean_pairwise_distance(
                        is_weighted_edge_distances=case["weighted"],
                        is_normalize_by_tree_size=(case["via"] == "csv-normalized")))))])
            if case["probe"] == "rewrite":
                o2 = io.StringIO()
                obs["extra"].append(["rewrite", res_call(lambda: pdm2.write_csv(o2, is_normalize_by_tree_size=False) or 0)])
            pdm, objs = pdm2, new
            via_csv = True
    tix = {id(o): i for i, o in enumerate(objs)}
    src = pdm._taxon_phylogenetic_distances if (case["weighted"] or via_csv) else pdm._taxon_phylogenetic_path_steps
    order = [tix[id(x)] for x in pdm._mapped_taxa]
    n = len(objs)
    rows = []
    for a in range(n):
        row = []
        for b in range(n):
            try:
                row.append(fr_json(fr(src[objs[a]][objs[b]])))
            except KeyError:
                row.append(None)
        rows.append(row)
    obs["order"] = order
    obs["rows"] = rows
    obs["via_csv"] = via_csv
    # tie-breaks that depend on rounding: leave out
    if n >= 2 and len(order) == n:
        vals = [[Fraction(0) if rows[a][b] is None else fr_of(rows[a][b]) for b in range(n)] for a in range(n)]
        if clu_sim(vals, order, case["nj"], float) != clu_sim(vals, order, case["nj"], Fraction):
            obs["skip"] = "tie-break depends on binary64 rounding"
            return obs
    weighted = case["weighted"] or via_csv
    if case["nj"]:
        r = res_call(lambda: pdm.nj_tree(is_weighted_edge_distances=weighted))
    else:
        r = res_call(lambda: pdm.upgma_tree(is_weighted_edge_distances=weighted))
    if r[0] == "Ok":
        tr = r[1]
        obs["rooted_flag"] = tr.is_rooted
        r = ["Ok", dump_qtree(tr.seed_node, tix)]
    obs["res"] = r
    return obs


def q_splits(qt, rooted):
    """{clade or split: length}; unrooted: splits normalised to the side without the smallest taxon,
    lengths of edges defining the same split added"""
    out = {}
    alltax = set()

    def leaves(n):
        if not n["kids"]:
            return frozenset([n["taxon"]])
        s = frozenset()
        for k in n["kids"]:
            s |= leaves(k)
        return s
    alltax = leaves(qt)
    lo = min(alltax)

    def walk(n, is_root):
        s = leaves(n)
        if not is_root:
            key = s
            if not rooted and lo in s:
                key = alltax - s
            ln = Fraction(0) if n["len"] is None else (fr_of(n["len"]) if isinstance(n["len"], list) else Fraction(n["len"]) * FUNIT)
            if key and key != alltax:
                out[key] = out.get(key, Fraction(0)) + ln
        for k in n["kids"]:
            walk(k, False)
    walk(qt, True)
    return out


def spec_as_q(t):
    return {"taxon": t["taxon"], "len": t["len"], "kids": [spec_as_q(k) for k in t["kids"]]}


def oracle_clu(case, obs):
    if obs.get("roundtrip_error"):
        if case["via"] == "csv-tab":
            return ("write_csv(delimiter='\\t') followed by from_csv(delimiter='\\t') failed: %s" % obs["roundtrip_error"], KEY_CSV_DELIM)
        return ("matrix could not be read back from CSV: %s" % obs["roundtrip_error"], "csv-roundtrip")
    for ex in obs["extra"]:
        if ex[0] == "mpd":
            if ex[1][0] != "Ok" and ex[2][0] == "Ok":
                return ("mean_pairwise_distance() of the matrix read back from CSV raised %s; on the matrix written it is %s"
                        % (ex[1][1], float(fr_of(ex[2][1]))), KEY_CSV_PAIRS)
            if ex[1][0] == "Ok" and ex[2][0] == "Ok" and not close(fr_of(ex[1][1]), fr_of(ex[2][1]), Fraction(1, 10 ** 9)):
                return ("mean_pairwise_distance() changed through CSV: %s -> %s" % (ex[2], ex[1]), "csv-mean")
        if ex[0] == "rewrite" and ex[1][0] != "Ok":
            return ("write_csv of a matrix read from CSV raised %s" % ex[1][1], KEY_CSV_REWRITE)
    if obs["skip"]:
        return None
    if case["gen"] not in ("additive", "ultrametric") or not case["weighted"]:
        return None
    r = obs["res"]
    t = case["tree"]
    n = len(trees.leaves(t))
    if n < 2:
        return None
    scale = Fraction(1)
    if case["via"] == "csv-normalized" and obs.get("via_csv"):
        scale = 1 / (Fraction(sum((x["len"] or 0) for x in trees.preorder(t))) * FUNIT)
    eps = Fraction(1, 10 ** 9)
    if case["gen"] == "additive" and case["nj"]:
        want = {k: v * scale for k, v in q_splits(spec_as_q(t), False).items()}
        if any(v <= 0 for k, v in want.items() if len(k) > 1 and len(k) < n - 1):
            return None
        if r[0] != "Ok":
            return ("nj_tree raised %s on an additive matrix" % r[1], "nj-raises")
        got = q_splits(r[1], False)
        got = {k: v for k, v in got.items() if not (1 < len(k) < n - 1 and abs(v) <= eps)}
        if set(got) != set(want):
            return ("nj_tree did not reconstruct the unrooted topology: splits %s missing, %s extra"
                    % (sorted(map(sorted, set(want) - set(got))), sorted(map(sorted, set(got) - set(want)))), "nj-topology")
        for k in want:
            if not close(got[k], want[k], eps):
                return ("nj_tree edge length for split %s is %s, the generating tree has %s" % (sorted(k), float(got[k]), float(want[k])), "nj-length")
    if case["gen"] == "ultrametric" and not case["nj"]:
        want = {k: v * scale for k, v in q_splits(spec_as_q(t), True).items()}
        if r[0] != "Ok":
            return ("upgma_tree raised %s on an ultrametric matrix" % r[1], "upgma-raises")
        got = q_splits(r[1], True)
        if set(got) != set(want):
            return ("upgma_tree did not reconstruct the rooted tree: clades %s missing, %s extra"
                    % (sorted(map(sorted, set(want) - set(got))), sorted(map(sorted, set(got) - set(want)))), "upgma-topology")
        for k in want:
            if not close(got[k], want[k], eps):
                return ("upgma_tree edge length above clade %s is %s, the generating tree has %s" % (sorted(k), float(got[k]), float(want[k])), "upgma-length")
        if obs.get("rooted_flag") is not True:
            return ("upgma_tree result is not flagged rooted", "upgma-rooted-flag")
    return None


def c_qtree(q):
    return "(QT 0 %s %s %s)" % (copt(q["taxon"], cz), copt(q["len"], c_q), clist([c_qtree(k) for k in q["kids"]]))


# ----------------------------------------------------------------------------------------------
# CSV cases (second correspondence stage; model coq/Model/C14Csv.v)
# ----------------------------------------------------------------------------------------------
HEADER_CSV = ("From DV Require Import Model.PyPrims Model.C14Model Model.C14Csv.\n"
              "From Coq Require Import ZArith QArith. Open Scope Z_scope.")

LABEL_ALPHABET = "ABCabcXYZxyz0123456789_-.# "


def gen_label(rng, used):
    while True:
        n = rng.randint(1, 6)
        s = "".join(rng.choice(LABEL_ALPHABET) for _ in range(n)).strip(" ")
        if s and s not in used:
            return s


def gen_csv_case(rng, tier):
    n = rng.choice([1, 2, 2, 3, 3, 4, 5, 6, 8])
    t = trees.gen_tree(rng, max(n, 2) if rng.random() < 0.95 else 1,
                       lengths=rng.choice(["dyadic", "positive", "mixed"]), unifurcations=rng.choice([0.0, 0.2]))
    nl = len(trees.leaves(t))
    labels = []
    for _ in range(nl):
        labels.append(gen_label(rng, labels))
    r = rng.random()
    if nl >= 2 and r < 0.08:
        labels[1] = labels[0].swapcase() if labels[0].swapcase() != labels[0] else labels[0] + "x"
    damage = rng.choice(["none"] * 6 + ["drop-cell", "bad-number", "dup-label", "spaces", "drop-row", "drop-column",
                                         "blank-line-end", "case-label"])
    return {"kind": "csv", "tree": t, "labels": labels, "delim": rng.choice([",", ",", "\t", ";", "|"]),
            "normalize": rng.random() < 0.4, "weighted": rng.random() < 0.8, "damage": damage,
            "seed": rng.randrange(10 ** 9)}


def observe_csv(case):
    import dendropy
    t = case["tree"]
    nl = len(trees.leaves(t))
    ns = dendropy.TaxonNamespace()
    objs = [ns.new_taxon(l) for l in case["labels"]]
    tree, _ = trees.build_dendropy(t, objs, is_rooted=True, namespace=ns)
    pdm = tree.phylogenetic_distance_matrix()
    tix = {id(o): i for i, o in enumerate(objs)}
    order = [tix[id(x)] for x in pdm._mapped_taxa]
    obs = {"order": order}
    out = io.StringIO()
    w = res_call(lambda: pdm.write_csv(out, is_weighted_edge_distances=case["weighted"],
                                       is_normalize_by_tree_size=case["normalize"], delimiter=case["delim"]) or 0)
    obs["write"] = w
    obs["nf_zero"] = bool(case["normalize"] and (pdm._tree_length == 0 if case["weighted"] else pdm._num_edges == 0))
    if w[0] != "Ok":
        return obs
    text = out.getvalue()
    lines = text.split("\r\n")
    if lines and lines[-1] == "":
        lines.pop()
    obs["written"] = lines
    dm, nf = pdm._get_distance_matrix_and_normalization_factor(case["weighted"], case["normalize"])
    obs["cells"] = [["{}".format(dm[objs[a]][objs[b]] / nf) if (objs[a] in dm and objs[b] in dm[objs[a]]) else ""
                     for b in range(nl)] for a in range(nl)]
    obs["values"] = [[fr_json(fr(dm[objs[a]][objs[b]] / nf)) if (objs[a] in dm and objs[b] in dm[objs[a]]) else None
                      for b in range(nl)] for a in range(nl)]
    # the text handed to the reader
    rng = random.Random(case["seed"])
    d = case["delim"]
    rows = [l.split(d) for l in lines]
    dmg = case["damage"]
    if len(rows) >= 2:
        if dmg == "drop-cell":
            r = rng.randrange(1, len(rows))
            rows[r] = rows[r][:-1]
        elif dmg == "bad-number" and len(rows[1]) >= 2:
            r = rng.randrange(1, len(rows))
            rows[r][rng.randrange(1, len(rows[r]))] = rng.choice(["x", "1.2.3", "", "1e"])
        elif dmg == "dup-label" and len(rows) >= 3:
            rows[2][0] = rows[1][0]
        elif dmg == "case-label" and len(rows) >= 3:
            rows[2][0] = rows[1][0].swapcase()
        elif dmg == "spaces":
            rows = [[" " * rng.randint(0, 2) + c + " " * rng.randint(0, 2) for c in r] for r in rows]
        elif dmg == "drop-row":
            rows = rows[:-1]
        elif dmg == "drop-column":
            rows = [r[:-1] for r in rows]
    tlines = [d.join(r) for r in rows]
    if dmg == "blank-line-end":
        tlines.append(" ")
    obs["text"] = tlines
    if any(ch in l for l in tlines for ch in '"\r\n'):
        obs["skip"] = True
        return obs

    def read():
        p2 = dendropy.PhylogeneticDistanceMatrix.from_csv(io.StringIO("\r\n".join(tlines) + "\r\n"), delimiter=d)
        taxa = list(p2.taxon_namespace)
        tab = []
        for a in taxa:
            row = []
            for b in taxa:
                try:
                    row.append(fr_json(fr(p2._taxon_phylogenetic_distances[a][b])))
                except KeyError:
                    row.append(None)
            tab.append(row)
        return [[x.label for x in taxa], tab, sorted(x.label for x in p2._mapped_taxa)]
    obs["read"] = res_call(read)
    return obs


def oracle_csv(case, obs):
    if obs["write"][0] != "Ok":
        if obs["nf_zero"]:
            return None     # normalising by a zero tree length: ZeroDivisionError
        return ("write_csv raised %s" % obs["write"][1], "csv-write-raises")
    if obs.get("skip"):
        return None
    if case["damage"] in ("none", "spaces", "blank-line-end"):
        labels = [case["labels"][i] for i in obs["order"]]
        if len(set(l.lower() for l in labels)) != len(labels):
            return None     # labels equal up to case: from_csv's namespace is case-insensitive
        r = obs["read"]
        if r[0] != "Ok":
            return ("a matrix written by write_csv could not be read back: %s" % r[1], "csv-roundtrip")
        names, tab, mapped = r[1]
        if names != labels or mapped != sorted(labels):
            return ("taxa read back from CSV are %s, written were %s" % (names, labels), "csv-roundtrip-taxa")
        for i, a in enumerate(obs["order"]):
            for j, b in enumerate(obs["order"]):
                if tab[i][j] != obs["values"][a][b]:
                    return ("distance (%s,%s) read back from CSV is %s, written was %s"
                            % (labels[i], labels[j], tab[i][j], obs["values"][a][b]), "csv-roundtrip-value")
    return None


def c_str(s):
    return clist([cz(ord(ch)) for ch in s])


def to_coq_csv(case, obs):
    if obs["write"][0] != "Ok" or obs.get("skip"):
        return "(mkCsvCase 44 [] [] [] [] [[]] [[]] (Ok ([], [])))"
    strs = set(case["labels"])
    for l in obs["text"]:
        for c in l.split(case["delim"]):
            strs.add(c.strip(" "))
    lower = clist([cpair(c_str(x), c_str(x.lower())) for x in sorted(strs)])
    r = obs["read"]
    if r[0] == "Ok":
        rd = "(Ok (%s, %s))" % (clist([c_str(x) for x in r[1][0]]),
                                clist([clist([copt(v, c_q) for v in row]) for row in r[1][1]]))
    else:
        rd = "(Err %s)" % r[1]
    return "(mkCsvCase %s %s %s %s %s %s %s %s)" % (
        cz(ord(case["delim"])), lower, clist([c_str(x) for x in case["labels"]]), zl(obs["order"]),
        clist([clist([c_str(c) for c in row]) for row in obs["cells"]]),
        clist([c_str(l) for l in obs["written"]]), clist([c_str(l) for l in obs["text"]]), rd)


# ----------------------------------------------------------------------------------------------
# dispatch
# ----------------------------------------------------------------------------------------------

# ----------------------------------------------------------------------------------------------
# histories on ONE PhylogeneticDistanceMatrix object (query, recompile, query again)
# ----------------------------------------------------------------------------------------------
HEADER_HIST = ("From DV Require Import Model.PyPrims Model.Tree Model.C14Model Model.C14Hist.\n"
               "From Coq Require Import ZArith QArith. Open Scope Z_scope.")


def gen_hist_queries(rng, mode, taxa, ntax):
    universe = list(range(ntax))
    acc, means = [], []
    for _ in range(rng.randint(1, 4)):
        pool = taxa if (taxa and rng.random() < 0.8) else universe
        w = True if mode == "dict" else rng.random() < 0.5
        nrm = False if mode == "dict" else rng.random() < 0.4
        acc.append([rng.choice(pool), rng.choice(pool), w, nrm])
    for _ in range(rng.randint(2, 5)):
        r = rng.random()
        if r < 0.55:
            filt = None
        elif r < 0.65:
            filt = sorted(rng.sample(universe, min(ntax, rng.choice([0, 1, 2]))))
        else:
            filt = sorted(rng.sample(universe, rng.randint(1, ntax)))
        w = True if mode == "dict" else rng.random() < 0.6
        # an object not compiled from a tree has _tree_length = _num_edges = None: no normalised summaries
        nrm = False if mode in ("dict", "empty") else rng.random() < 0.35
        means.append([rng.choice(["MPD", "MNTD", "MNTD"]), filt, w, nrm])
    return acc, means


def gen_hist_case(rng, tier):
    ntax = rng.randint(3, 9)
    stages = []
    mode, taxa = "empty", []
    nst = rng.randint(2, 5 if tier == "quick" else 7)
    for i in range(nst):
        r = rng.random()
        if i == 0:
            op = "none" if r < 0.25 else "tree"
        else:
            op = "tree" if r < 0.55 else "dict" if r < 0.72 else "clear" if r < 0.82 else "none"
        st = {"op": op}
        if op in ("tree", "dict"):
            k = rng.randint(2, ntax) if rng.random() < 0.93 else 1
            sub = rng.sample(range(ntax), k)
            st["tree"] = trees.gen_tree(rng, k, lengths=rng.choice(["dyadic", "mixed", "int", "positive"]),
                                        unifurcations=rng.choice([0.0, 0.0, 0.2]), taxa=sub)
            taxa = sorted(sub) if k > 1 else []
            mode = op
            if op == "dict":
                st["order"] = rng.sample(sub, len(sub))
                st["full"] = rng.random() < 0.4
                if k == 1:
                    taxa = sorted(sub)
        elif op == "clear":
            mode, taxa = "empty", []
        st["acc"], st["means"] = gen_hist_queries(rng, mode, taxa, ntax)
        stages.append(st)
    return {"kind": "hist", "ntax": ntax, "stages": stages}


def observe_hist(case):
    import dendropy
    ns, objs = trees.make_namespace(case["ntax"])
    tix = {id(o): i for i, o in enumerate(objs)}
    out = []
    mode = "empty"
    with warnings.catch_warnings():
        warnings.simplefilter("ignore")
        pdm = dendropy.PhylogeneticDistanceMatrix()
        for st in case["stages"]:
            op, sent = st["op"], None
            try:
                if op == "tree":
                    tree, _ = trees.build_dendropy(st["tree"], objs, is_rooted=True, namespace=ns)
                    pdm.compile_from_tree(tree)
                    mode = "tree"
                elif op == "dict":
                    tree, _ = trees.build_dendropy(st["tree"], objs, is_rooted=True, namespace=ns)
                    fresh = dendropy.PhylogeneticDistanceMatrix.from_tree(tree)
                    order = st["order"]
                    distances, sent = {}, []
                    for i, a in enumerate(order):
                        cols = order if st["full"] else order[i + 1:]
                        if len(order) == 1:
                            cols = []
                        distances[objs[a]] = {objs[b]: fresh.patristic_distance(objs[a], objs[b]) for b in cols}
                        sent.append([a, [[b, units(distances[objs[a]][objs[b]])] for b in cols]])
                    pdm.compile_from_dict(distances, ns)
                    mode = "dict"
                elif op == "clear":
                    pdm.clear()
                    mode = "empty"
            except Exception as e:
                out.append({"op": op, "sent": sent, "res": ["Err", core.exc_enum(e)]})
                break
            out.append({"op": op, "sent": sent,
                        "res": ["Ok", snapshot(pdm, objs, tix, st["acc"], st["means"], full=(mode == "tree"))]})
    return {"stages": out}


def oracle_hist(case, obs):
    """every stage against the independent path walk of the tree the object was LAST compiled from"""
    mode, t = "empty", None
    for i, (st, ob) in enumerate(zip(case["stages"], obs["stages"])):
        if st["op"] in ("tree", "dict"):
            mode, t = st["op"], st["tree"]
        elif st["op"] == "clear":
            mode, t = "empty", None
        if ob["res"][0] != "Ok":
            return ("%s raised %s at step %d of a history on one matrix object" % (st["op"], ob["res"][1], i), "reuse-raises")
        if mode == "dict" and len(trees.leaves(t)) == 1:
            one = sorted(x["taxon"] for x in trees.leaves(t))
            v = None if ob["res"][1]["taxa"] == one else \
                ("mapped taxa %s after compile_from_dict of the single taxon %s" % (ob["res"][1]["taxa"], one), "mapped-taxa")
        else:
            v = oracle_pdm({"tree": t}, ob["res"], mode)
        if v:
            hist = " -> ".join(s["op"] for s in case["stages"][:i + 1])
            return ("one matrix object, %s (step %d): %s" % (hist, i, v[0]), "reuse-" + v[1])
    return None


def c_hop(st, ob):
    if st["op"] == "none":
        return "HNone"
    if st["op"] == "clear":
        return "HClear"
    if st["op"] == "tree":
        return "(HTree %s)" % trees.c_tree(st["tree"])
    return "(HDict %s)" % clist([cpair(cz(a), clist([cpair(cz(b), cz(v)) for b, v in row])) for a, row in ob["sent"]])


def to_coq_hist(case, obs):
    return clist([cpair(c_hop(st, ob), c_res(ob["res"], c_pdm_obs)) for st, ob in zip(case["stages"], obs["stages"])])


def nontrivial_hist(case, obs):
    comp = [st for st in case["stages"][:len(obs["stages"])] if st["op"] in ("tree", "dict")]
    return len(comp) >= 2 and any(len(trees.leaves(st["tree"])) >= 3 for st in comp)


def gen_case(rng, tier):
    r = rng.random()
    if r < 0.40:
        return gen_pdm_case(rng, tier)
    if r < 0.70:
        return gen_mrca_case(rng, tier)
    return gen_clu_case(rng, tier)


def observe(case):
    if case["kind"] == "pdm":
        return observe_pdm(case)
    if case["kind"] == "mrca":
        return observe_mrca(case)
    return observe_clu(case)


def oracle(case, obs):
    if case["kind"] == "pdm":
        return oracle_pdm(case, obs)
    if case["kind"] == "mrca":
        return oracle_mrca(case, obs)
    return oracle_clu(case, obs)


TRIVIAL = "(CMrca true [] (T 0 None None None []) None [] [])"


def to_coq(case, obs):
    if case["kind"] == "pdm":
        return "(CPdm %s %s)" % (trees.c_tree(case["tree"]), c_res(obs, c_pdm_obs))
    if case["kind"] == "mrca":
        ns = clist(["(mkNsEnt %s %s %s)" % (cz(a), cz(b), cz(c)) for a, b, c in obs["ns"]])
        qs = clist([cpair(c_mq(st["q"]), c_mobs(st)) for st in obs["steps"]])
        return "(CMrca %s %s %s %s %s %s)" % (cbool(early_exit()), ns, trees.c_tree(obs["tree0"]), c_ob(obs["rooted0"]),
                                               c_enc(obs["enc0"]), qs)
    if obs["skip"]:
        return TRIVIAL
    if not obs.get("via_csv"):
        src = "(SrcTree %s %s)" % (trees.c_tree(case["tree"]), cbool(case["weighted"]))
    else:
        n = len(obs["rows"])
        src = "(SrcMat %s %s)" % (zl(range(n)), clist([clist([copt(v, c_q) for v in row]) for row in obs["rows"]]))
    return "(CClu %s %s %s %s)" % (src, zl(obs["order"]), cbool(case["nj"]), c_res(obs["res"], c_qtree))


def nontrivial(case, obs):
    if case["kind"] == "pdm":
        return obs[0] == "Ok" and len(obs[1]["taxa"]) >= 3
    if case["kind"] == "mrca":
        return len(obs["steps"]) >= 2 and len(trees.leaves(obs["tree0"])) >= 3
    return not obs["skip"] and len(obs.get("order", [])) >= 3


def record(ctx, case, obs=None):
    ctx.count("kind:" + case["kind"])
    if case["kind"] == "pdm":
        ctx.count("pdm-leaves:%s" % bucket(len(trees.leaves(case["tree"]))))
    elif case["kind"] == "mrca":
        ctx.count("mrca-state:" + case["state"])
        ctx.count("mrca-rooted:%s" % case["rooted"])
    else:
        ctx.count("clu:%s/%s/%s" % (case["gen"], case["via"], "nj" if case["nj"] else "upgma"))


def bucket(n):
    return "1" if n == 1 else "2-5" if n <= 5 else "6-12" if n <= 12 else "13-30"


def exhaustive_cases(rng):
    """every rose-tree shape with <= 5 leaves (pdm + a clustering run), several length patterns"""
    out = []
    for n in range(1, 6):
        for shape in trees.all_shapes(n):
            for pat in ("none", "mixed"):
                t = trees.shape_to_tree(shape, lengths=(lambda r: None) if pat == "none" else
                                        (lambda r: r.choice([None, 0, 512, 1024, 3072])), rng=rng)
                taxa = [x["taxon"] for x in trees.leaves(t)]
                out.append({"kind": "pdm", "tree": t, "ctor": "method", "rooted": True,
                            "acc": [[taxa[0], taxa[-1], True, True], [taxa[0], taxa[-1], False, True]],
                            "means": [["MPD", None, True, False], ["MNTD", None, True, False],
                                      ["MPD", taxa[:2], False, True], ["MNTD", taxa[:2], True, True]]})
    return out


def search(ctx, budget_s):
    import time
    t0 = time.time()
    rng = random.Random(ctx.seed + 1414)
    n = 0
    from dv import c14_multi
    pending = list(c14_multi.demo_cases())     # matrix, clone, tree edited, one of them recompiled
    while time.time() - t0 < budget_s and n < 20000:
        r = rng.random()
        if pending:
            case = pending.pop(0)
            obsf, orf = c14_multi.observe_multi, c14_multi.oracle_multi
        elif r < 0.25:
            case = gen_hist_case(rng, "thorough")
            obsf, orf = observe_hist, oracle_hist
        elif r < 0.5:
            case = c14_multi.gen_multi_case(rng, "thorough")
            obsf, orf = c14_multi.observe_multi, c14_multi.oracle_multi
        else:
            case = gen_case(rng, "thorough")
            obsf, orf = observe, oracle
        try:
            obs = obsf(case)
        except Exception:
            continue
        v = orf(case, obs)
        n += 1
        if v:
            ctx.violation(v[0], {"case": case, "observed": obs}, key=v[1])
            if ctx.violations:
                return
    ctx.notes.append("search: %d further cases through the oracle, no unlisted violation" % n)


def gen_overwritten():
    """True when coq/Gen/Pdm.v or coq/Gen/PdmObj.v is not what the translators derive from this run's source"""
    import os
    from dv import gen_pdm, gen_pdm_obj
    for mod, fname in ((gen_pdm, "Pdm.v"), (gen_pdm_obj, "PdmObj.v")):
        try:
            want = mod.generate(core.REPO)
        except Exception:
            continue              # fail-closed stub: handled by proof_stage
        try:
            with open(os.path.join(core.COQ, "Gen", fname)) as f:
                if f.read() != want:
                    return True
        except OSError:
            return True
    return False


def run(tier, seed, replay=None):
    ctx = core.Ctx("C14", tier, seed)
    ctx.assumptions = [
        "model coq/Model/C14Model.v is a hand transcription of phylogeneticdistance.py / treemeasure.patristic_distance / Tree.mrca; tied by this correspondence run, and for compile_from_tree, _mirror_lookups, the accessors, the Tree.mrca descent loop and the NJ/UPGMA arithmetic by the translator tie Props/C14Gen.v (coq/Gen/Pdm.v is generated from the current source by py/dv/gen_pdm.py, fail closed)",
        "translator tie: the meaning of the Python primitives (dict/list/set operations, node attributes in a heap, for/while loops, exceptions) is coq/Model/C14GenPrims.v; tree.postorder_node_iter() is Tree.postorder (property C15); is_store_path_edges = False",
        "edge lengths are multiples of 2^-10 with small numerators: binary64 sums are exact; divisions are compared with the model's rationals within 1e-12 (summaries) / 1e-9 (NJ, UPGMA lengths)",
        "iteration order of the id()-hashed set _mapped_taxa is read from the implementation and given to the NJ/UPGMA model as input; inputs whose tie-breaks depend on binary64 rounding are left out",
        "leaf taxa are pairwise distinct and sit on leaves only (theorem hypotheses)",
    ]
    if replay:
        import json
        r = json.load(open(replay))["replay"]
        case = r["case"]
        if case.get("kind") == "hist":
            obs = observe_hist(case)
            print("oracle:", oracle_hist(case, obs))
            return 0
        if case.get("kind") == "multi":
            from dv import c14_multi
            obs = c14_multi.observe_multi(case)
            print("oracle:", c14_multi.oracle_multi(case, obs))
            return 0
        obs = observe(case)
        print("oracle:", oracle(case, obs))
        return 0
    ok = core.proof_stage(ctx, ["Props/C14.vo"], gen_needed=("__none__",))
    # translator tie: Gen/Pdm.v (regenerated from the current phylogeneticdistance.py / _tree.py) = the model
    ok_gen = core.proof_stage(ctx, ["Props/C14Gen.vo"], props_file="Props/C14Gen.v", gen_needed=("Pdm", "PdmObj"))
    if gen_overwritten():
        # another check running concurrently regenerates coq/Gen from its own DV_REPO: build again
        ctx.notes.append("coq/Gen/Pdm.v was overwritten by a concurrent run during the build; translator tie repeated")
        ctx.obligations = [o for o in ctx.obligations if o[1]]
        ok_gen = core.proof_stage(ctx, ["Props/C14Gen.vo"], props_file="Props/C14Gen.v", gen_needed=("Pdm", "PdmObj"))
        if gen_overwritten():
            ctx.obligation("coq/Gen/Pdm.v stable during the build (no concurrent regeneration)", False)
            ok_gen = False
    if not (ok and ok_gen):
        core.broken_proof(ctx, search)
    n = 420 if tier == "quick" else 6000
    cases = probe_cases() + [gen_case(ctx.rng, tier) for _ in range(n)]
    if tier == "thorough":
        cases.extend(exhaustive_cases(ctx.rng))
    for c in cases:
        record(ctx, c)
    core.corr_stage(ctx, cases, observe, to_coq, HEADER, "case_ok", oracle=oracle, show_fn="case_show",
                    nontrivial=nontrivial, search=search, shard=(60 if tier == "quick" else 250),
                    sample_fn=lambda c, o: {"kind": c["kind"], "tree": trees.newick(c["tree"]) if "tree" in c else None})
    ncsv = 120 if tier == "quick" else 1500
    csv_cases = [gen_csv_case(ctx.rng, tier) for _ in range(ncsv)]
    for c in csv_cases:
        ctx.count("kind:csv")
        ctx.count("csv-damage:" + c["damage"])
    core.corr_stage(ctx, csv_cases, observe_csv, to_coq_csv, HEADER_CSV, "csv_case_ok", oracle=oracle_csv,
                    nontrivial=lambda c, o: len(o.get("written", [])) >= 3, shard=(60 if tier == "quick" else 250),
                    label="csv", sample_fn=lambda c, o: {"kind": "csv", "labels": c["labels"], "damage": c["damage"]})
    nh = 150 if tier == "quick" else 2000
    hist_cases = [gen_hist_case(ctx.rng, tier) for _ in range(nh)]
    for c in hist_cases:
        ctx.count("kind:hist")
        ctx.count("hist-ops:" + ",".join(sorted(set(st["op"] for st in c["stages"]))))
    core.corr_stage(ctx, hist_cases, observe_hist, to_coq_hist, HEADER_HIST, "hist_case_ok", oracle=oracle_hist,
                    show_fn="hist_show", nontrivial=nontrivial_hist, search=search, shard=(50 if tier == "quick" else 250),
                    label="hist", sample_fn=lambda c, o: {"kind": "hist", "ops": [st["op"] for st in c["stages"]]})
    # histories over SEVERAL matrix objects (clone / copy.copy, recompilation after tree edits, clear), every object
    # observed after every step, container identities up to renaming: coq/Model/C14ObjModel.v
    from dv import c14_multi
    nm = 110 if tier == "quick" else 1500
    multi_cases = c14_multi.demo_cases() + [c14_multi.gen_multi_case(ctx.rng, tier) for _ in range(nm)]
    for c in multi_cases:
        ctx.count("kind:multi")
        ctx.count("multi-ops:" + ",".join(sorted(set(st["op"] for st in c["stages"]))))
        ctx.count("multi-objects:%d" % sum(1 for st in c["stages"] if st["op"] in ("new", "clone", "copy")))
    core.corr_stage(ctx, multi_cases, c14_multi.observe_multi, c14_multi.to_coq_multi, c14_multi.HEADER_MULTI, "mhist_case_ok",
                    oracle=c14_multi.oracle_multi, show_fn="mhist_show", nontrivial=c14_multi.nontrivial_multi, search=search,
                    shard=(40 if tier == "quick" else 200), label="multi",
                    sample_fn=lambda c, o: {"kind": "multi", "ops": [st["op"] for st in c["stages"]]})
    return ctx.finish(level="proof",
                      rule="histories over up to 3 PhylogeneticDistanceMatrix objects (PhylogeneticDistanceMatrix(), clone / copy.copy, compile_from_tree on a fresh tree or on the last tree after pruning taxa / changing lengths in place, compile_from_dict, clear; after every step every object's tables, queries and container identities id() compared with the object-level model up to renaming, and the oracle clause 'an operation on one matrix object changes no query result of another'); histories on ONE PhylogeneticDistanceMatrix object (2-7 steps of compile_from_tree / compile_from_dict / clear / nothing over a shared namespace with changing leaf sets, each followed by accessor and mean_pairwise_distance / mean_nearest_taxon_distance queries, mostly unfiltered; every step compared with the path walk of the tree last compiled and with the model recomputed from the current tables); random cases: 40% distance matrices of random rose trees (1-30 leaves, polytomies, unifurcations, dyadic/zero/None lengths, all pairs, summaries under filters/options), 30% Tree.mrca / treemeasure.patristic_distance histories (absent/current/stale encoding, three argument forms, start_node, refresh), 30% NJ/UPGMA runs (additive, ultrametric, arbitrary, unweighted, through CSV, CSV text); thorough adds every rose-tree shape with <=5 leaves; non-trivial = >=3 taxa (and >=2 queries for mrca histories); distinct by full case content")
