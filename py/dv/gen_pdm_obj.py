"""C14 translator, object level: PhylogeneticDistanceMatrix.clear / __init__ / clone / __copy__ of the CURRENT
source -> coq/Gen/PdmObj.v, statement by statement over the primitives of coq/Model/C14ObjPrims.v.

What is read off the AST: for every container attribute of the matrix object
    clear/__init__ :  `self.X = set()` / `self.X = {}`      -> st_rebind         (a NEW container)
                      `self.X.clear()` (also inside `for c in (self.X, ...): c.clear()`)
                                                            -> st_clear_in_place (the SAME container emptied)
    clone          :  `o.X = set(self.X)` / `self.X.copy()` / `copy.copy(self.X)`   (sets)
                                                            -> st_copy_fresh     (a NEW container, same elements)
                      `o.X = self.X`                        -> st_share          (the SAME container)
                      the nested loop `for t1 in src: dest[t1] = {}; for t2 in src[t1]: dest[t1][t2] = src[t1][t2]`
                      over pairs (self.X, o.X)              -> st_copy_rows      (new rows, in place in o's own dict)
and for the scalars (taxon_namespace, _tree_length, _num_edges) `= None` / `o.S = self.S`.
Everything else is Unsupported (fail closed: py2coq writes a stub, Props/C14Gen.v does not build).

Two syntactic side conditions of the object model (coq/Model/C14ObjModel.v) are checked on the whole class:
  check_rows_fresh   every `T[k] = rhs` that stores a ROW into one of the tables (or an alias of one) has a dict
                     display as rhs: rows are never shared between outer dicts
  check_in_place     compile_from_tree / compile_from_dict start with self.clear() and, like _mirror_lookups, never
                     assign a container attribute (they only operate in place on the current containers)
"""
import ast
import os

OUTPUT = "PdmObj.v"

CLS = "PhylogeneticDistanceMatrix"
CONT = {
    "_mapped_taxa": ("AMapped", "set"),
    "_all_distinct_mapped_taxa_pairs": ("APairs", "set"),
    "_taxon_phylogenetic_distances": ("ADist", "dict"),
    "_taxon_phylogenetic_path_steps": ("ASteps", "dict"),
    "_taxon_phylogenetic_path_edges": ("AEdges", "dict"),
    "_mrca": ("AMrca", "dict"),
}
TABLES = [k for k, v in CONT.items() if v[1] == "dict"]
SCAL = {"taxon_namespace": "ANs", "_tree_length": "ATreeLength", "_num_edges": "ANumEdges"}
CONFIG = {"is_store_path_edges"}      # plain configuration flag, not part of the model (False)


class Unsupported(Exception):
    pass


def where(node):
    return "line %d" % getattr(node, "lineno", 0)


def body_of(fn):
    b = fn.body
    if b and isinstance(b[0], ast.Expr) and isinstance(getattr(b[0], "value", None), ast.Constant) \
            and isinstance(b[0].value.value, str):
        b = b[1:]
    return b


def is_attr_of(node, obj, names=None):
    return (isinstance(node, ast.Attribute) and isinstance(node.value, ast.Name) and node.value.id == obj
            and (names is None or node.attr in names))


def is_empty_ctor(node, kind):
    if kind == "set":
        return isinstance(node, ast.Call) and isinstance(node.func, ast.Name) and node.func.id == "set" \
            and not node.args and not node.keywords
    return (isinstance(node, ast.Dict) and not node.keys) or \
        (isinstance(node, ast.Call) and isinstance(node.func, ast.Name) and node.func.id == "dict"
         and not node.args and not node.keywords)


def is_none(node):
    return isinstance(node, ast.Constant) and node.value is None


def clear_call(node, var=None):
    """`<x>.clear()` as an expression statement: returns x"""
    if isinstance(node, ast.Expr) and isinstance(node.value, ast.Call):
        c = node.value
        if isinstance(c.func, ast.Attribute) and c.func.attr == "clear" and not c.args and not c.keywords:
            return c.func.value
    return None


def compile_reset(fn, name, allow_config):
    """clear / __init__: statements on `self`"""
    out = []
    for st in body_of(fn):
        # self.clear()
        tgt = clear_call(st)
        if tgt is not None:
            if isinstance(tgt, ast.Name) and tgt.id == "self":
                out.append("gen_PDM_clear self w")
                continue
            if is_attr_of(tgt, "self", CONT):
                out.append("st_clear_in_place %s self w" % CONT[tgt.attr][0])
                continue
            raise Unsupported("%s: .clear() on %s (%s)" % (name, ast.dump(tgt), where(st)))
        # for c in (self.X, self.Y, ...): c.clear()
        if isinstance(st, ast.For):
            if not (isinstance(st.target, ast.Name) and isinstance(st.iter, (ast.Tuple, ast.List)) and not st.orelse
                    and len(st.body) == 1):
                raise Unsupported("%s: loop form (%s)" % (name, where(st)))
            t = clear_call(st.body[0])
            if not (isinstance(t, ast.Name) and t.id == st.target.id):
                raise Unsupported("%s: loop body (%s)" % (name, where(st)))
            for e in st.iter.elts:
                if not is_attr_of(e, "self", CONT):
                    raise Unsupported("%s: loop over %s (%s)" % (name, ast.dump(e), where(st)))
                out.append("st_clear_in_place %s self w" % CONT[e.attr][0])
            continue
        if isinstance(st, ast.Assign) and len(st.targets) == 1 and is_attr_of(st.targets[0], "self"):
            a = st.targets[0].attr
            if a in SCAL and is_none(st.value):
                out.append("st_set_scalar %s 0 self w" % SCAL[a])
                continue
            if a in CONT and is_empty_ctor(st.value, CONT[a][1]):
                out.append("st_rebind %s self w" % CONT[a][0])
                continue
            if a in CONFIG and allow_config and isinstance(st.value, ast.Name):
                continue
        raise Unsupported("%s: statement not understood (%s): %s" % (name, where(st), ast.dump(st)[:200]))
    return out


ROW_LOOP = ("for t1 in src:\n    dest[t1] = {}\n    for t2 in src[t1]:\n        dest[t1][t2] = src[t1][t2]")


def same_shape(a, b, ren):
    """AST equality of a against template b up to the consistent renaming ren (template name -> actual name)"""
    if type(a) is not type(b):
        return False
    if isinstance(a, ast.Name):
        if b.id in ren:
            return ren[b.id] == a.id
        ren[b.id] = a.id
        return True
    for f in a._fields:
        if f in ("ctx", "lineno", "col_offset", "end_lineno", "end_col_offset", "type_comment"):
            continue
        x, y = getattr(a, f, None), getattr(b, f, None)
        if isinstance(x, list):
            if not isinstance(y, list) or len(x) != len(y) or not all(same_shape(p, q, ren) for p, q in zip(x, y)):
                return False
        elif isinstance(x, ast.AST):
            if not isinstance(y, ast.AST) or not same_shape(x, y, ren):
                return False
        elif x != y:
            return False
    return True


def compile_clone(fn, init):
    out = []
    body = body_of(fn)
    if not body:
        raise Unsupported("clone: empty")
    # o = self.__class__()
    st = body[0]
    ok = (isinstance(st, ast.Assign) and len(st.targets) == 1 and isinstance(st.targets[0], ast.Name)
          and isinstance(st.value, ast.Call) and not st.value.args and not st.value.keywords
          and is_attr_of(st.value.func, "self", {"__class__"}))
    if not ok:
        raise Unsupported("clone: first statement is not `o = self.__class__()` (%s)" % where(st))
    o = st.targets[0].id
    a = init.args
    if len(a.args) - 1 != len(a.defaults) or a.vararg or a.kwarg or a.kwonlyargs:
        raise Unsupported("__init__ has a parameter without default")
    if not (isinstance(body[-1], ast.Return) and isinstance(body[-1].value, ast.Name) and body[-1].value.id == o):
        raise Unsupported("clone: does not end with `return %s`" % o)
    for st in body[1:-1]:
        if isinstance(st, ast.Assign) and len(st.targets) == 1 and is_attr_of(st.targets[0], o):
            a = st.targets[0].attr
            v = st.value
            if a in SCAL and is_attr_of(v, "self", {a}):
                out.append("st_copy_scalar %s self o w" % SCAL[a])
                continue
            if a in CONT:
                if is_attr_of(v, "self", {a}):
                    out.append("st_share %s self o w" % CONT[a][0])
                    continue
                if CONT[a][1] == "set":
                    fresh = False
                    if isinstance(v, ast.Call) and not v.keywords:
                        f = v.func
                        if isinstance(f, ast.Name) and f.id in ("set",) and len(v.args) == 1 and is_attr_of(v.args[0], "self", {a}):
                            fresh = True
                        if isinstance(f, ast.Attribute) and f.attr == "copy" and not v.args and is_attr_of(f.value, "self", {a}):
                            fresh = True
                        if isinstance(f, ast.Attribute) and f.attr == "copy" and isinstance(f.value, ast.Name) \
                                and f.value.id == "copy" and len(v.args) == 1 and is_attr_of(v.args[0], "self", {a}):
                            fresh = True
                    if fresh:
                        out.append("st_copy_fresh %s self o w" % CONT[a][0])
                        continue
            raise Unsupported("clone: assignment not understood (%s): %s" % (where(st), ast.dump(st)[:200]))
        if isinstance(st, ast.For):
            # for src, dest in ((self.A, o.A), ...): <ROW_LOOP>
            if not (isinstance(st.target, ast.Tuple) and len(st.target.elts) == 2
                    and all(isinstance(e, ast.Name) for e in st.target.elts)
                    and isinstance(st.iter, (ast.Tuple, ast.List)) and not st.orelse and len(st.body) == 1):
                raise Unsupported("clone: loop form (%s)" % where(st))
            src, dest = st.target.elts[0].id, st.target.elts[1].id
            tmpl = ast.parse(ROW_LOOP).body[0]
            ren = {"src": src, "dest": dest}
            if not same_shape(st.body[0], tmpl, ren):
                raise Unsupported("clone: the row-copy loop has changed (%s)" % where(st))
            if len(set(ren.values())) != len(ren):
                raise Unsupported("clone: row-copy loop variables coincide (%s)" % where(st))
            for e in st.iter.elts:
                if not (isinstance(e, ast.Tuple) and len(e.elts) == 2):
                    raise Unsupported("clone: loop over %s" % ast.dump(e)[:100])
                s_, d_ = e.elts
                if not (is_attr_of(s_, "self", TABLES) and is_attr_of(d_, o, {s_.attr})):
                    raise Unsupported("clone: row copy between different attributes (%s)" % where(e))
                out.append("st_copy_rows %s self o w" % CONT[s_.attr][0])
            continue
        raise Unsupported("clone: statement not understood (%s): %s" % (where(st), ast.dump(st)[:200]))
    return out


def table_aliases(fn):
    """names that may denote one of the tables inside fn"""
    al = set()
    for n in ast.walk(fn):
        if isinstance(n, ast.Assign) and len(n.targets) == 1 and isinstance(n.targets[0], ast.Name):
            v = n.value
            if isinstance(v, ast.Attribute) and v.attr in TABLES:
                al.add(n.targets[0].id)
            if isinstance(v, ast.Call) and isinstance(v.func, ast.Name) and v.func.id == "getattr":
                al.add(n.targets[0].id)
        if isinstance(n, ast.For) and isinstance(n.iter, (ast.Tuple, ast.List)):
            def has_table(e):
                return any(isinstance(x, ast.Attribute) and x.attr in TABLES for x in ast.walk(e))
            if any(has_table(e) for e in n.iter.elts):
                for x in ast.walk(n.target):
                    if isinstance(x, ast.Name):
                        al.add(x.id)
    # a local dict that is later installed as a table through setattr (shuffle_taxa)
    uses_setattr = any(isinstance(n, ast.Call) and isinstance(n.func, ast.Name) and n.func.id == "setattr"
                       for n in ast.walk(fn))
    if uses_setattr:
        for n in ast.walk(fn):
            if isinstance(n, ast.Assign) and len(n.targets) == 1 and isinstance(n.targets[0], ast.Name) \
                    and isinstance(n.value, ast.Dict):
                al.add(n.targets[0].id)
    return al


def check_rows_fresh(cls):
    for fn in cls.body:
        if not isinstance(fn, ast.FunctionDef):
            continue
        al = table_aliases(fn)
        for n in ast.walk(fn):
            if not isinstance(n, (ast.Assign, ast.AugAssign)):
                continue
            targets = n.targets if isinstance(n, ast.Assign) else [n.target]
            for t in targets:
                if not isinstance(t, ast.Subscript):
                    continue
                base = t.value
                is_tbl = (isinstance(base, ast.Attribute) and base.attr in TABLES) or \
                         (isinstance(base, ast.Name) and base.id in al)
                if is_tbl and not isinstance(n.value, ast.Dict):
                    raise Unsupported("%s stores a row that is not a fresh dict display (%s)" % (fn.name, where(n)))


def check_in_place(cls):
    fns = {f.name: f for f in cls.body if isinstance(f, ast.FunctionDef)}
    for name in ("compile_from_tree", "compile_from_dict", "_mirror_lookups"):
        if name not in fns:
            raise Unsupported("method %s not found" % name)
        fn = fns[name]
        if name != "_mirror_lookups":
            b = body_of(fn)
            t = clear_call(b[0]) if b else None
            if not (isinstance(t, ast.Name) and t.id == "self"):
                raise Unsupported("%s does not start with self.clear()" % name)
            for st in b[1:]:
                for n in ast.walk(st):
                    t2 = clear_call(n) if isinstance(n, ast.Expr) else None
                    if isinstance(t2, ast.Name) and t2.id == "self":
                        raise Unsupported("%s calls self.clear() again (%s)" % (name, where(n)))
        for n in ast.walk(fn):
            if isinstance(n, (ast.Assign, ast.AugAssign, ast.Delete)):
                targets = n.targets if not isinstance(n, ast.AugAssign) else [n.target]
                for t in targets:
                    for x in ast.walk(t):
                        if isinstance(x, ast.Attribute) and x.attr in CONT and isinstance(x.ctx, (ast.Store, ast.Del)):
                            raise Unsupported("%s rebinds self.%s (%s)" % (name, x.attr, where(n)))
            if isinstance(n, ast.Call) and isinstance(n.func, ast.Name) and n.func.id in ("setattr", "delattr"):
                raise Unsupported("%s uses %s (%s)" % (name, n.func.id, where(n)))


HEADER = """(* GENERATED by py/dv/gen_pdm_obj.py from src/dendropy/calculate/phylogeneticdistance.py -- do not edit.
   PhylogeneticDistanceMatrix.clear / __init__ / clone / __copy__ as statement sequences over the container
   store of Model/C14ObjPrims.v. *)
From Coq Require Import ZArith List Bool.
From DV Require Import Model.PyPrims Model.C14Model Model.C14ObjPrims.
Import ListNotations.
Open Scope Z_scope.
"""


def seq(stmts, ret):
    return "".join("  do w <- %s ;;\n" % s for s in stmts) + "  " + ret


def generate(repo):
    path = os.path.join(repo, "src", "dendropy", "calculate", "phylogeneticdistance.py")
    with open(path) as f:
        mod = ast.parse(f.read())
    cls = [n for n in mod.body if isinstance(n, ast.ClassDef) and n.name == CLS]
    if len(cls) != 1:
        raise Unsupported("class %s not found" % CLS)
    cls = cls[0]
    fns = {}
    for f in cls.body:
        if isinstance(f, ast.FunctionDef):
            if f.name in fns:
                raise Unsupported("method %s defined twice" % f.name)
            if f.decorator_list and f.name in ("clear", "__init__", "clone", "__copy__"):
                raise Unsupported("method %s is decorated" % f.name)
            fns[f.name] = f
    for name in ("clear", "__init__", "clone", "__copy__"):
        if name not in fns:
            raise Unsupported("method %s not found" % name)
    if "__deepcopy__" in fns or "__new__" in fns or "__setattr__" in fns or "__getattr__" in fns:
        raise Unsupported("the class customises object creation / attribute access")
    check_rows_fresh(cls)
    check_in_place(cls)
    out = [HEADER]
    clear = compile_reset(fns["clear"], "clear", False)
    if any(s.startswith("gen_PDM_clear") for s in clear):
        raise Unsupported("clear calls itself")
    out.append("(* clear, line %d *)\nDefinition gen_PDM_clear (self : oid) (w : world) : res world :=\n%s.\n"
               % (fns["clear"].lineno, seq(clear, "Ok w")))
    init = compile_reset(fns["__init__"], "__init__", True)
    out.append("(* __init__, line %d  (is_store_path_edges: configuration flag, not modelled) *)\n"
               "Definition gen_PDM_init (self : oid) (w : world) : res world :=\n%s.\n"
               % (fns["__init__"].lineno, seq(init, "Ok w")))
    clone = compile_clone(fns["clone"], fns["__init__"])
    out.append("(* clone, line %d *)\nDefinition gen_PDM_clone (self : oid) (w : world) : res (world * oid) :=\n"
               "  let '(w, o) := st_new w in\n  do w <- gen_PDM_init o w ;;\n%s.\n"
               % (fns["clone"].lineno, seq(clone, "Ok (w, o)")))
    # __copy__: return self.clone()
    b = body_of(fns["__copy__"])
    ok = (len(b) == 1 and isinstance(b[0], ast.Return) and isinstance(b[0].value, ast.Call)
          and not b[0].value.args and not b[0].value.keywords and is_attr_of(b[0].value.func, "self", {"clone"})
          and len(fns["__copy__"].args.args) == 1)
    if not ok:
        raise Unsupported("__copy__ is not `return self.clone()`")
    out.append("(* __copy__, line %d *)\nDefinition gen_PDM_copy (self : oid) (w : world) : res (world * oid) :=\n"
               "  gen_PDM_clone self w.\n" % fns["__copy__"].lineno)
    return "\n".join(out)


if __name__ == "__main__":
    import sys
    print(generate(sys.argv[1] if len(sys.argv) > 1 else "/repo"))
