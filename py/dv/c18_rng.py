"""C18 helpers: scripted / recording random generators and the poisoned global generator.

A *script* is a list of typed entries consumed left to right:
  ["Exp", Fraction] | ["Unit", Fraction] | ["Gauss", Fraction] | ["Perm", [int..]] | ["Index", int] | ["Sample", [int..]]
The scripted generator overrides the METHODS the simulators call (CPython implements shuffle /
choice / sample / randint through getrandbits, so the methods themselves are overridden, not the
bit source).  Every call is logged as [method, argument summary, returned value].  Every other
public method of random.Random is poisoned.
"""
import random
from fractions import Fraction


class ScriptExhausted(Exception):
    pass


class ScriptMismatch(Exception):
    pass


class UnscriptedMethod(Exception):
    pass


class GlobalRngTouched(Exception):
    pass


def fr(x):
    """exact rational of an int/float/Fraction"""
    return Fraction(x)


class Chooser:
    """Produces script entries on demand (lazy script): `policy` steers the walk."""

    def __init__(self, rng, policy=None):
        self.rng = rng
        self.policy = policy or {}
        self.owner = None       # the ScriptedRng (to know how many draws were made)

    def capped(self):
        cap = self.policy.get("cap")
        return cap is not None and self.owner is not None and len(self.owner.consumed) > cap

    def dyadic(self, lo_num, hi_num, den):
        return Fraction(self.rng.randint(lo_num, hi_num), den)

    def exp(self, rate):
        return self.dyadic(0, 12, self.rng.choice([1, 2, 4, 8]))

    def directed_event(self):
        """policy["events"] = [k0, k1, ...]: the j-th event choice takes event k_j (mod the number of
        events: birth/death of each extant lineage, in the order of the code's event list)."""
        ev = self.policy.get("events")
        j = self.policy.setdefault("_j", 0)
        if ev is None or j >= len(ev):
            return None
        self.policy["_j"] = j + 1
        return ev[j]

    def unit(self):
        if self.capped():
            return Fraction(0)      # first event = a birth: forces the walk to its end
        if self.policy.get("events") is not None and self.policy.get("mode") == "bd":
            k = self.directed_event()
            if k is None:
                return Fraction(0)
            b, d = Fraction(self.policy["b"]), Fraction(self.policy["d"])
            n = int(Fraction(self.owner.last_exp_rate) / (b + d))
            w = [b, d] * n
            k %= len(w)
            while w[k] == 0:
                k = (k + 1) % len(w)
            lo = sum(w[:k]) / sum(w)
            hi = sum(w[:k + 1]) / sum(w)
            mid = (lo + hi) / 2
            return Fraction(int(mid * 2 ** 24), 2 ** 24)     # dyadic, strictly inside the event's interval
        if self.policy.get("events") is not None and self.policy.get("mode") == "fbd":
            k = self.policy.get("_k")
            if k is None:
                return Fraction(0)
            b, d = Fraction(self.policy["b"]), Fraction(self.policy["d"])
            thr = b / (b + d)
            if k % 2 == 0 or d == 0:
                return Fraction(int(thr / 2 * 2 ** 24), 2 ** 24)
            return Fraction(int((thr + 1) / 2 * 2 ** 24) + 1, 2 ** 24)
        p = self.policy.get("unit")
        if p == "low":       # favours the first events (births of early lineages)
            return self.dyadic(0, 5, 16)
        if p == "high":
            return self.dyadic(10, 15, 16)
        den = self.rng.choice([2, 4, 8, 16, 64, 1024])
        return self.dyadic(0, den - 1, den)

    def gauss(self, mu, sigma):
        return self.dyadic(-4, 4, 4)

    def perm(self, n):
        p = list(range(n))
        self.rng.shuffle(p)
        return p

    def index(self, lo, hi):
        if self.policy.get("events") is not None and self.policy.get("mode") == "fbd" and not self.capped():
            k = self.directed_event()
            self.policy["_k"] = k
            if k is None:
                return lo
            return lo + (k // 2) % (hi - lo + 1)
        return self.rng.randint(lo, hi)

    def sample(self, n, k):
        return self.rng.sample(range(n), k)


class ScriptedRng(random.Random):
    """Consumes `script` (list of entries) if given, otherwise asks `chooser` for each entry and
    records it (the recorded script is then replayed through the model)."""

    def __init__(self, script=None, chooser=None):
        super().__init__(0)
        self.script = list(script) if script is not None else None
        self.pos = 0
        self.chooser = chooser
        self.consumed = []      # entries consumed, in order
        self.trace = []         # [method, args summary]
        self.last_unit = None
        self.last_exp_rate = None

    # -- core ---------------------------------------------------------------
    def _next(self, kind, make):
        if self.script is not None:
            if self.pos >= len(self.script):
                raise ScriptExhausted(kind)
            e = self.script[self.pos]
            if e[0] != kind:
                raise ScriptMismatch("expected %s, script has %s" % (kind, e[0]))
            self.pos += 1
        else:
            e = [kind, make()]
        self.consumed.append(e)
        return e[1]

    # -- scripted methods -----------------------------------------------------
    def expovariate(self, lambd=1.0):
        if lambd == 0:
            raise ZeroDivisionError("float division by zero")   # as CPython's expovariate
        self.trace.append(["expovariate", fr(lambd)])
        self.last_exp_rate = lambd
        v = self._next("Exp", lambda: self.chooser.exp(lambd))
        return float(v)

    def random(self):
        self.trace.append(["random"])
        v = self._next("Unit", lambda: self.chooser.unit())
        self.last_unit = Fraction(v)
        return float(v)

    def gauss(self, mu=0.0, sigma=1.0):
        self.trace.append(["gauss", fr(mu), fr(sigma)])
        z = self._next("Gauss", lambda: self.chooser.gauss(mu, sigma))
        return mu + float(z) * sigma

    def shuffle(self, x):
        n = len(x)
        self.trace.append(["shuffle", n])
        p = self._next("Perm", lambda: self.chooser.perm(n))
        if sorted(p) != list(range(n)):
            raise ScriptMismatch("Perm entry %r is not a permutation of range(%d)" % (p, n))
        x[:] = [x[i] for i in p]

    def choice(self, seq):
        n = len(seq)
        if not n:
            raise IndexError("Cannot choose from an empty sequence")
        self.trace.append(["choice", n])
        i = self._next("Index", lambda: self.chooser.index(0, n - 1))
        if not 0 <= i < n:
            raise ScriptMismatch("Index %d outside range(%d)" % (i, n))
        return seq[i]

    def randint(self, a, b):
        self.trace.append(["randint", a, b])
        if a > b:
            raise ValueError("empty range for randint")
        i = self._next("Index", lambda: self.chooser.index(a, b))
        if not a <= i <= b:
            raise ScriptMismatch("Index %d outside [%d, %d]" % (i, a, b))
        return i

    def randrange(self, start, stop=None, step=1):
        if stop is None:
            start, stop = 0, start
        if step != 1:
            raise UnscriptedMethod("randrange with step")
        return self.randint(start, stop - 1)

    def sample(self, population, k, *, counts=None):
        if counts is not None:
            raise UnscriptedMethod("sample with counts")
        n = len(population)
        self.trace.append(["sample", n, k])
        if not 0 <= k <= n:
            raise ValueError("Sample larger than population or is negative")
        s = self._next("Sample", lambda: self.chooser.sample(n, k))
        if len(s) != k or len(set(s)) != k or any(not 0 <= i < n for i in s):
            raise ScriptMismatch("Sample entry %r invalid for n=%d k=%d" % (s, n, k))
        return [population[i] for i in s]

    def uniform(self, a, b):
        self.trace.append(["uniform", fr(a), fr(b)])
        v = self._next("Unit", lambda: self.chooser.unit())
        return a + (b - a) * float(v)


def _poison(name):
    def f(self, *a, **k):
        raise UnscriptedMethod(name)
    f.__name__ = name
    return f


for _m in ("_randbelow", "_randbelow_with_getrandbits", "_randbelow_without_getrandbits", "betavariate",
           "binomialvariate", "choices", "gammavariate", "getrandbits", "lognormvariate", "normalvariate",
           "paretovariate", "randbytes", "triangular", "vonmisesvariate", "weibullvariate"):
    setattr(ScriptedRng, _m, _poison(_m))


class RecordingRng(random.Random):
    """A real Mersenne generator that counts which methods a callee used (real-seed runs)."""

    def __init__(self, seed):
        super().__init__(seed)
        self.calls = {}

    def _c(self, name):
        self.calls[name] = self.calls.get(name, 0) + 1


for _m in ("random", "expovariate", "gauss", "shuffle", "choice", "randint", "randrange", "sample", "uniform"):
    def _mk(name):
        base = getattr(random.Random, name)

        def f(self, *a, **k):
            self._c(name)
            return base(self, *a, **k)
        f.__name__ = name
        return f
    setattr(RecordingRng, _m, _mk(_m))


class Poisoned:
    """Stands in for dendropy.utility.GLOBAL_RNG (and the module-level functions of `random`):
    any attribute access that is a use of the generator is recorded and raises."""

    def __init__(self, where):
        object.__setattr__(self, "_where", where)
        object.__setattr__(self, "touched", [])

    def __getattr__(self, name):
        self.touched.append("%s.%s" % (self._where, name))
        raise GlobalRngTouched("%s.%s" % (self._where, name))


GLOBAL_HOLDERS = (
    "dendropy.utility", "dendropy.model.birthdeath", "dendropy.model.coalescent",
    "dendropy.calculate.probability", "dendropy.datamodel.treemodel._tree",
    "dendropy.model.discrete", "dendropy.model.continuous", "dendropy.simulate.popgensim",
    "dendropy.model.protractedspeciation", "dendropy.calculate.phylogeneticdistance",
)

RANDOM_FUNCS = ("random", "expovariate", "gauss", "shuffle", "choice", "randint", "randrange", "sample",
                "uniform", "getrandbits", "normalvariate", "choices", "betavariate", "gammavariate",
                "triangular", "lognormvariate", "paretovariate", "vonmisesvariate", "weibullvariate", "randbytes")


class poisoned_globals:
    """with poisoned_globals() as p: ...   every module-level binding of GLOBAL_RNG and the
    module-level functions of `random` are replaced by recording, raising stand-ins.
    p.touched lists the uses that happened."""

    def __enter__(self):
        import importlib
        import sys
        self.p = Poisoned("GLOBAL_RNG")
        self.saved = []
        for modname in GLOBAL_HOLDERS:
            try:
                mod = sys.modules.get(modname) or importlib.import_module(modname)
            except Exception:
                continue
            if hasattr(mod, "GLOBAL_RNG"):
                self.saved.append((mod, "GLOBAL_RNG", getattr(mod, "GLOBAL_RNG")))
                setattr(mod, "GLOBAL_RNG", self.p)
        # any other already-imported dendropy module holding its own binding
        for modname, mod in list(sys.modules.items()):
            if modname.startswith("dendropy") and mod is not None and modname not in GLOBAL_HOLDERS:
                g = mod.__dict__.get("GLOBAL_RNG") if hasattr(mod, "__dict__") else None
                if isinstance(g, random.Random):
                    self.saved.append((mod, "GLOBAL_RNG", g))
                    setattr(mod, "GLOBAL_RNG", self.p)
        for fn in RANDOM_FUNCS:
            if hasattr(random, fn):
                self.saved.append((random, fn, getattr(random, fn)))

                def mk(name):
                    def f(*a, **k):
                        self.p.touched.append("random.%s" % name)
                        raise GlobalRngTouched("random.%s" % name)
                    return f
                setattr(random, fn, mk(fn))
        return self.p

    def __exit__(self, *a):
        for mod, name, val in reversed(self.saved):
            setattr(mod, name, val)
        return False
