"""C13 (wave 7) - INTERLEAVED route histories.

The property quantifies over "one source text and one set of options": what a route delivers for a text must not
depend on which OTHER reads are in progress.  A history here keeps two or three readers alive at once - lazy
`Tree.yield_from_files` iterators stepped alternately, and eager reads (TreeList.get / Tree.get / DataSet.get /
TreeList.read) performed between two next() steps - every reader on its OWN document and its OWN namespace.

Observed (implementation only, deliberately naive):
  * per reader, what it delivered (c13.pack: skeleton, rich form, taxon positions in ITS namespace; -1 = a taxon that
    is not a member of it), how it ended; the same reader run ALONE (nothing else alive); for iterators also the
    eager TreeList.get of the same text into an equal namespace;
  * after EVERY step, every reader (not only the one stepped): a digest of every tree it has delivered so far and
    the labels of its namespace;
  * object identities: every NexusTaxonSymbolMapper constructed during the history is recorded (weak reference:
    keeping one alive would keep its namespace locked); at every construction and after every step the `id()` of
    every mutable container attribute of every LIVE mapper (instance and class level) is collected while the mappers
    are held, and attributes whose container is one object in two mappers are reported.
Oracle keys (new, narrow):
  interleaved-iterators:<route>                    a reader delivers something else than when run alone / than its eager twin
  interleaved-iterators:shared-mapper-table        two live symbol mappers hold the same container object
  interleaved-iterators:delivered-tree-changed     a tree delivered earlier changed during a later step of any reader
  interleaved-iterators:foreign-namespace-changed  a step of one reader changed the namespace of another
"""
import collections.abc
import io
import weakref

from dv import core

ROUTE_NAMES = {"yield": "Tree.yield_from_files", "list": "TreeList.get", "tree": "Tree.get", "dataset": "DataSet.get",
               "read": "TreeList.read"}
PREFIX = "interleaved-iterators:"


# ----------------------------------------------------------------------------------------------
# generation
# ----------------------------------------------------------------------------------------------

def gen_numbered_doc(rng, base):
    """NEXUS whose tree statements name their leaves by taxon NUMBER: a TAXA block (or none: the numbers are then
    labels of new taxa and, later, positions), 1-2 TREES blocks, each without a TRANSLATE table, with a complete /
    partial one whose tokens are numbers (identity, shifted or permuted) or with non-numeric tokens"""
    from dv import trees as dvtrees
    pool = rng.choice(base.LABEL_POOLS)
    ntaxa = rng.randint(2, 7)
    labs = pool[:ntaxa]
    feats = {"schema": "nexus", "numbered": True}
    from dendropy.dataio import nexusprocessing

    def esc(s):
        return nexusprocessing.escape_nexus_token(s, preserve_spaces=False, quote_underscores=True)
    doc = "#NEXUS\n"
    has_taxa = rng.random() < 0.85
    feats["taxa_blocks"] = 1 if has_taxa else 0
    if has_taxa:
        doc += "BEGIN TAXA;\n  DIMENSIONS NTAX=%d;\n  TAXLABELS %s;\nEND;\n" % (ntaxa, " ".join(esc(l) for l in labs))
    total = 0
    nblocks = rng.choice([1, 1, 1, 2])
    feats["trees_blocks"] = nblocks
    for _b in range(nblocks):
        doc += "BEGIN TREES;\n"
        token_of = {l: "%d" % (i + 1) for i, l in enumerate(labs)}         # by number
        r = rng.random()
        if r < 0.45:
            feats["numeric_refs"] = True
        else:
            k = ntaxa if r < 0.7 else rng.randint(1, ntaxa)
            order = list(range(ntaxa))
            style = rng.choice(["identity", "permuted", "shifted", "names"])
            if style == "permuted":
                rng.shuffle(order)
            chosen = order[:k]
            if style == "names":
                names = ["tk%d" % i for i in range(k)]
            elif style == "shifted":
                names = ["%d" % (i + 2) for i in range(k)]
            else:
                names = ["%d" % (i + 1) for i in range(k)]
            table = {labs[t]: nm for t, nm in zip(chosen, names)}
            used = set(names)
            # leaves outside the table: by number when that number is not a token of the table, else by label
            token_of = {}
            for i, l in enumerate(labs):
                if l in table:
                    token_of[l] = table[l]
                elif has_taxa and ("%d" % (i + 1)) not in used and rng.random() < 0.7:
                    token_of[l] = "%d" % (i + 1)
                    feats["numeric_refs"] = True
            doc += "  TRANSLATE\n" + ",\n".join("    %s %s" % (nm, esc(labs[t])) for t, nm in zip(chosen, names)) + ";\n"
            feats["translate"] = True
            feats["translate_" + style] = True
        ntrees = rng.choice([1, 2, 2, 3, 3, 4, 5])
        for i in range(ntrees):
            nl = rng.randint(2, ntaxa)
            t = dvtrees.gen_tree(rng, nl, lengths=rng.choice(["dyadic", "none"]), taxa=rng.sample(range(ntaxa), nl))
            body = base.spec_newick(rng, t, labs, token_of)
            total += 1
            doc += "  TREE t%d = %s%s;\n" % (total, rng.choice(["", "", "[&R] ", "[&U] "]), body)
        doc += "END;\n"
    feats["nstmts"] = total
    return doc, feats


def gen_reader(rng, base, lazy=None):
    r = rng.random()
    if r < 0.6:
        doc, feats = gen_numbered_doc(rng, base)
        schema = "nexus"
    elif r < 0.8:
        doc, feats = base.gen_nexus_doc(rng)
        schema = "nexus"
    else:
        doc, feats = base.gen_newick_doc(rng)
        schema = "newick"
    if lazy is None:
        lazy = rng.random() < 0.7
    route = "yield" if lazy else rng.choice(["list", "list", "tree", "dataset", "read"])
    ns0 = []
    if rng.random() < 0.35:
        ns0 = rng.sample(rng.choice(base.LABEL_POOLS), rng.randint(1, 4))
    kw = {}
    if rng.random() < 0.25:
        kw["rooting"] = rng.choice(["default-rooted", "force-unrooted"])
    if rng.random() < 0.2:
        kw["store_tree_weights"] = True
    if rng.random() < 0.1:
        kw["preserve_underscores"] = True
    if schema == "nexus" and route == "yield" and rng.random() < 0.1:
        schema = "nexus/newick"
    return {"schema": schema, "doc": doc, "feats": feats, "route": route, "ns0": ns0, "kw": kw}


def gen_case(rng, base):
    n = rng.choice([2, 2, 2, 3])
    readers = [gen_reader(rng, base, lazy=True if i == 0 else None) for i in range(n)]
    steps = sum(max(1, r["feats"].get("nstmts", 1)) + 1 if r["route"] == "yield" else 1 for r in readers)
    style = rng.choice(["alternate", "random", "random", "bursts"])
    if style == "alternate":
        schedule = [i % n for i in range(steps + n)]
    elif style == "bursts":
        schedule = []
        while len(schedule) < steps + n:
            schedule.extend([rng.randrange(n)] * rng.randint(1, 3))
    else:
        schedule = [rng.randrange(n) for _ in range(steps + n)]
    feats = {"schema": "interleaved", "nstmts": sum(r["feats"].get("nstmts", 0) for r in readers), "style": style}
    return {"kind": "interleaved", "schema": "interleaved", "readers": readers, "schedule": schedule, "feats": feats,
            "doc": "\n-----\n".join(r["doc"] for r in readers)}


NUMBERED_5 = ("#NEXUS\nBEGIN TAXA;\n  DIMENSIONS NTAX=5;\n  TAXLABELS delta charlie bravo alpha echo;\nEND;\nBEGIN TREES;\n"
              "  TREE t1 = [&R] ((1:1,2:2):1,(3:3,(4:4,5:5):1):1);\n  TREE t2 = [&R] ((1:1,3:2):1,(2:3,(5:4,4:5):1):1);\n"
              "  TREE t3 = [&U] (5:1,(4:2,3:3):1,(2:4,1:5):2);\nEND;\n")
NUMBERED_4 = ("#NEXUS\nBEGIN TAXA;\n  DIMENSIONS NTAX=4;\n  TAXLABELS p q r s;\nEND;\nBEGIN TREES;\n  TREE o1 = (1,(2,(3,4)));\n"
              "  TREE o2 = (4,(3,(2,1)));\n  TREE o3 = ((1,4),(2,3));\nEND;\n")
PARTIAL_TRANSLATE = ("#NEXUS\nBEGIN TAXA;\n  DIMENSIONS NTAX=4;\n  TAXLABELS a b c d;\nEND;\nBEGIN TREES;\n  TRANSLATE 1 b, 2 a;\n"
                     "  TREE x1 = ((1,2),(3,4));\n  TREE x2 = ((4,1),(3,2));\n  TREE x3 = (3,(4,(2,1)));\nEND;\n")


def fixed_cases():
    """number-named leaves with / without TRANSLATE: two iterators stepped alternately; an iterator with eager reads
    (Newick, NEXUS) between its steps; three readers"""
    def rd(doc, route, schema="nexus", ns0=()):
        return {"schema": schema, "doc": doc, "feats": {"schema": schema, "nstmts": doc.count("TREE ") or doc.count(";"),
                                                        "numbered": "(1" in doc or ",1" in doc},
                "route": route, "ns0": list(ns0), "kw": {}}
    hist = [
        ([rd(NUMBERED_5, "yield"), rd(NUMBERED_4, "yield")], [0, 1, 0, 1, 0, 1]),
        ([rd(NUMBERED_5, "yield"), rd("((w,x),(y,z));", "tree", "newick")], [0, 1, 0, 0]),
        ([rd(NUMBERED_5, "yield"), rd(NUMBERED_4, "list")], [0, 0, 1, 0]),
        ([rd(PARTIAL_TRANSLATE, "yield"), rd(NUMBERED_5, "yield"), rd(NUMBERED_4, "dataset")], [0, 1, 2, 0, 1, 0, 1]),
        ([rd(NUMBERED_4, "yield", ns0=["zz"]), rd(PARTIAL_TRANSLATE, "read")], [0, 1, 0, 0]),
        ([rd(NUMBERED_5, "yield", "nexus/newick"), rd("(a,b);(1,2);(2,c);", "yield", "newick")], [0, 1, 1, 0, 1, 0]),
    ]
    out = []
    for readers, schedule in hist:
        out.append({"kind": "interleaved", "schema": "interleaved", "readers": readers, "schedule": schedule,
                    "feats": {"schema": "interleaved", "nstmts": sum(r["feats"]["nstmts"] for r in readers), "style": "fixed"},
                    "doc": "\n-----\n".join(r["doc"] for r in readers)})
    return out


# ----------------------------------------------------------------------------------------------
# implementation side
# ----------------------------------------------------------------------------------------------

MUTABLE = (dict, list, set, bytearray, collections.abc.MutableMapping, collections.abc.MutableSequence,
           collections.abc.MutableSet)


def container_ids(m):
    """{attribute name: id(container)} of every mutable-container attribute reachable as m.<name> (instance or class)"""
    names = set(vars(m))
    for k in type(m).__mro__:
        if k is not object:
            names.update(n for n, v in vars(k).items() if isinstance(v, MUTABLE))
    out = {}
    for n in names:
        try:
            v = getattr(m, n)
        except Exception:
            continue
        if isinstance(v, MUTABLE):
            out[n] = id(v)
    return out


class MapperWatch:
    """records (weakly) every NexusTaxonSymbolMapper constructed while active"""

    def __init__(self):
        self.refs = []
        self.shared = []          # attribute names found shared between two live mappers
        self.created = 0

    def __enter__(self):
        from dendropy.dataio import nexusprocessing
        self.cls = nexusprocessing.NexusTaxonSymbolMapper
        self.orig = self.cls.__dict__.get("__init__")
        watch, orig = self, self.orig

        def __init__(obj, *a, **k):
            orig(obj, *a, **k)
            watch.refs.append(weakref.ref(obj))
            watch.created += 1
            watch.check()
        __init__.__wrapped__ = orig
        self.cls.__init__ = __init__
        return self

    def __exit__(self, *exc):
        self.cls.__init__ = self.orig
        return False

    def check(self):
        live = [m for m in (r() for r in self.refs) if m is not None]      # held while their ids are compared
        self.refs = [r for r in self.refs if r() is not None]
        seen = {}
        for i, m in enumerate(live):
            for name, ident in container_ids(m).items():
                if ident in seen and seen[ident][0] != i:
                    tag = name if name == seen[ident][1] else "%s/%s" % (seen[ident][1], name)
                    if tag not in self.shared:
                        self.shared.append(tag)
                else:
                    seen.setdefault(ident, (i, name))
        n = len(live)
        del live
        return n


def err_obs(e):
    return {"err": core.exc_enum(e), "msg": "%s: %s" % (type(e).__name__, str(e)[:150])}


class Reader:
    def __init__(self, spec, base):
        import dendropy
        self.spec, self.base = spec, base
        self.ns = dendropy.TaxonNamespace()
        for l in spec["ns0"]:
            self.ns.new_taxon(l)
        self.trees = []
        self.end = None            # None: still running; "done"; or an error observation
        self.extra = None
        self.it = None
        self.first = {}            # tree position -> digest when delivered

    def start(self):
        import dendropy
        s = self.spec
        if s["route"] == "yield":
            self.it = iter(dendropy.Tree.yield_from_files([io.StringIO(s["doc"])], s["schema"], taxon_namespace=self.ns, **s["kw"]))

    def step(self):
        """one next() of a lazy reader; the whole read of an eager one"""
        import dendropy
        if self.end is not None:
            return
        s = self.spec
        try:
            with core.alarm(self.base.ALARM_S):
                if s["route"] == "yield":
                    if self.it is None:
                        self.start()
                    try:
                        self.trees.append(next(self.it))
                    except StopIteration:
                        self.end = "done"
                    return
                if s["route"] == "list":
                    self.trees = list(dendropy.TreeList.get(data=s["doc"], schema=s["schema"], taxon_namespace=self.ns, **s["kw"]))
                elif s["route"] == "tree":
                    t = dendropy.Tree.get(data=s["doc"], schema=s["schema"], taxon_namespace=self.ns, **s["kw"])
                    self.trees = [] if t is None else [t]
                elif s["route"] == "read":
                    tl = dendropy.TreeList(taxon_namespace=self.ns)
                    self.extra = tl.read(data=s["doc"], schema=s["schema"], **s["kw"])
                    self.trees = list(tl)
                else:
                    kw = dict(s["kw"])
                    if s["schema"] == "nexus":
                        kw["exclude_chars"] = True
                    ds = dendropy.DataSet.get(data=s["doc"], schema=s["schema"], taxon_namespace=self.ns, **kw)
                    self.trees = [t for tl in ds.tree_lists for t in tl]
                    self.extra = [len(tl) for tl in ds.tree_lists]
                self.end = "done"
        except Exception as e:
            self.end = err_obs(e)

    def digest(self):
        idx = {id(t): i for i, t in enumerate(self.ns)}
        out = []
        for t in self.trees:
            out.append([t.label, t.is_rooted,
                        [[idx.get(id(n.taxon), -1) if n.taxon is not None else None, None if n.taxon is None else n.taxon.label,
                          n.label, None if n.edge.length is None else repr(n.edge.length), len(n.child_nodes())]
                         for n in t.preorder_node_iter()]])
        return out

    def result(self):
        r = self.base.pack(self.trees, self.ns)
        r["end"] = None if self.end in (None, "done") else self.end
        r["extra"] = self.extra
        return r


def run_alone(spec, base, route=None):
    """the reader with nothing else alive"""
    if route is not None:
        spec = dict(spec, route=route)
        if route != "yield" and spec["schema"] == "nexus/newick":
            spec["schema"] = "nexus"
    R = Reader(spec, base)
    guard = 0
    while R.end is None and guard < 200:
        R.step()
        guard += 1
    r = R.result()
    if R.end is None:
        r["end"] = {"err": "Hang", "msg": "does not finish"}
    return r


def observe(case, base):
    readers = [Reader(s, base) for s in case["readers"]]
    obs = {"readers": [], "changed": [], "foreign_ns": [], "shared": [], "max_live": 0, "steps": 0}
    with MapperWatch() as watch:
        for R in readers:
            R.start()
        schedule = list(case["schedule"])
        # afterwards drain what is still running, round robin
        for _ in range(60):
            schedule.extend(range(len(readers)))
        before_ns = [[t.label for t in R.ns] for R in readers]
        for i in schedule:
            if all(R.end is not None for R in readers):
                break
            if readers[i].end is not None:
                continue
            readers[i].step()
            obs["steps"] += 1
            obs["max_live"] = max(obs["max_live"], watch.check())
            # re-observe EVERY reader
            for j, R in enumerate(readers):
                d = R.digest()
                for pos, td in enumerate(d):
                    if pos not in R.first:
                        R.first[pos] = td
                    elif R.first[pos] != td and [j, pos] not in obs["changed"]:
                        obs["changed"].append([j, pos])
                labels = [t.label for t in R.ns]
                if j != i and labels != before_ns[j]:
                    obs["foreign_ns"].append([i, j, before_ns[j], labels])
                before_ns[j] = labels
        obs["shared"] = list(watch.shared)
        obs["mappers"] = watch.created
        for R in readers:
            r = R.result()
            if R.end is None:
                r["end"] = {"err": "Hang", "msg": "does not finish"}
            obs["readers"].append({"got": r})
    del readers
    for s, o in zip(case["readers"], obs["readers"]):
        o["alone"] = run_alone(s, base)
        o["eager"] = run_alone(s, base, route="list") if s["route"] == "yield" else None
    return obs


# ----------------------------------------------------------------------------------------------
# oracle
# ----------------------------------------------------------------------------------------------

def same(a, b, base, with_extra=True):
    a, b = base.strip_msgs(a), base.strip_msgs(b)
    if not with_extra:
        a = {k: v for k, v in a.items() if k not in ("extra", "end")}
        b = {k: v for k, v in b.items() if k not in ("extra", "end")}
    return a == b


def oracle_all(case, obs, base):
    out = []
    ctxt = "; schedule %s; documents: %r" % (case["schedule"][:24], [r["doc"][:300] for r in case["readers"]])
    for i, (s, o) in enumerate(zip(case["readers"], obs["readers"])):
        route = ROUTE_NAMES[s["route"]]
        got, alone, eager = o["got"], o["alone"], o["eager"]
        others = ", ".join("%s of document %d" % (ROUTE_NAMES[x["route"]], j) for j, x in enumerate(case["readers"]) if j != i)
        if not same(got, alone, base):
            a, b = base.first_diff(got, alone)
            out.append(("%s of document %d (schema %s, options %s, namespace pre-populated with %s), stepped while %s are in progress, "
                        "delivers %s; run alone it delivers %s%s" % (route, i, s["schema"], s["kw"], s["ns0"], others, a, b, ctxt),
                        PREFIX + route))
        elif eager is not None and alone["end"] is None and eager["end"] is None and same(alone, eager, base, False) \
                and not same(got, eager, base, False):
            a, b = base.first_diff(got, eager)
            out.append(("%s of document %d, stepped while %s are in progress, delivers %s; TreeList.get of the same text into an equal "
                        "namespace delivers %s%s" % (route, i, others, a, b, ctxt), PREFIX + route))
    if obs["shared"]:
        out.append(("two live NexusTaxonSymbolMapper objects hold the SAME container object in attribute(s) %s: a read in progress "
                     "and any other read write one table%s" % (sorted(obs["shared"]), ctxt), PREFIX + "shared-mapper-table"))
    if obs["changed"]:
        out.append(("trees delivered earlier changed during a later step (reader, position) %s%s" % (obs["changed"][:5], ctxt),
                    PREFIX + "delivered-tree-changed"))
    if obs["foreign_ns"]:
        i, j, a, b = obs["foreign_ns"][0]
        out.append(("a step of reader %d changed the namespace of reader %d from %s to %s%s" % (i, j, a, b, ctxt),
                    PREFIX + "foreign-namespace-changed"))
    return out


def count_case(ctx, case, obs):
    ctx.count("schema:interleaved")
    ctx.count("interleaved readers:%d" % len(case["readers"]))
    ctx.count("interleaved routes:%s" % "+".join(sorted(r["route"] for r in case["readers"])))
    ctx.count("interleaved live mappers (max):%d" % min(obs["max_live"], 4))
    for r in case["readers"]:
        for k in ("numbered", "numeric_refs", "translate"):
            if r["feats"].get(k):
                ctx.count("interleaved feature:" + k)
    for o in obs["readers"]:
        ctx.count("interleaved outcome:%s" % (o["got"]["end"]["err"] if o["got"]["end"] else "ok"))
