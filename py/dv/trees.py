"""Shared tree utilities for the harnesses: generation, construction of dendropy trees with
harness node ids, canonical dumps, Coq terms (Model/Tree.v `tree`).

A spec tree is a dict {"id": int, "taxon": int|None, "label": int|None, "len": int|None, "kids": [..]}
`len` is an integer number of UNIT = 2**-10 length units (so binary64 +,- are exact); the dendropy
edge length is len * UNIT as a float (or None).  `taxon` indexes the case's taxon list (the
namespace is created by the harness; the accession index of taxon k is given by the case).
"""
import random

from dv.core import cz, clist, copt

UNIT = 2.0 ** -10


def gen_tree(rng, nleaves, shape=None, lengths="dyadic", unifurcations=0.0, taxa=None, internal_labels=0.0):
    """Random rose tree with `nleaves` leaves. shape in binary|poly|star|caterpillar|mixed."""
    shape = shape or rng.choice(["binary", "poly", "mixed", "caterpillar", "star", "mixed"])
    counter = [0]

    def fresh():
        counter[0] += 1
        return counter[0] - 1

    def length():
        if lengths == "none":
            return None
        if lengths == "unit":
            return 1024
        if lengths == "int":
            return 1024 * rng.randint(0, 4)
        if lengths == "mixed":
            return None if rng.random() < 0.3 else rng.choice([0, 512, 1024, 1536, 2048, 3072])
        if lengths == "positive":
            return rng.choice([256, 512, 1024, 1536, 2048, 3072, 5120])
        return rng.choice([0, 256, 512, 1024, 1024, 1536, 2048, 3072, 5120])

    def build(n):
        if n == 1:
            nd = {"id": fresh(), "taxon": None, "label": None, "len": length(), "kids": []}
        else:
            if shape == "star":
                parts = [1] * n
            elif shape == "caterpillar":
                parts = [1, n - 1]
                if rng.random() < 0.5:
                    parts.reverse()
            elif shape == "binary":
                k = rng.randint(1, n - 1)
                parts = [k, n - k]
            else:
                maxk = n if shape == "poly" else min(n, 4)
                k = rng.randint(2, max(2, maxk))
                cuts = sorted(rng.sample(range(1, n), k - 1))
                parts = [b - a for a, b in zip([0] + cuts, cuts + [n])]
            nd = {"id": fresh(), "taxon": None, "label": None, "len": length(), "kids": []}
            for p in parts:
                nd["kids"].append(build(p))
            if internal_labels and rng.random() < internal_labels:
                nd["label"] = rng.randrange(50)
        if unifurcations and rng.random() < unifurcations:
            nd = {"id": fresh(), "taxon": None, "label": None, "len": length(), "kids": [nd]}
        return nd

    t = build(nleaves)
    # renumber ids in preorder
    for i, nd in enumerate(preorder(t)):
        nd["id"] = i
    lv = leaves(t)
    if taxa is None:
        taxa = list(range(len(lv)))
        rng.shuffle(taxa)
    for nd, x in zip(lv, taxa):
        nd["taxon"] = x
    return t


def preorder(t):
    out = [t]
    for k in t["kids"]:
        out.extend(preorder(k))
    return out


def postorder(t):
    out = []
    for k in t["kids"]:
        out.extend(postorder(k))
    out.append(t)
    return out


def leaves(t):
    return [n for n in preorder(t) if not n["kids"]]


def all_shapes(nleaves):
    """every rose-tree shape (ordered, no unifurcations) with n leaves: nested lists, leaf = []"""
    if nleaves == 1:
        yield []
        return

    def comps(n, first=True):
        # ordered compositions of n into >=2 parts (top level) or >=1 (rest)
        if n == 0:
            yield []
            return
        for a in range(1, n + 1):
            for rest in comps(n - a, False):
                yield [a] + rest

    import itertools
    for parts in comps(nleaves):
        if len(parts) < 2:
            continue
        for combo in itertools.product(*[list(all_shapes(p)) for p in parts]):
            yield list(combo)


def shape_to_tree(shape, lengths=None, rng=None):
    counter = [0]

    def build(s):
        nd = {"id": counter[0], "taxon": None, "label": None,
              "len": (lengths(rng) if lengths else None), "kids": []}
        counter[0] += 1
        nd["kids"] = [build(k) for k in s]
        return nd
    t = build(shape)
    for i, lf in enumerate(leaves(t)):
        lf["taxon"] = i
    return t


class Built:
    """A dendropy Tree built from a spec tree, with the id bookkeeping."""
    pass


def build_dendropy(spec, taxon_objs, is_rooted=None, namespace=None, label_pool=None):
    """Construct a dendropy Tree mirroring `spec`.  taxon_objs[k] is the Taxon for taxon index k.
    Every Node gets attribute _dv_id = spec id.  Returns (tree, nodes_by_id)."""
    import dendropy
    tree = dendropy.Tree(taxon_namespace=namespace)
    by_id = {}

    def mk(s, node):
        node._dv_id = s["id"]
        by_id[s["id"]] = node
        if s["taxon"] is not None:
            node.taxon = taxon_objs[s["taxon"]]
        if s["label"] is not None:
            node.label = (label_pool[s["label"]] if label_pool else "L%d" % s["label"])
        node.edge.length = None if s["len"] is None else s["len"] * UNIT
        for k in s["kids"]:
            ch = dendropy.Node()
            node.add_child(ch)
            mk(k, ch)

    mk(spec, tree.seed_node)
    tree.is_rooted = is_rooted
    return tree, by_id


class IdAlloc:
    """names nodes that the library created itself (no _dv_id) by order of first sight"""
    def __init__(self, start):
        self.next = start
        self.keep = []

    def of(self, node):
        i = getattr(node, "_dv_id", None)
        if i is None:
            i = self.next
            self.next += 1
            node._dv_id = i
            self.keep.append(node)
        return i


def len_units(x):
    """float edge length -> integer units (exact) or raises"""
    if x is None:
        return None
    u = x / UNIT
    if u != int(u):
        raise ValueError("edge length %r is not a multiple of the dyadic unit" % (x,))
    return int(u)


def dump_dendropy(tree, taxon_index, alloc=None, label_index=None, start=None, max_nodes=100000):
    """Walk the child pointers from the seed and return (spec_tree, problems).

    problems lists pointer-level ill-formedness found on the way (the C03 oracle): a node reached
    twice, parent pointer mismatch, edge head/tail mismatch, seed with a parent."""
    problems = []
    seen = set()
    alloc = alloc or IdAlloc(10 ** 6)
    root = start if start is not None else tree.seed_node
    if start is None and root._parent_node is not None:
        problems.append("seed node has a parent")
    count = [0]

    def walk(node, parent):
        count[0] += 1
        if count[0] > max_nodes:
            raise RecursionError("tree walk exceeds %d nodes (cycle?)" % max_nodes)
        i = alloc.of(node)
        if id(node) in seen:
            problems.append("node %d reached twice (shared or cyclic)" % i)
            return {"id": i, "taxon": None, "label": None, "len": None, "kids": []}
        seen.add(id(node))
        if parent is not None and node._parent_node is not parent:
            problems.append("node %d: parent pointer does not point to the node listing it as child" % i)
        if node.edge.head_node is not node:
            problems.append("node %d: edge.head_node is not the node" % i)
        if node.edge.tail_node is not node._parent_node:
            problems.append("node %d: edge.tail_node is not the parent" % i)
        tx = None
        if node.taxon is not None:
            tx = taxon_index.get(id(node.taxon), -1)
        lb = None
        if node.label is not None:
            lb = label_index(node.label) if label_index else -1
        return {"id": i, "taxon": tx, "label": lb, "len": len_units(node.edge.length),
                "kids": [walk(c, node) for c in list(node._child_nodes)]}

    spec = walk(root, None if start is None else root._parent_node)
    return spec, problems


def c_tree(t):
    return "(T %s %s %s %s %s)" % (cz(t["id"]), copt(t["taxon"], cz), copt(t["label"], cz),
                                  copt(t["len"], cz), clist([c_tree(k) for k in t["kids"]]))


def newick(t, with_len=True):
    def f(n):
        s = ""
        if n["kids"]:
            s = "(" + ",".join(f(k) for k in n["kids"]) + ")"
        s += ("t%d" % n["taxon"]) if n["taxon"] is not None else ""
        if with_len and n["len"] is not None:
            s += ":%r" % (n["len"] * UNIT)
        return s
    return f(t) + ";"


def make_namespace(ntaxa, rng=None, holes=0, extra=0, sort=False):
    """TaxonNamespace with ntaxa members named t0..; `holes` taxa were created and removed in between
    (vacated accession indices); `extra` members not used by any tree; returns (ns, taxon_objs)."""
    import dendropy
    ns = dendropy.TaxonNamespace()
    objs = []
    total = ntaxa + extra
    hole_at = set()
    if rng and holes:
        hole_at = set(rng.sample(range(total + holes), holes))
    k = 0
    pos = 0
    while k < total:
        if pos in hole_at:
            t = ns.new_taxon("hole%d" % pos)
            ns.remove_taxon(t)
        else:
            objs.append(ns.new_taxon("t%d" % k))
            k += 1
        pos += 1
    if sort and rng:
        ns.sort(reverse=rng.random() < 0.5)
    return ns, objs
