"""C05 harness, wave 5: two history shapes that the single-array op histories of c05.py do not reach,
run on the real library against an independent, deliberately naive oracle.

1. MERGE histories (aliasing between distributions).  Build two collections with different edge
   lengths (ta1, ta2 / their SplitDistributions), take the frequencies and the edge-length /
   node-age summaries of both, merge them in one of the forms
       pooled = ta1 + ta2          ta3 += ta1; ta3 += ta2          ta3.update(ta1); ta3.update(ta2)
       sd3.update(sd1); sd3.update(sd2)
   optionally count one more tree into the result, then re-take the summaries of the SOURCES and of
   the result.  Oracle clauses:
     * a merge leaves its argument distributions' frequencies, edge-length and node-age summaries
       unchanged (bit-for-bit: the same lists are summarised again)      key merge-mutates-source
     * the result reports exactly what a fresh collection filled with all the trees reports
       (frequencies within 1e-12, summaries within 1e-9 relative)        key merge-result-differs
2. MAXIMUM-CREDIBILITY trees: maximum_product_of_split_support_tree / maximum_sum_of_split_support_tree
   on an array; every node of the returned tree must carry the frequency (x100 with percentages) of
   its own clade among the array's trees, the score attribute must be the maximum of the score list the
   array reports, attained first at the tree whose clades the returned tree has.
                                 keys mcc-rooted-support-normalized-split, mcc-support, mcc-not-argmax
"""
from fractions import Fraction

from dv import trees

MERGE_FORMS = ["add", "iadd", "ta_update", "sd_update"]


def _lens(rng, t, scale):
    for n in trees.preorder(t):
        n["len"] = scale * rng.choice([256, 512, 1024, 1536, 2048, 3072])
    t["len"] = None


def gen_merge_case(rng):
    import copy
    from dv import c05
    ntax = rng.randint(4, 7)
    ages = rng.random() < 0.35
    rooting = True if ages else rng.choice([True, True, False, None])
    shapes = [trees.gen_tree(rng, ntax, shape=rng.choice(["binary", "mixed", "caterpillar"]), lengths="positive")
              for _ in range(rng.randint(1, 2))]

    def group(scale, n):
        out = []
        for _ in range(n):
            t = copy.deepcopy(rng.choice(shapes))
            _lens(rng, t, scale)
            if ages:
                c05.make_ultrametric(rng, t)
                for nd in trees.preorder(t):
                    if nd["len"] is not None:
                        nd["len"] *= scale
            out.append(t)
        return out
    return {"kind": "merge", "ntax": ntax, "rooting": rooting, "ages": ages,
            "form": rng.choice(MERGE_FORMS), "trees1": group(1, rng.randint(1, 4)), "trees2": group(8, rng.randint(1, 4)),
            "extra": group(64, 1) if rng.random() < 0.6 else [],
            "ignore_len": rng.random() < 0.1}


def gen_mcc_case(rng):
    import copy
    ntax = rng.randint(4, 8)
    rooting = rng.choice([True, True, False, None])
    shapes = [trees.gen_tree(rng, ntax, shape=rng.choice(["binary", "mixed", "caterpillar", "poly"]), lengths="positive")
              for _ in range(rng.randint(1, 3))]
    ts = [copy.deepcopy(rng.choice(shapes)) for _ in range(rng.randint(1, 6))]
    return {"kind": "mcc", "ntax": ntax, "rooting": rooting, "trees": ts, "product": rng.random() < 0.5,
            "percent": rng.random() < 0.3, "ext": rng.random() < 0.3}


def fixed_cases():
    """the witnesses of the two known repairs/seeds, always run"""
    def leaf(i, l):
        return {"id": 100 + i, "taxon": i, "label": None, "len": l, "kids": []}

    def node(i, l, kids):
        return {"id": i, "taxon": None, "label": None, "len": l, "kids": kids}
    # (((a,b),c),(d,e)) x3, rooted: clade {a,b} has frequency 1
    t = node(0, None, [node(1, 1024, [node(2, 1024, [leaf(0, 1024), leaf(1, 1024)]), leaf(2, 2048)]),
                       node(3, 2048, [leaf(3, 1024), leaf(4, 1024)])])
    import copy
    mcc = {"kind": "mcc", "ntax": 5, "rooting": True, "trees": [copy.deepcopy(t) for _ in range(3)], "product": True,
           "percent": False, "ext": False}
    t2 = copy.deepcopy(t)
    for n in trees.preorder(t2):
        if n["len"] is not None:
            n["len"] *= 8
    out = [mcc, dict(mcc, product=False)]
    for form in MERGE_FORMS:
        out.append({"kind": "merge", "ntax": 5, "rooting": True, "ages": False, "form": form,
                    "trees1": [copy.deepcopy(t), copy.deepcopy(t)], "trees2": [copy.deepcopy(t2)], "extra": [],
                    "ignore_len": False})
    return out


# ------------------------------------------------------------------------------------------------
# running on the library
# ------------------------------------------------------------------------------------------------
def _hexf(x):
    if x is None:
        return None
    if isinstance(x, complex):
        return "complex"
    if isinstance(x, (list, tuple)):
        return [_hexf(y) for y in x]
    return float(x).hex()


def digest(sd):
    """frequencies and the exact summaries of one SplitDistribution (reads only)"""
    out = {"freq": sorted([int(s), _hexf(f)] for s, f in sd.split_frequencies.items())}
    for name, table in (("len", sd.split_edge_length_summaries), ("age", sd.split_node_age_summaries)):
        rows = []
        for s, sm in (table or {}).items():
            rows.append([int(s), _hexf(sm.get("mean")), _hexf(sm.get("median")), _hexf(sm.get("range")),
                         _hexf(sm.get("var") if "var" in sm else None)])
        out[name] = sorted(rows)
    return out


class World:
    def __init__(self, case):
        import dendropy
        self.dp = dendropy
        self.case = case
        self.ns = dendropy.TaxonNamespace()
        self.taxa = [self.ns.new_taxon("t%d" % i) for i in range(case["ntax"])]
        self.bit = [self.ns.taxon_bitmask(t) for t in self.taxa]

    def tree(self, spec):
        t, _ = trees.build_dendropy(spec, self.taxa, is_rooted=self.case["rooting"], namespace=self.ns)
        return t

    def array(self, specs, **kw):
        from dendropy.datamodel.treecollectionmodel import TreeArray
        a = TreeArray(taxon_namespace=self.ns, ignore_edge_lengths=self.case.get("ignore_len", False),
                      ignore_node_ages=not self.case.get("ages", False), **kw)
        for s in specs:
            a.add_tree(self.tree(s))
        return a


def observe_merge(case):
    from dendropy.datamodel.treecollectionmodel import TreeArray, SplitDistribution
    w = World(case)
    ta1, ta2 = w.array(case["trees1"]), w.array(case["trees2"])
    sd1, sd2 = ta1.split_distribution, ta2.split_distribution
    before = [digest(sd1), digest(sd2)]
    form = case["form"]
    kw = dict(taxon_namespace=w.ns, ignore_edge_lengths=case.get("ignore_len", False), ignore_node_ages=not case["ages"])
    if form == "add":
        res = ta1 + ta2
    elif form == "iadd":
        res = TreeArray(**kw)
        res += ta1
        res += ta2
    elif form == "ta_update":
        res = TreeArray(**kw)
        res.update(ta1)
        res.update(ta2)
    else:
        res = SplitDistribution(**kw)
        res.update(sd1)
        res.update(sd2)
    for s in case["extra"]:
        if form == "sd_update":
            res.count_splits_on_tree(w.tree(s), is_bipartitions_updated=False, default_edge_length_value=0)
        else:
            res.add_tree(w.tree(s))
    after = [digest(sd1), digest(sd2)]
    res_sd = res if form == "sd_update" else res.split_distribution
    fresh = w.array(case["trees1"] + case["trees2"] + case["extra"])
    return {"before": before, "after": after, "result": digest(res_sd), "fresh": digest(fresh.split_distribution),
            "recs": {k: [encoded_records(w, s, case["ages"]) for s in case[k]] for k in ("trees1", "trees2", "extra")}}


def encoded_records(w, spec, ages):
    """the bipartition records of a tree AS ENCODED by the library (input of the Coq model)"""
    t = w.tree(spec)
    if ages:
        t.calc_node_ages(ultrametricity_precision=0.0000001)
    t.encode_bipartitions()
    edge_of = {id(e.bipartition): e for e in t.postorder_edge_iter()}
    recs = []
    for b in t.bipartition_encoding:
        e = edge_of[id(b)]
        recs.append([int(b.split_bitmask), None if e.length is None else float(e.length).hex(),
                     float(e.head_node.age).hex() if ages and e.head_node.age is not None else None])
    return {"recs": recs, "leafset": int(t.seed_node.edge.bipartition.leafset_bitmask)}


# ---- Coq terms for the object-level merge model (coq/Model/C05Merge.v, mcase_ok)
MERGE_HEADER = ("From DV Require Import Model.PyPrims Model.C05Model Model.C05Merge.\n"
                "From Coq Require Import ZArith QArith. Open Scope Z_scope.")


def _cq(h):
    from dv.core import cq
    return cq(Fraction(float.fromhex(h)))


def _oq(h):
    return "None" if h is None else "(Some %s)" % _cq(h)


def merge_representable(obs):
    def bad(x):
        if isinstance(x, str):
            return x == "complex" or x in ("inf", "-inf", "nan")
        if isinstance(x, list):
            return any(bad(y) for y in x)
        return False
    for d in obs["before"] + obs["after"] + [obs["result"], obs["fresh"]]:
        for name in ("len", "age"):
            for row in d[name]:
                if row[1] is None or row[2] is None or row[3] is None or bad(row[:4]):
                    return False
                if row[4] is not None and row[4] != "inf" and (bad(row[4]) or float.fromhex(row[4]) != float.fromhex(row[4])):
                    return False
    return True


def _c_digest(d):
    from dv.core import cz, clist
    freq = clist(["(%s, %s)" % (cz(s), _cq(f)) for s, f in d["freq"]])

    def rows(rs):
        out = []
        for s, mean, med, rng_, var in rs:
            v = "None" if (var is None or float.fromhex(var) == float("inf")) else "(Some %s)" % _cq(var)
            out.append("(%s, mkSum %s %s %s %s %s)" % (cz(s), _cq(mean), v, _cq(med), _cq(rng_[0]), _cq(rng_[1])))
        return clist(out)
    return "(mkDg %s %s %s)" % (freq, rows(d["len"]), rows(d["age"]))


def merge_to_coq(case, obs):
    from dv.core import cz, cbool, clist

    def trees(k):
        out = []
        for o in obs["recs"][k]:
            recs = clist(["(mkRec %s %s %s)" % (cz(s), _oq(l), _oq(a)) for s, l, a in o["recs"]])
            out.append("(mkTree %s None %s %s)" % (recs, "None" if case["rooting"] is None else "(Some %s)" % cbool(case["rooting"]),
                                                  cz(o["leafset"])))
        return clist(out)
    # the collections of the harness are TreeArrays: their distribution counts with default_edge_length_value 0
    cfg = "(mkCfg %s %s true (Some 0%%Q))" % (cbool(case.get("ignore_len", False)), cbool(not case["ages"]))
    return "(mkMcase %s %s %s %s (%s, %s) (%s, %s) %s %s)" % (
        cfg, trees("trees1"), trees("trees2"), trees("extra"),
        _c_digest(obs["before"][0]), _c_digest(obs["before"][1]), _c_digest(obs["after"][0]), _c_digest(obs["after"][1]),
        _c_digest(obs["result"]), _c_digest(obs["fresh"]))


def _close_hex(a, b, rel):
    if a is None or b is None or isinstance(a, str) and a == "complex":
        return a == b
    if isinstance(a, list):
        return isinstance(b, list) and len(a) == len(b) and all(_close_hex(x, y, rel) for x, y in zip(a, b))
    x, y = float.fromhex(a), float.fromhex(b)
    return abs(x - y) <= rel * (1 + abs(x))


def oracle_merge(case, obs):
    for k, name in ((0, "first"), (1, "second")):
        b, a = obs["before"][k], obs["after"][k]
        for field, what in (("freq", "split frequencies"), ("len", "edge-length summaries"), ("age", "node-age summaries")):
            if b[field] != a[field]:
                diff = [x for x in a[field] if x not in b[field]][:1] or [x for x in b[field] if x not in a[field]][:1]
                row = diff[0]
                return ("merge form %s: the %s of the %s SOURCE distribution changed (split %d: now %s)"
                        % (case["form"], what, name, row[0], [float.fromhex(v) if isinstance(v, str) and v != "complex" else v
                                                              for v in row[1:3]]),
                        "merge-mutates-source")
    r, f = obs["result"], obs["fresh"]
    for field, rel in (("freq", 1e-12), ("len", 1e-9), ("age", 1e-9)):
        rows_r = {x[0]: x[1:] for x in r[field]}
        rows_f = {x[0]: x[1:] for x in f[field]}
        if set(rows_r) != set(rows_f):
            return ("merge form %s: the result's %s table has splits %s, a fresh collection of the same trees %s"
                    % (case["form"], field, sorted(set(rows_r) - set(rows_f))[:3], sorted(set(rows_f) - set(rows_r))[:3]),
                    "merge-result-differs")
        for s in rows_r:
            # variance is order dependent in binary64 (one-pass formula): compare mean/median/range
            if not _close_hex(rows_r[s][:3], rows_f[s][:3], rel):
                return ("merge form %s: split %d: the result reports %s %s, a fresh collection of the same trees %s"
                        % (case["form"], s, field, rows_r[s][:3], rows_f[s][:3]), "merge-result-differs")
    return None


# ---- maximum-credibility trees
def observe_mcc(case):
    w = World(case)
    ta = w.array(case["trees"], is_rooted_trees=case["rooting"] if case["rooting"] is not None else None)
    if case["product"]:
        scores, idx = ta.calculate_log_product_of_split_supports(include_external_splits=case["ext"])
        t = ta.maximum_product_of_split_support_tree(include_external_splits=case["ext"],
                                                     support_as_percentages=case["percent"])
        attr = t.log_product_of_split_support
    else:
        scores, idx = ta.calculate_sum_of_split_supports(include_external_splits=case["ext"])
        t = ta.maximum_sum_of_split_support_tree(include_external_splits=case["ext"],
                                                 support_as_percentages=case["percent"])
        attr = t.sum_of_split_support
    index_of = {id(tx): i for i, tx in enumerate(w.taxa)}
    nodes = []
    for nd in t.preorder_node_iter():
        leaves = sorted(index_of[id(l.taxon)] for l in nd.leaf_iter())
        nodes.append([leaves, _hexf(getattr(nd, "support", None)), int(nd.edge.bipartition.split_bitmask)])
    return {"scores": [_hexf(s) for s in scores], "idx": idx, "attr": _hexf(attr), "nodes": nodes,
            "tree_rooted": t.is_rooted}


def _clades(spec):
    out = []

    def walk(n):
        if n["taxon"] is not None:
            s = frozenset([n["taxon"]])
        else:
            s = frozenset()
            for k in n["kids"]:
                s |= walk(k)
        out.append(s)
        return s
    walk(spec)
    return out


def oracle_mcc(case, obs):
    ntax = case["ntax"]
    full = frozenset(range(ntax))
    rooted = case["rooting"] is True
    n = len(case["trees"])

    def key(s):
        if rooted:
            return s
        return s if 0 not in s else full - s          # the side without the first taxon

    per_tree = [set(key(c) for c in _clades(t)) for t in case["trees"]]
    scores = [float.fromhex(s) for s in obs["scores"]]
    if obs["idx"] is None or not scores:
        return ("maximum_*_tree returned a tree for an empty score list", "mcc-not-argmax")
    best = max(scores)
    first = min(i for i, s in enumerate(scores) if s >= best - 1e-9 * (1 + abs(best)))
    if abs(float.fromhex(obs["attr"]) - best) > 1e-9 * (1 + abs(best)):
        return ("the score attribute %r of the returned tree is not the maximum %r of the scores the array reports"
                % (float.fromhex(obs["attr"]), best), "mcc-not-argmax")
    got = set(key(frozenset(l)) for l, _s, _b in obs["nodes"])
    want_ok = [i for i, s in enumerate(scores) if s >= best - 1e-9 * (1 + abs(best)) and per_tree[i] == got]
    if not want_ok:
        return ("the returned tree's clades are those of no input tree attaining the maximum score (first such index %d)"
                % first, "mcc-not-argmax")
    scale = 100 if case["percent"] else 1
    for leaves, sup, bitmask in obs["nodes"]:
        k = key(frozenset(leaves))
        f = Fraction(sum(1 for p in per_tree if k in p), n)
        if sup is None or abs(float.fromhex(sup) - float(f * scale)) > 1e-9:
            # the known defect: a rooted clade containing the first taxon annotated with the frequency of the
            # complementary mask (the unrooted normalisation of its bitmask)
            comp = full - frozenset(leaves)
            f_comp = Fraction(sum(1 for p in per_tree if comp in p), n)
            kind = "mcc-support"
            if rooted and 0 in leaves and sup is not None and abs(float.fromhex(sup) - float(f_comp * scale)) <= 1e-9:
                kind = "mcc-rooted-support-normalized-split"
            return ("maximum_%s_of_split_support_tree: the node of clade %s (in %d of %d trees) is annotated with support %s "
                    "(its edge carries split bitmask %d)" % ("product" if case["product"] else "sum", sorted(leaves),
                                                            f.numerator * n // f.denominator if f else 0, n,
                                                            None if sup is None else float.fromhex(sup), bitmask), kind)
    return None


def observe(case):
    return observe_merge(case) if case["kind"] == "merge" else observe_mcc(case)


def oracle(case, obs):
    return oracle_merge(case, obs) if case["kind"] == "merge" else oracle_mcc(case, obs)


def run_cases(ctx, rng, n, budget_s=None):
    """fixed witnesses + n random cases of both shapes; returns the number run"""
    import time
    t0 = time.time()
    cases = fixed_cases()
    for _ in range(n):
        cases.append(gen_merge_case(rng) if rng.random() < 0.6 else gen_mcc_case(rng))
    done = 0
    for case in cases:
        if budget_s is not None and time.time() - t0 > budget_s:
            break
        try:
            obs = observe(case)
        except Exception as e:                          # a crash of a merge / mcc call on valid input
            ctx.violation("%s history raised %s: %s" % (case["kind"], type(e).__name__, e),
                          {"shape_case": case}, key="%s-raises-%s" % (case["kind"], type(e).__name__))
            done += 1
            continue
        ctx.count("shape:%s%s" % (case["kind"], ":" + case["form"] if case["kind"] == "merge" else
                                  ":rooted" if case["rooting"] is True else ":unrooted"))
        v = oracle(case, obs)
        done += 1
        if v:
            ctx.violation(v[0], {"shape_case": case, "observed": obs}, key=v[1])
            if ctx.violations:
                break
    return done
