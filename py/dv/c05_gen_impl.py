"""second half of the translator py/dv/gen_splitdist.py: statements, plan, emission."""
import ast
import os

from dv.gen_splitdist import Fn, Unsupported, bad, coq_ty, cname, SELF_ATTRS, EXC


def assigned(stmts):
    """names (and 'self') assigned anywhere in stmts, in first-assignment order"""
    out = []

    def add(n):
        if n not in out:
            out.append(n)

    def tgt(t):
        if isinstance(t, ast.Name):
            add(t.id)
        elif isinstance(t, ast.Tuple):
            for x in t.elts:
                tgt(x)
        elif isinstance(t, ast.Attribute) and isinstance(t.value, ast.Name) and t.value.id == "self":
            add("self")
        elif isinstance(t, ast.Subscript):
            b = t.value
            if isinstance(b, ast.Attribute) and isinstance(b.value, ast.Name) and b.value.id == "self":
                add("self")
            elif isinstance(b, ast.Name):
                add(b.id)

    aliases = set()
    for s in stmts:
        for n in ast.walk(s):
            if isinstance(n, ast.Assign) and isinstance(n.value, ast.Call) and isinstance(n.value.func, ast.Attribute) \
                    and n.value.func.attr == "setdefault" and isinstance(n.targets[0], ast.Name):
                aliases.add(n.targets[0].id)
    for s in stmts:
        for n in ast.walk(s):
            if isinstance(n, ast.Expr) and isinstance(n.value, ast.Call) and isinstance(n.value.func, ast.Attribute) \
                    and n.value.func.attr == "append" and isinstance(n.value.func.value, ast.Name) \
                    and n.value.func.value.id in aliases:
                add("self")
            if isinstance(n, ast.Assign):
                for t in n.targets:
                    tgt(t)
            elif isinstance(n, ast.AugAssign):
                tgt(n.target)
            elif isinstance(n, ast.Expr) and isinstance(n.value, ast.Call) and isinstance(n.value.func, ast.Attribute):
                f = n.value.func
                if f.attr in ("append", "sort") and isinstance(f.value, ast.Name):
                    add(f.value.id)
                if f.attr in ("add", "update", "append") and isinstance(f.value, ast.Attribute) \
                        and isinstance(f.value.value, ast.Name) and f.value.value.id == "self":
                    add("self")
                if isinstance(f.value, ast.Name) and f.value.id == "self":
                    add("self")            # self.method(): may mutate
            elif isinstance(n, ast.Call) and isinstance(n.func, ast.Attribute) \
                    and isinstance(n.func.value, ast.Name) and n.func.value.id == "self":
                add("self")
    return out


def always_exits(stmts):
    if not stmts:
        return False
    s = stmts[-1]
    if isinstance(s, (ast.Return, ast.Raise, ast.Continue)):
        return True
    if isinstance(s, ast.If):
        return always_exits(s.body) and bool(s.orelse) and always_exits(s.orelse)
    return False


class FnS(Fn):
    # ------------------------------------------------------------------ blocks
    def seq(self, prefix, nxt, env):
        pre = self.pre
        self.pre = []
        rest = nxt(env)
        self.pre = pre
        return self.wrap_pre(prefix + rest)

    def tup(self, names):
        names = [cname(n) for n in names]
        return names[0] if len(names) == 1 else "(" + ", ".join(names) + ")"

    def pat(self, names):
        names = [cname(n) for n in names]
        return names[0] if len(names) == 1 else "'(" + ", ".join(names) + ")"

    def block(self, stmts, env, cont):
        """cont(env) -> text of what follows the block (None: the block must exit by itself)"""
        if not stmts:
            if cont is None:
                bad(self.fn, "control reaches the end of a block that must return")
            return cont(env)
        s, rest = stmts[0], stmts[1:]
        nxt = lambda env2: self.block(rest, env2, cont)
        if isinstance(s, ast.Expr) and isinstance(s.value, ast.Constant) and isinstance(s.value.value, str):
            return nxt(env)
        if isinstance(s, ast.Pass):
            return nxt(env)
        if isinstance(s, ast.Assert):
            return self.assert_(s, env, nxt)
        if isinstance(s, ast.Return):
            if rest:
                bad(s, "statements after return")
            return self.return_(s, env)
        if isinstance(s, ast.Raise):
            return self.raise_(s, env)
        if isinstance(s, ast.Continue):
            if self.loop_cont is None:
                bad(s, "continue outside a loop")
            return self.loop_cont(env)
        if isinstance(s, ast.Assign):
            return self.assign(s, env, nxt)
        if isinstance(s, ast.AugAssign):
            return self.augassign(s, env, nxt)
        if isinstance(s, ast.Expr):
            return self.exprstmt(s, env, nxt)
        if isinstance(s, ast.If):
            return self.if_(s, env, nxt, rest, cont)
        if isinstance(s, ast.For):
            return self.for_(s, env, nxt)
        if isinstance(s, ast.Try):
            return self.try_(s, env, nxt)
        bad(s, "statement")

    loop_cont = None
    loop_monadic = False

    def in_monadic(self):
        return self.loop_monadic if self.loop_cont is not None else self.monadic()

    # ------------------------------------------------------------------ simple statements
    def assert_(self, s, env, nxt):
        t = s.test
        ok = (isinstance(t, ast.Compare) and isinstance(t.ops[0], ast.Is)
              and isinstance(t.left, ast.Attribute) and t.left.attr == "taxon_namespace"
              and isinstance(t.comparators[0], ast.Attribute) and t.comparators[0].attr == "taxon_namespace")
        ok = ok or (isinstance(t, ast.Compare) and isinstance(t.ops[0], ast.Eq)
                    and all(isinstance(x, ast.Call) and isinstance(x.func, ast.Name) and x.func.id == "len"
                            for x in [t.left, t.comparators[0]]))
        if not ok:
            bad(s, "assert")
        return "(* %s *)\n  " % ast.unparse(s).replace("*)", "* )") + nxt(env)

    def return_(self, s, env):
        if s.value is None:
            t, ty = "tt", "none"
        else:
            t, ty = self.ex(s.value, env)
        want = self.rty
        if want is not None:
            if isinstance(want, tuple) and isinstance(ty, tuple):
                parts = self.split_tuple(t)
                t = "(" + ", ".join(self.coerce(p, a, b, s) for p, a, b in zip(parts, ty[1], want[1])) + ")"
            else:
                t = self.coerce(t, ty, want, s)
        else:
            self.rty = ty
        body = self.ret("(self, %s)" % t if self.kind == "method" else t)
        return self.wrap_pre(body)

    def split_tuple(self, t):
        # top-level split of "(a, b, c)"
        assert t.startswith("(") and t.endswith(")")
        inner, depth, parts, cur = t[1:-1], 0, [], ""
        for ch in inner:
            if ch == "(":
                depth += 1
            if ch == ")":
                depth -= 1
            if ch == "," and depth == 0:
                parts.append(cur.strip())
                cur = ""
            else:
                cur += ch
        parts.append(cur.strip())
        return parts

    def raise_(self, s, env):
        if not self.monadic():
            bad(s, "raise in a method (not in the translated subset)")
        e = s.exc
        name = e.func.id if isinstance(e, ast.Call) and isinstance(e.func, ast.Name) else None
        if name not in EXC:
            bad(s, "exception class")
        return "Err %s" % EXC[name]

    def set_self_attr(self, attr, text):
        return "let self := sa_%s self %s in\n  " % (attr, text)

    def bind_local(self, name, text, ty, env):
        env2 = dict(env)
        env2[name] = ty
        return "let %s := %s in\n  " % (cname(name), text), env2

    def assign(self, s, env, nxt):
        if len(s.targets) != 1:
            bad(s, "multiple assignment targets")
        tg, val = s.targets[0], s.value
        # idioms first
        if isinstance(tg, ast.Name) and isinstance(val, ast.Lambda):
            if len(val.args.args) != 1:
                bad(s, "lambda arity")
            self.lambdas[tg.id] = (val.args.args[0].arg, val.body)
            return nxt(env)
        if isinstance(tg, ast.Name) and isinstance(val, ast.Call) and isinstance(val.func, ast.Attribute) \
                and val.func.attr == "setdefault":
            b = val.func.value
            if not (isinstance(b, ast.Attribute) and isinstance(b.value, ast.Name) and b.value.id == "self"
                    and SELF_ATTRS.get(b.attr) == "DL" and len(val.args) == 2
                    and isinstance(val.args[1], ast.List) and not val.args[1].elts):
                bad(s, "setdefault idiom")
            k, kty = self.ex(val.args[0], env)
            self.alias[tg.id] = (b.attr, k)
            return nxt(dict(env, **{tg.id: "ALIAS"}))
        if isinstance(tg, ast.Name) and tg.id in self.alias or \
                (isinstance(tg, ast.Name) and isinstance(val, ast.Constant) and val.value is None
                 and env.get(tg.id) in ("ALIAS", None) and tg.id in ("sel", "sna")):
            self.alias.pop(tg.id, None)
            env2 = dict(env)
            env2.pop(tg.id, None)
            return nxt(env2)
        t, ty = self.ex(val, env)
        if isinstance(tg, ast.Name):
            if ty == "EMPTYLIST":
                ty = self.local_types.get(tg.id) or bad(s, "type of the empty list %s" % tg.id)
            if ty == "EMPTYDICT":
                ty = self.local_types.get(tg.id) or bad(s, "type of the empty dict %s" % tg.id)
            if tg.id in env and env[tg.id] != ty:
                t = self.coerce(t, ty, env[tg.id], s)
                ty = env[tg.id]
            elif tg.id in self.local_types and self.local_types[tg.id] != ty:
                t = self.coerce(t, ty, self.local_types[tg.id], s)
                ty = self.local_types[tg.id]
            txt, env2 = self.bind_local(tg.id, t, ty, env)
            return self.seq(txt, nxt, env2)
        if isinstance(tg, ast.Attribute) and isinstance(tg.value, ast.Name) and tg.value.id == "self":
            if tg.attr not in SELF_ATTRS:
                bad(s, "assignment to an attribute outside the modelled state")
            want = SELF_ATTRS[tg.attr]
            if ty == "EMPTYDICT":
                t = "(Some [])" if want in ("ODQ", "ODS") else "[]"
            else:
                t = self.coerce(t, ty, want, s)
            return self.seq(self.set_self_attr(tg.attr, t), nxt, env)
        if isinstance(tg, ast.Subscript):
            b = tg.value
            k, kty = self.ex(tg.slice, env)
            if isinstance(b, ast.Attribute) and isinstance(b.value, ast.Name) and b.value.id == "self" \
                    and SELF_ATTRS.get(b.attr) == "ODQ":
                v = self.coerce(t, ty, "Q", s)
                return self.seq(self.set_self_attr(b.attr, "(py_odict_set (a_%s self) %s %s)" % (b.attr, k, v)), nxt, env)
            bad(s, "subscript assignment")
        if isinstance(tg, ast.Tuple) and all(isinstance(x, ast.Name) for x in tg.elts):
            names = [x.id for x in tg.elts]
            if isinstance(ty, tuple) and len(ty[1]) == len(names):
                parts = self.split_tuple(t)
                out, env2 = "", dict(env)
                for n, p, pty in zip(names, parts, ty[1]):
                    if n == "bipartition.is_mutable":
                        continue
                    out += "let %s := %s in\n  " % (cname(n), p)
                    env2[n] = pty
                return self.seq(out, nxt, env2)
        bad(s, "assignment")

    def augassign(self, s, env, nxt):
        tg = s.target
        fake = ast.BinOp(left=None, op=s.op, right=s.value)
        if isinstance(tg, ast.Name):
            fake.left = ast.Name(id=tg.id, ctx=ast.Load())
            ast.copy_location(fake, s)
            t, ty = self.binop(fake, env)
            if ty != env.get(tg.id):
                t = self.coerce(t, ty, env.get(tg.id), s)
            txt, env2 = self.bind_local(tg.id, t, env[tg.id], env)
            return self.seq(txt, nxt, env2)
        if isinstance(tg, ast.Attribute) and isinstance(tg.value, ast.Name) and tg.value.id == "self":
            fake.left = tg
            ast.copy_location(fake, s)
            t, ty = self.binop(fake, env)
            t = self.coerce(t, ty, SELF_ATTRS[tg.attr], s)
            return self.seq(self.set_self_attr(tg.attr, t), nxt, env)
        if isinstance(tg, ast.Subscript) and isinstance(s.op, ast.Add):
            b = tg.value
            if isinstance(b, ast.Attribute) and isinstance(b.value, ast.Name) and b.value.id == "self":
                k, _ = self.ex(tg.slice, env)
                v, vty = self.ex(s.value, env)
                aty = SELF_ATTRS.get(b.attr)
                if aty == "DQ":
                    return self.seq(self.set_self_attr(
                        b.attr, "(py_dd_iadd_float (a_%s self) %s %s)" % (b.attr, k, self.coerce(v, vty, "Q", s))), nxt, env)
                if aty == "DL" and vty == "LOQ":
                    return self.seq(self.set_self_attr(
                        b.attr, "(py_dd_iadd_list (a_%s self) %s %s)" % (b.attr, k, v)), nxt, env)
        bad(s, "augmented assignment")

    def exprstmt(self, s, env, nxt):
        c = s.value
        if not (isinstance(c, ast.Call) and isinstance(c.func, ast.Attribute)):
            bad(s, "expression statement")
        f = c.func
        # tree.calc_node_ages(...), tree.encode_bipartitions(): see module docstring
        if isinstance(f.value, ast.Name) and env.get(f.value.id) == "tree" \
                and f.attr in ("calc_node_ages", "encode_bipartitions"):
            return "(* %s.%s(..): the tree argument is given as encoded, with ages *)\n  " % (f.value.id, f.attr) \
                   + nxt(env)
        # local_list.append(x) / alias.append(x)
        if f.attr == "append" and isinstance(f.value, ast.Name) and len(c.args) == 1:
            n = f.value.id
            v, vty = self.ex(c.args[0], env)
            if n in self.alias:
                attr, k = self.alias[n]
                return self.seq(self.set_self_attr(
                    attr, "(py_setdefault_append (a_%s self) %s %s)" % (attr, k, self.coerce(v, vty, "OQ", s))), nxt, env)
            lty = env.get(n)
            elt = {"LZ": "Z", "LOQ": "OQ", "LQ": "Q", "LREC": "rec", "LP": "P", "LN": "node"}.get(lty)
            if elt is None:
                bad(s, "append to %s" % (lty,))
            if elt == "P":
                if not (isinstance(vty, tuple) and vty[1] == ["Q", "Z"]):
                    bad(s, "appended tuple type")
            else:
                v = self.coerce(v, vty, elt, s)
            txt, env2 = self.bind_local(n, "(py_append %s %s)" % (cname(n), v), lty, env)
            return self.seq(txt, nxt, env2)
        if f.attr == "sort" and isinstance(f.value, ast.Name) and env.get(f.value.id) == "LP" and not c.args:
            rev = "false"
            for k in c.keywords:
                if k.arg == "reverse" and isinstance(k.value, ast.Constant) and isinstance(k.value.value, bool):
                    rev = "true" if k.value.value else "false"
                else:
                    bad(s, "sort arguments")
            n = f.value.id
            txt, env2 = self.bind_local(n, "(py_sort_pairs %s %s)" % (rev, cname(n)), "LP", env)
            return txt + nxt(env2)
        # self.<set>.add(b) / .update(other)
        if isinstance(f.value, ast.Attribute) and isinstance(f.value.value, ast.Name) and f.value.value.id == "self" \
                and SELF_ATTRS.get(f.value.attr) == "SB" and len(c.args) == 1:
            v, vty = self.ex(c.args[0], env)
            a = f.value.attr
            if f.attr == "add" and vty == "B":
                return self.seq(self.set_self_attr(a, "(py_set_add (a_%s self) %s)" % (a, v)), nxt, env)
            if f.attr == "update" and vty == "SB":
                return self.seq(self.set_self_attr(a, "(py_set_update (a_%s self) %s)" % (a, v)), nxt, env)
        # self.method(...)
        if isinstance(f.value, ast.Name) and f.value.id == "self" and f.attr in self.known:
            self.ex(c, env)
            return self.seq("", nxt, env)
        bad(s, "expression statement")

    # ------------------------------------------------------------------ if
    def hasattr_edge_idiom(self, s):
        t = s.test
        return (isinstance(t, ast.Call) and isinstance(t.func, ast.Name) and t.func.id == "hasattr"
                and len(t.args) == 2 and isinstance(t.args[1], ast.Constant) and t.args[1].value == "edge"
                and len(s.body) == 1 and isinstance(s.body[0], ast.Assign)
                and ast.unparse(s.body[0]) == "edge = %s.edge" % ast.unparse(t.args[0])
                and any(isinstance(x, ast.Assign) and ast.unparse(x.targets[0]) == "edge"
                        and "bipartition_edge_map.get(%s)" % ast.unparse(t.args[0]) in ast.unparse(x.value)
                        for x in s.orelse))

    def if_(self, s, env, nxt, rest, cont):
        if self.hasattr_edge_idiom(s):
            b = s.test.args[0].id
            if env.get(b) != "rec":
                bad(s, "edge idiom on a non-bipartition")
            return "let edge := %s in\n  " % cname(b) + nxt(dict(env, edge="rec"))
        # `if not self.ignore_node_ages: <set_node_age_fn choice; tree.calc_node_ages(...)>` : a tree effect
        if all(self.is_tree_effect(x) for x in s.body) and not s.orelse and s.body:
            return "(* if %s: tree.calc_node_ages(..) -- the tree argument is given with ages *)\n  " \
                   % ast.unparse(s.test) + nxt(env)
        c, cty = self.ex(s.test, env)
        c = self.truth(c, cty, s)
        pre = self.pre
        self.pre = []
        if always_exits(s.body) and (always_exits(s.orelse) if s.orelse else False):
            if rest:
                bad(s, "statements after an if whose branches all exit")
            a = self.block(s.body, env, None)
            b = self.block(s.orelse, env, None)
            self.pre = pre
            return self.wrap_pre("if %s\n  then %s\n  else %s" % (c, a, b))
        if always_exits(s.body):
            a = self.block(s.body, env, None)
            b = self.block(list(s.orelse) + rest, env, cont)
            self.pre = pre
            return self.wrap_pre("if %s\n  then %s\n  else %s" % (c, a, b))
        vs = [v for v in assigned(s.body) + [v for v in assigned(s.orelse) if v not in assigned(s.body)]]
        both = set(assigned(s.body)) & set(assigned(s.orelse))
        if s.orelse and always_exits(s.orelse):
            both = set(assigned(s.body))        # the other branch leaves the function / iteration
        vs = [v for v in vs if (v in env and env[v] != "ALIAS") or v == "self" or
              (v in both and v not in ("sel", "sna"))]
        vs = [v for v in vs if not (v == "self" and self.kind != "method")]
        if not vs:
            bad(s, "if without effect")
        envs = []

        def endk(e2):
            envs.append(e2)
            for v in vs:
                if v != "self" and v not in e2:
                    bad(s, "variable %s not defined at the end of a branch" % v)
            return ("Ok " + self.tup(vs)) if self.in_monadic() else self.tup(vs)
        saved_alias = dict(self.alias)
        a = self.block(s.body, env, endk)
        self.alias = dict(saved_alias)
        b = self.block(s.orelse, env, endk) if s.orelse else endk(env)
        self.alias = saved_alias
        env2 = dict(env)
        for v in vs:
            if v != "self":
                tys = set(e2[v] for e2 in envs)
                if len(tys) != 1:
                    bad(s, "variable %s has different types in the branches: %s" % (v, tys))
                env2[v] = tys.pop()
        rest_txt = nxt(env2)
        self.pre = pre
        if self.in_monadic():
            return self.wrap_pre("py_bind (if %s\n  then %s\n  else %s) (fun %s =>\n  %s)"
                                 % (c, a, b, self.pat(vs), rest_txt))
        return self.wrap_pre("let %s := (if %s\n  then %s\n  else %s) in\n  %s" % (self.pat(vs), c, a, b, rest_txt))

    def is_tree_effect(self, x):
        if isinstance(x, ast.Expr) and isinstance(x.value, ast.Call) and isinstance(x.value.func, ast.Attribute) \
                and x.value.func.attr == "calc_node_ages":
            return True
        if isinstance(x, ast.If):
            return all(isinstance(y, ast.Assign) and ast.unparse(y.targets[0]) == "set_node_age_fn"
                       for y in x.body + x.orelse)
        return False

    # ------------------------------------------------------------------ for
    def for_(self, s, env, nxt):
        if s.orelse:
            bad(s, "for-else")
        it, ity = self.ex(s.iter, env)
        pre = self.pre
        self.pre = []
        env_b = dict(env)
        if ity in ("DQ", "ODQ") and isinstance(s.target, ast.Name):
            src = "(py_dict_keys %s)" % it if ity == "DQ" else "(py_dict_keys (match %s with Some d => d | None => [] end))" % it
            binder, env_b[s.target.id] = cname(s.target.id), "Z"
        elif ity == "LREC" and isinstance(s.target, ast.Name):
            src, binder, env_b[s.target.id] = it, cname(s.target.id), "rec"
        elif ity == "LQ" and isinstance(s.target, ast.Name):
            src, binder, env_b[s.target.id] = it, cname(s.target.id), "Q"
        elif ity == "ITEMS_DL" and isinstance(s.target, ast.Tuple) and len(s.target.elts) == 2:
            a, b = [x.id for x in s.target.elts]
            src, binder = it, "'(%s, %s)" % (cname(a), cname(b))
            env_b[a], env_b[b] = "Z", "LOQ"
        else:
            bad(s, "loop over %s" % (ity,))
        vs = [v for v in assigned(s.body) if (v in env and env[v] != "ALIAS") or v == "self"]
        vs = [v for v in vs if not (v == "self" and self.kind != "method")]
        if not vs:
            bad(s, "loop without effect")
        endk = lambda e2: ("Ok " + self.tup(vs)) if self.loop_monadic else self.tup(vs)
        saved = (self.loop_cont, getattr(self, "loop_monadic", False))
        self.loop_monadic = self.contains_try(s.body) or (self.monadic() and self.may_raise(s.body))
        was_kind = self.kind
        self.loop_cont = endk
        saved_alias = dict(self.alias)
        if self.loop_monadic and self.kind == "method":
            self.in_monadic_loop = True
        body = self.block(s.body, env_b, endk)
        self.alias = saved_alias
        lm = self.loop_monadic
        self.loop_cont, self.loop_monadic = saved
        self.in_monadic_loop = False
        env2 = dict(env)
        rest_txt = nxt(env2)
        self.pre = pre
        if lm:
            if self.kind == "method":
                # errors escaping a method loop are not in the translated subset: the loop result is
                # unwrapped by py_forM's Ok; anything else makes the method return its argument state
                return self.wrap_pre(
                    "match py_forM %s (fun %s %s =>\n  %s) %s with\n  | Ok %s =>\n  %s\n  | _ => %s\n  end"
                    % (src, binder, self.pat(vs), body, self.tup(vs), self.pat(vs).lstrip("'"), rest_txt,
                       self.escape_value()))
            return self.wrap_pre("py_bind (py_forM %s (fun %s %s =>\n  %s) %s) (fun %s =>\n  %s)"
                                 % (src, binder, self.pat(vs), body, self.tup(vs), self.pat(vs), rest_txt))
        return self.wrap_pre("let %s := py_for %s (fun %s %s =>\n  %s) %s in\n  %s"
                             % (self.pat(vs), src, binder, self.pat(vs), body, self.tup(vs), rest_txt))

    def escape_value(self):
        return "(self, %s)" % self.escape_default

    escape_default = "None"

    def contains_try(self, stmts):
        return any(isinstance(n, ast.Try) for s in stmts for n in ast.walk(s))

    def may_raise(self, stmts):
        return any(isinstance(n, (ast.Raise, ast.Subscript)) or
                   (isinstance(n, ast.Call) and isinstance(n.func, ast.Name) and n.func.id in self.known)
                   for s in stmts for n in ast.walk(s))

    # ------------------------------------------------------------------ try
    def handled(self, h):
        t = h.type
        names = [t] if isinstance(t, ast.Name) else (list(t.elts) if isinstance(t, ast.Tuple) else None)
        if names is None or not all(isinstance(n, ast.Name) and n.id in EXC for n in names):
            bad(h, "except clause")
        return "[" + "; ".join(EXC[n.id] for n in names) + "]"

    def try_(self, s, env, nxt):
        if s.finalbody or s.orelse or len(s.handlers) != 1 and not self.summary_mode:
            bad(s, "try shape")
        if self.summary_mode:
            return self.try_summary(s, env, nxt)
        h = s.handlers[0]
        # try: self.D[k] = f(x)  except (..): pass     inside a method loop
        if len(s.body) == 1 and isinstance(s.body[0], ast.Assign) and len(h.body) == 1 and isinstance(h.body[0], ast.Pass):
            a = s.body[0]
            tg = a.targets[0]
            if isinstance(tg, ast.Subscript) and isinstance(tg.value, ast.Attribute) \
                    and isinstance(tg.value.value, ast.Name) and tg.value.value.id == "self" \
                    and SELF_ATTRS.get(tg.value.attr) == "ODS":
                k, _ = self.ex(tg.slice, env)
                v, vty = self.ex(a.value, env)
                if not (isinstance(vty, tuple) and vty[0] == "RES" and vty[1] == "GS"):
                    bad(s, "try body value")
                attr = tg.value.attr
                upd = "(fun v => sa_%s self (py_odict_set (a_%s self) %s v))" % (attr, attr, k)
                return self.seq("", lambda e_: "py_bind (py_try_pass %s %s %s self) (fun self =>\n  %s)"
                                % (self.handled(h), v, upd, nxt(e_)), env)
        bad(s, "try statement")

    summary_mode = False


# ------------------------------------------------------------------------------------------
# additions needing the statement layer: non-None refinement in `or` chains, from_split_bitmasks,
# summarize
# ------------------------------------------------------------------------------------------
class FnT(FnS):
    def ex(self, e, env):
        if isinstance(e, ast.BoolOp) and isinstance(e.op, ast.Or):
            # `X is None or <uses of X as a number>`: later operands see X as a float
            parts, env2, ren = [], dict(env), {}
            for v in e.values:
                v2 = v
                for old, new in ren.items():
                    v2 = self.rename(v2, old, new)
                t, ty = FnS.ex(self, v2, env2) if not isinstance(v2, ast.BoolOp) else self.ex(v2, env2)
                parts.append(self.truth(t, ty, e))
                if isinstance(v, ast.Compare) and isinstance(v.ops[0], ast.Is) and isinstance(v.left, ast.Name) \
                        and isinstance(v.comparators[0], ast.Constant) and v.comparators[0].value is None \
                        and env.get(v.left.id) == "OQ":
                    nv = self.fresh("nn")
                    self.pre.append(("let", nv, "py_float_of_opt %s" % cname(v.left.id)))
                    env2[nv] = "Q"
                    ren[v.left.id] = nv
            out = parts[-1]
            for p in reversed(parts[:-1]):
                out = "(orb %s %s)" % (p, out)
            return out, "B"
        return FnS.ex(self, e, env)

    def assign(self, s, env, nxt):
        v = s.value
        if isinstance(v, ast.Call) and isinstance(v.func, ast.Attribute) and v.func.attr == "from_split_bitmasks" \
                and isinstance(s.targets[0], ast.Name):
            kws = {k.arg: k.value for k in v.keywords}
            if v.args or set(kws) != {"split_bitmasks", "taxon_namespace", "is_rooted"} \
                    or ast.unparse(kws["taxon_namespace"]) != "self.taxon_namespace":
                bad(s, "from_split_bitmasks call shape")
            ss, sty = self.ex(kws["split_bitmasks"], env)
            r, rty = self.ex(kws["is_rooted"], env)
            if sty != "LZ" or rty != "OB":
                bad(s, "from_split_bitmasks argument types")
            txt, env2 = self.bind_local(s.targets[0].id, "(py_from_split_bitmasks ns_all ns_bits %s %s)" % (r, ss),
                                        "CONTREE", env)
            return self.seq(txt, nxt, env2)
        if self.summary_mode and isinstance(v, ast.Dict) and not v.keys and isinstance(s.targets[0], ast.Name) \
                and s.targets[0].id == "summary":
            return nxt(dict(env, summary="SUMMARY"))
        return FnS.assign(self, s, env, nxt)

    def if_(self, s, env, nxt, rest, cont):
        # `if summarize_splits: self.summarize_splits_on_tree(tree=con_tree, ...)`: the decoration of
        # the consensus tree is a separate step (SplitDistributionSummarizer), not part of the selection
        if isinstance(s.test, ast.Name) and s.test.id == "summarize_splits" and len(s.body) == 1 and not s.orelse \
                and isinstance(s.body[0], ast.Expr) and isinstance(s.body[0].value, ast.Call) \
                and ast.unparse(s.body[0].value.func) == "self.summarize_splits_on_tree":
            return "(* if summarize_splits: self.summarize_splits_on_tree(tree=con_tree, ..) -- separate step *)\n  " \
                   + nxt(env)
        if not s.orelse and len(s.body) == 1 and self.is_encode(s.body[0]):
            return "(* %s *)\n  " % ast.unparse(s).replace("\n", " ") + nxt(env)
        return FnS.if_(self, s, env, nxt, rest, cont)

    def is_encode(self, x):
        return (isinstance(x, ast.Expr) and isinstance(x.value, ast.Call) and isinstance(x.value.func, ast.Attribute)
                and x.value.func.attr == "encode_bipartitions")

    def return_(self, s, env):
        if self.summary_mode and isinstance(s.value, ast.Name) and s.value.id == "summary":
            for k in ("range", "mean", "var", "median"):
                if "sm_" + k not in env:
                    bad(s, "summary key %s never assigned" % k)
            return "Ok (mkGs sm_range sm_mean sm_var sm_median)"
        return FnS.return_(self, s, env)

    # ---- summarize: try blocks around the assignments of summary[...]
    SKIP_KEYS = ("sd", "hpd95", "quant_5_95")

    def skey(self, t):
        if isinstance(t, ast.Subscript) and isinstance(t.value, ast.Name) and t.value.id == "summary" \
                and isinstance(t.slice, ast.Constant) and isinstance(t.slice.value, str):
            return t.slice.value
        return None

    def only_assigns(self, stmts, keys):
        for x in stmts:
            if isinstance(x, ast.Assign):
                tg = x.targets[0]
                ks = [self.skey(tg)] if not isinstance(tg, ast.Tuple) else [self.skey(y) for y in tg.elts]
                if not all(k in keys for k in ks):
                    return False
            else:
                return False
        return True

    def monadic_value(self, e, env):
        pre = self.pre
        self.pre = []
        t, ty = self.ex(e, env)
        txt = self.wrap_pre("Ok %s" % t)
        self.pre = pre
        return "(" + txt + ")", ty

    def try_summary(self, s, env, nxt):
        body = s.body
        first = body[0]
        if not isinstance(first, ast.Assign):
            bad(s, "try body in summarize")
        tg = first.targets[0]
        # skipped keys: float-only quantities
        if len(body) == 1 and self.skey(tg) in self.SKIP_KEYS and \
                all(self.only_assigns(h.body, self.SKIP_KEYS) for h in s.handlers):
            return "(* summary['%s']: outside exact arithmetic *)\n  " % self.skey(tg) + nxt(env)
        if len(s.handlers) != 1:
            bad(s, "handlers")
        h = s.handlers[0]
        hd = self.handled(h)
        k = self.skey(tg)
        if k in ("range", "median") and len(body) == 1 and self.only_assigns(h.body, (k,)) \
                and isinstance(h.body[0].value, ast.Constant) and h.body[0].value.value is None:
            m, ty = self.monadic_value(first.value, env)
            want = ("T", ["Q", "Q"]) if k == "range" else "Q"
            if ty != want:
                bad(s, "type of summary['%s']" % k)
            return "py_bind (py_try_none %s %s) (fun sm_%s =>\n  %s)" % (hd, m, k, nxt(dict(env, **{"sm_" + k: "O"})))
        if isinstance(tg, ast.Tuple) and [self.skey(x) for x in tg.elts] == ["mean", "var"]:
            # nested try for 'sd' must only touch skipped keys
            for x in body[1:]:
                if not (isinstance(x, ast.Try) and self.only_assigns(x.body, self.SKIP_KEYS)
                        and all(self.only_assigns(hh.body, self.SKIP_KEYS) for hh in x.handlers)):
                    bad(x, "statement after the mean/var assignment")
            if not (len(h.body) == 1 and isinstance(h.body[0], ast.Assign)
                    and isinstance(h.body[0].targets[0], ast.Tuple)
                    and [self.skey(x) for x in h.body[0].targets[0].elts] == ["mean", "var", "sd"]
                    and isinstance(h.body[0].value, ast.Tuple)
                    and all(isinstance(x, ast.Constant) and x.value is None for x in h.body[0].value.elts)):
                bad(h, "handler of the mean/var block")
            m, ty = self.monadic_value(first.value, env)
            if ty != ("T", ["Q", "QI"]):
                bad(s, "type of (mean, var)")
            return ("py_bind (py_try_none %s %s) (fun mv =>\n  let sm_mean := option_map fst mv in\n  "
                    "let sm_var := option_map snd mv in\n  %s)" % (hd, m, nxt(dict(env, sm_mean="O", sm_var="O"))))
        bad(s, "try block in summarize")

    def known_call(self, name, e, env, recv):
        coqname, kind, ptys, rty = self.known[name]
        if kind == "pure" and not self.monadic() and len(e.args) == 1 and ptys == ["LQ"]:
            t, ty = self.ex(e.args[0], env)
            if ty == "LOQ":
                return "(py_bind (py_as_floats %s) %s)" % (t, coqname), ("RES", rty)
        return FnS.known_call(self, name, e, env, recv)


# ------------------------------------------------------------------------------------------
# plan and emission
# ------------------------------------------------------------------------------------------
TCM = os.path.join("datamodel", "treecollectionmodel.py")
STAT = os.path.join("calculate", "statistics.py")

# (file, class, python name, coq name, kind, [(param, type)], result type, {local: type}, extra coq params)
PLAN = [
    (STAT, None, "_mean_and_variance_pop_n", "gen_mean_and_variance_pop_n", "pure", [("values", "LQ")],
     ("T", ["Q", "Q", "Z"]), {}, ""),
    (STAT, None, "mean_and_sample_variance", "gen_mean_and_sample_variance", "pure", [("values", "LQ")],
     ("T", ["Q", "QI"]), {}, ""),
    (STAT, None, "median", "gen_median", "pure", [("pool", "LQ")], "Q", {}, ""),
    (STAT, None, "summarize", "gen_summarize", "pure", [("values", "LQ")], "GS", {}, ""),
    (TCM, "SplitDistribution", "add_split_count", "gen_add_split_count", "method",
     [("split", "Z"), ("count", "Q")], "none", {}, ""),
    (TCM, "SplitDistribution", "count_splits_on_tree", "gen_count_splits_on_tree", "method",
     [("tree", "tree"), ("is_bipartitions_updated", "B"), ("default_edge_length_value", "OQ")],
     ("T", ["LZ", "LOQ", "LOQ"]), {"splits": "LZ", "edge_lengths": "LOQ", "node_ages": "LOQ",
                                    "elen": "OQ", "nage": "OQ"}, ""),
    (TCM, "SplitDistribution", "calc_normalization_weight", "gen_calc_normalization_weight", "method", [], "Q", {}, ""),
    (TCM, "SplitDistribution", "calc_freqs", "gen_calc_freqs", "method", [], "ODQ", {}, ""),
    (TCM, "SplitDistribution", "_get_split_frequencies", "gen_get_split_frequencies", "method", [], "ODQ", {}, ""),
    (TCM, "SplitDistribution", "__getitem__", "gen_getitem", "method", [("split_bitmask", "Z")], "Q", {}, ""),
    (TCM, "SplitDistribution", "update", "gen_update", "method", [("split_dist", "sdx")], "none", {}, ""),
    (TCM, "SplitDistribution", "is_all_counted_trees_rooted", "gen_is_all_counted_trees_rooted", "method", [], "B", {}, ""),
    (TCM, "SplitDistribution", "is_all_counted_trees_strictly_unrooted",
     "gen_is_all_counted_trees_strictly_unrooted", "method", [], "B", {}, ""),
    (TCM, "SplitDistribution", "is_all_counted_trees_treated_as_unrooted",
     "gen_is_all_counted_trees_treated_as_unrooted", "method", [], "B", {}, ""),
    (TCM, "SplitDistribution", "calc_split_edge_length_summaries", "gen_calc_split_edge_length_summaries",
     "method", [], "ODS", {}, ""),
    (TCM, "SplitDistribution", "calc_split_node_age_summaries", "gen_calc_split_node_age_summaries",
     "method", [], "ODS", {}, ""),
    (TCM, "SplitDistribution", "_get_split_edge_length_summaries", "gen_get_split_edge_length_summaries",
     "method", [], "ODS", {}, ""),
    (TCM, "SplitDistribution", "_get_split_node_age_summaries", "gen_get_split_node_age_summaries",
     "method", [], "ODS", {}, ""),
    (TCM, "SplitDistribution", "consensus_tree", "gen_consensus_tree", "method",
     [("min_freq", "OQ"), ("is_rooted", "OB"), ("summarize_splits", "B")], "CONTREE",
     {"to_try_to_add": "LP"}, "(ns_all : Z) (ns_bits : list Z) "),
]

from dv.gen_splitdist import COQ_TY  # noqa: E402
COQ_TY["CONTREE"] = "(list Z * ctree)"


def find(tree, cls, name):
    nodes = tree.body
    if cls:
        for n in nodes:
            if isinstance(n, ast.ClassDef) and n.name == cls:
                nodes = n.body
                break
        else:
            raise Unsupported("class %s not found" % cls)
    for n in nodes:
        if isinstance(n, ast.FunctionDef) and n.name == name:
            return n
    raise Unsupported("function %s not found" % name)


def check_signature(fn, kind, params, entry):
    names = [a.arg for a in fn.args.args]
    if kind == "method":
        if not names or names[0] != "self":
            raise Unsupported("%s: not a method" % fn.name)
        names = names[1:]
    want = [p for p, _ in params]
    if entry[2] == "consensus_tree":
        if names != want or fn.args.kwarg is None:
            raise Unsupported("consensus_tree: signature %s" % names)
        return
    if names[:len(want)] != want or (fn.args.vararg or fn.args.kwarg):
        raise Unsupported("%s: signature %s, expected %s" % (fn.name, names, want))
    if len(names) != len(want):
        raise Unsupported("%s: signature %s, expected %s" % (fn.name, names, want))


def compile_fn(entry, trees, known):
    path, cls, pyname, coqname, kind, params, rty, local_types, extra = entry
    fn = find(trees[path], cls, pyname)
    check_signature(fn, kind, params, entry)
    c = FnT(fn, kind, params, known, {})
    c.rty = rty
    c.local_types = local_types
    c.summary_mode = (pyname == "summarize")
    c.escape_default = "None"
    env = {p: t for p, t in params}
    end = (lambda e2: c.ret("(self, tt)")) if (kind == "method" and rty == "none") else None
    body = c.block(fn.body, env, end)
    if kind == "method":
        sig = "(cfg : config) (self : sdx) " + extra + " ".join("(%s : %s)" % (cname(p), coq_ty(t)) for p, t in params)
        ret = "sdx * %s" % coq_ty(rty)
    else:
        sig = " ".join("(%s : %s)" % (cname(p), coq_ty(t)) for p, t in params)
        ret = "res %s" % coq_ty(rty)
    src = "%s%s, line %d" % ((cls + ".") if cls else "", pyname, fn.lineno)
    return "(* %s *)\nDefinition %s %s : %s :=\n  %s.\n" % (src, coqname, sig, ret, body)


def compile_raise_points(entry, trees, known):
    """wave 8 (exception safety): the two documented refusals of count_splits_on_tree - the namespace assert and
    tree.calc_node_ages() raising UltrametricityError under `if not self.ignore_node_ages` - are located in the
    statement list, and the statements that PRECEDE each of them are compiled (same compiler) into the state of
    `self` with which the refusal is reached; gen_.._exc puts the three outcomes together.  Which tallies are
    made before the raising call is thereby read off the AST (Props/C05Gen.v gen_count_refused_*)."""
    path, cls, pyname, coqname, kind, params, rty, local_types, extra = entry
    fn = find(trees[path], cls, pyname)
    if any(isinstance(n, (ast.Raise, ast.Try)) for n in ast.walk(fn)):
        raise Unsupported("%s: raise / try statement (refusal points are located structurally)" % pyname)
    probe = FnT(fn, kind, params, known, {})
    asserts = [k for k, s in enumerate(fn.body) if isinstance(s, ast.Assert)]
    effects = [k for k, s in enumerate(fn.body)
               if isinstance(s, ast.If) and s.body and not s.orelse and all(probe.is_tree_effect(x) for x in s.body)
               and any(isinstance(x, ast.Expr) for x in s.body)]
    others = [n for n in ast.walk(fn) if isinstance(n, ast.Call) and isinstance(n.func, ast.Attribute)
              and n.func.attr == "calc_node_ages"]
    if len(asserts) != 1 or len(effects) != 1 or len(others) != 1 or asserts[0] > effects[0]:
        raise Unsupported("%s: expected one namespace assert followed by one guarded calc_node_ages call" % pyname)
    sig = "(cfg : config) (self : sdx) " + extra + " ".join("(%s : %s)" % (cname(p), coq_ty(t)) for p, t in params)
    args = "cfg self " + " ".join(cname(p) for p, _t in params)
    out = []
    for tag, k in (("at_assert", asserts[0]), ("at_calc_node_ages", effects[0])):
        c = FnT(fn, kind, params, known, {})
        c.rty = rty
        c.local_types = local_types
        c.summary_mode = False
        c.escape_default = "None"
        env = {p: t for p, t in params}
        if tag == "at_assert":
            c.assert_(fn.body[k], env, lambda e2: "")          # shape check of the assert (fail closed)
        body = c.block(fn.body[:k], env, lambda e2: "self")
        out.append("(* %s.%s, line %d: `self` on reaching statement %d, `%s` *)\nDefinition %s_%s %s : sdx :=\n  %s.\n"
                   % (cls, pyname, fn.body[k].lineno, k, ast.unparse(fn.body[k]).split("\n")[0][:70].replace("*)", "* )"),
                      coqname, tag, sig, body))
    c = FnT(fn, kind, params, known, {})
    g, gty = c.ex(fn.body[effects[0]].test, {p: t for p, t in params})
    if c.pre:
        raise Unsupported("%s: guard of calc_node_ages needs bindings" % pyname)
    out.append("Definition %s_ages_guard %s : bool :=\n  %s.\n" % (coqname, sig, c.truth(g, gty, fn.body[effects[0]])))
    out.append("(* the three outcomes: AssertionError of the namespace assert (ns_ok = false), UltrametricityError (a ValueError)\n"
               "   of calc_node_ages (guard and ages_ok = false), normal return *)\n"
               "Definition %s_exc %s (ns_ok ages_ok : bool) : sdx * res %s :=\n"
               "  if negb ns_ok then (%s_at_assert %s, Err AssertErr)\n"
               "  else if andb (%s_ages_guard %s) (negb ages_ok) then (%s_at_calc_node_ages %s, Err ValueErr)\n"
               "  else let '(s, r) := %s %s in (s, Ok r).\n"
               % (coqname, sig, coq_ty(rty), coqname, args, coqname, args, coqname, args, coqname, args))
    return "\n".join(out)


def generate(repo):
    src = os.path.join(repo, "src", "dendropy")
    trees = {}
    for path in (TCM, STAT):
        with open(os.path.join(src, path)) as f:
            trees[path] = ast.parse(f.read())
    out = ["(* GENERATED by py/dv/gen_splitdist.py from datamodel/treecollectionmodel.py and",
           "   calculate/statistics.py -- do not edit *)",
           "From Coq Require Import ZArith QArith Qabs List Bool String.",
           "From DV Require Import Model.PyPrims Gen.BitFns Model.C05Model Model.C05Spec Model.C05Model2",
           "     Model.C05GenPrims Model.C05GenPrims2.",
           "Import ListNotations.",
           "Open Scope Z_scope.", ""]
    known = {}
    for entry in PLAN:
        out.append(compile_fn(entry, trees, known))
        path, cls, pyname, coqname, kind, params, rty, _lt, _x = entry
        known[pyname] = (coqname, kind, [t for _p, t in params], rty)
        if pyname == "count_splits_on_tree":
            out.append(compile_raise_points(entry, trees, known))
    from dv import c05_gen_impl2
    out.append(c05_gen_impl2.extra(trees, known))
    return "\n".join(out)
