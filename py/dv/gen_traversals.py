"""Translator: traversal code of dendropy Node / Tree  ->  coq/Gen/Traversals.v  (property C15).

generate(repo) parses src/dendropy/datamodel/treemodel/_node.py and _tree.py with `ast` and
compiles every iterator listed in PLAN statement by statement into Gallina over the run-time
library coq/Model/C15Prims.v:

  * a generator function denotes   fuel -> args -> gres out      (yields, then end / raise / fuel)
  * a `while` loop becomes a step function  state -> sres state out  iterated by `run`; the state
    is the tuple of variables that live across iterations; a nested `while` in tail position
    becomes a second control state of the same machine (one step = one iteration of either loop)
  * list operations keep their Python order: l.pop() -> py_pop_last, l.pop(0) -> py_pop_first,
    extend/append/reversed/comprehensions are emitted as written
  * `x is None or ...` / `x is not None and ...` / `if x:` on optional values become `match`
  * filter functions are `option (elem -> bool)` (None = Python None, the bool is the truth value
    of the call); callbacks of `apply` are `option (node -> ev)`
  * the object graph is the record `objgraph` (child list, parent pointer, edge, identity, age)

It is a compiler for a small whitelisted subset, not a table of known function bodies: every
emitted definition is assembled from the statements found in the source.  Anything outside the
subset raises Unsupported (py2coq then writes a stub, so every dependent proof breaks).
"""
import ast
import os


class Unsupported(Exception):
    pass


class Raising(Unsupported):
    """expression contains a sub-expression that can raise (subscript) - needs CPS hoisting"""


class Widen(Exception):
    def __init__(self, var, ty):
        self.var, self.ty = var, ty


# ----------------------------------------------------------------------------------------------
# types
# ----------------------------------------------------------------------------------------------
NODE, EDGE, TREE, BOOL, INT, NONE, ANY, EV = ("node",), ("edge",), ("tree",), ("bool",), ("int",), ("none",), ("any",), ("ev",)


def TList(t): return ("list", t)
def TTuple(a, b): return ("tuple", a, b)
def TOpt(t): return ("opt", t)
def TFn(a): return ("fn", a)          # callable elem -> truth value
def TGen(t): return ("gen", t)
CB = ("cb",)                           # callable node -> event (narrowed callback)


def coq_ty(t):
    k = t[0]
    if k == "node": return "(gnode G)"
    if k == "edge": return "(gedge G)"
    if k == "bool": return "bool"
    if k == "int": return "Z"
    if k == "ev": return "ev"
    if k == "list": return "(list %s)" % coq_ty(t[1])
    if k == "tuple": return "(%s * %s)" % (coq_ty(t[1]), coq_ty(t[2]))
    if k == "opt": return "(option %s)" % coq_ty(t[1])
    if k == "fn": return "(%s -> bool)" % coq_ty(t[1])
    if k == "cb": return "((gnode G) -> ev)"
    raise Unsupported("no Coq type for %r" % (t,))


def compat(a, b):
    if a == ANY or b == ANY or a == b:
        return True
    if a[0] == b[0] and a[0] in ("list", "opt", "fn", "gen"):
        return compat(a[1], b[1])
    if a[0] == b[0] == "tuple":
        return compat(a[1], b[1]) and compat(a[2], b[2])
    return False


ERRS = {"TypeError": "TypeErr", "ValueError": "ValueErr", "IndexError": "IndexErr",
        "AttributeError": "AttrErr", "KeyError": "KeyErr", "AssertionError": "AssertErr"}

LIST_MUTATORS = ("pop", "extend", "append", "sort")


def dump(e):
    return ast.dump(e)


def names_in(e):
    return {n.id for n in ast.walk(e) if isinstance(n, ast.Name)}


class Env:
    def __init__(self, vars=None, narrowed=None, order=None):
        self.vars = dict(vars or {})            # python name -> (coq text, type)
        self.narrowed = dict(narrowed or {})    # dump(expr) -> (coq text, type, names)
        self.order = list(order or [])          # definition order of local variables

    def copy(self):
        return Env(self.vars, self.narrowed, self.order)

    def bind(self, name, text, ty):
        e = self.copy()
        e.vars[name] = (text, ty)
        if name not in e.order:
            e.order.append(name)
        e.narrowed = {k: v for k, v in e.narrowed.items() if name not in v[2]}
        return e

    def narrow(self, expr, text, ty):
        e = self.copy()
        if isinstance(expr, ast.Name):
            e.vars[expr.id] = (text, ty)
        else:
            e.narrowed[dump(expr)] = (text, ty, names_in(expr))
        return e


# ----------------------------------------------------------------------------------------------
# modes: where yields go
# ----------------------------------------------------------------------------------------------
class GenMode:
    kind = "gen"
    def emit(self, v, rest): return "(gcons %s\n  %s)" % (v, rest)
    def rz(self, err): return "(GRaise [] %s)" % err


class StepMode:
    kind = "step"
    def emit(self, v, rest): return "(let out := out ++ [%s] in\n  %s)" % (v, rest)
    def rz(self, err): return "(SRaise out %s)" % err


class ListMode:
    kind = "list"
    def emit(self, v, rest): return "(%s :: %s)" % (v, rest)
    def rz(self, err): raise Unsupported("raise inside a for-body")


# ----------------------------------------------------------------------------------------------
# one function
# ----------------------------------------------------------------------------------------------
PARAM_TYPES = {
    "exclude_seed_node": BOOL, "exclude_seed_edge": BOOL, "inclusive": BOOL,
    "include_leaves": BOOL, "descending": BOOL,
    "before_fn": TOpt(CB), "after_fn": TOpt(CB), "leaf_fn": TOpt(CB),
}


def coq_name(cls, name):
    if name.startswith("__") and name.endswith("__"):
        name = "dunder_" + name[2:-2]
    return "%s_%s" % (cls, name)


class Fn:
    def __init__(self, gen, cls, fndef, elem, kind):
        self.gen = gen                  # the Generator (registry)
        self.cls = cls
        self.fn = fndef
        self.elem = elem                # NODE | EDGE | EV : what is yielded / what the filter sees
        self.kind = kind                # 'gen' | 'pure' | 'count'
        self.name = coq_name(cls, fndef.name)
        self.counter = 0
        self.aux = []                   # auxiliary definitions (state type, step function)
        self.recursive = False
        self.K_end = None

    # -- helpers -------------------------------------------------------------------------------
    def fresh(self, base):
        self.counter += 1
        return "%s%d" % (base, self.counter)

    def body(self):
        b = list(self.fn.body)
        if b and isinstance(b[0], ast.Expr) and isinstance(b[0].value, ast.Constant) and isinstance(b[0].value.value, str):
            b = b[1:]
        return b

    def signature(self):
        a = self.fn.args
        if a.kwonlyargs or a.posonlyargs:
            raise Unsupported("%s: argument form" % self.name)
        if a.vararg or a.kwarg:
            return None
        names = [x.arg for x in a.args]
        if not names or names[0] != "self":
            raise Unsupported("%s: first parameter is not self" % self.name)
        defaults = [None] * (len(names) - len(a.defaults)) + list(a.defaults)
        params = []
        for n, d in zip(names[1:], defaults[1:]):
            if n == "filter_fn":
                ty = TOpt(TFn(self.elem))
            elif n in PARAM_TYPES:
                ty = PARAM_TYPES[n]
            else:
                raise Unsupported("%s: parameter %s has no declared type" % (self.name, n))
            if d is not None and not (isinstance(d, ast.Constant) and d.value in (None, True, False)):
                raise Unsupported("%s: default of %s" % (self.name, n))
            params.append((n, ty, d))
        return params

    def uses_ev(self):
        return any(ty == TOpt(CB) for _n, ty, _d in self.params)

    def param_text(self):
        out = []
        for n, ty, _d in self.params:
            out.append("(%s : %s)" % (n, coq_ty(ty)))
        self_ty = NODE if self.cls == "Node" else TREE
        if self_ty == NODE:
            out.append("(self : (gnode G))")
        else:
            out.append("(seed_node : (gnode G))")      # the only attribute of Tree that is read
        return " ".join(out)

    def param_args(self):
        out = [n for n, _t, _d in self.params]
        out.append("self" if self.cls == "Node" else "seed_node")
        return " ".join(out)

    def initial_env(self):
        env = Env()
        for n, ty, _d in self.params:
            env.vars[n] = (n, ty)
        env.vars["self"] = ("self", NODE) if self.cls == "Node" else ("<tree>", TREE)
        return env

    # -- truthiness ----------------------------------------------------------------------------
    def truthy(self, text, ty):
        k = ty[0]
        if k == "bool": return text
        if k == "list": return "(negb (py_is_empty %s))" % text
        if k == "opt": return "(py_is_some %s)" % text
        if k in ("node", "edge"): return "true"     # no __bool__/__len__ on Node/Edge: checked by the generator
        if k in ("fn", "cb"): return "true"
        if k == "none": return "false"
        if k == "int": return "(negb (Z.eqb %s 0))" % text
        raise Unsupported("%s: truth value of %r" % (self.name, ty))

    def coerce(self, text, ty, target):
        if compat(ty, target):
            return text
        if target[0] == "opt":
            if ty == NONE:
                return "None"
            if compat(ty, target[1]):
                return "(Some %s)" % text
        raise Unsupported("%s: cannot pass %r where %r is expected" % (self.name, ty, target))

    # -- pure expressions ----------------------------------------------------------------------
    def pexpr(self, e, env):
        d = dump(e)
        if d in env.narrowed:
            t, ty, _ = env.narrowed[d]
            return t, ty
        if isinstance(e, ast.Name):
            if e.id not in env.vars:
                raise Unsupported("%s: unknown name %s" % (self.name, e.id))
            return env.vars[e.id]
        if isinstance(e, ast.Constant):
            if e.value is None: return "None", NONE
            if e.value is True: return "true", BOOL
            if e.value is False: return "false", BOOL
            if isinstance(e.value, int): return "(%d)" % e.value, INT
            raise Unsupported("%s: constant %r" % (self.name, e.value))
        if isinstance(e, ast.Attribute):
            vt, vty = self.pexpr(e.value, env)
            return self.attribute(vt, vty, e.attr)
        if isinstance(e, ast.Subscript):
            raise Raising("%s: subscript" % self.name)
        if isinstance(e, ast.Tuple):
            if len(e.elts) != 2:
                raise Unsupported("%s: tuple arity" % self.name)
            (a, ta), (b, tb) = self.pexpr(e.elts[0], env), self.pexpr(e.elts[1], env)
            return "(%s, %s)" % (a, b), TTuple(ta, tb)
        if isinstance(e, ast.List):
            if len(e.elts) != 1:
                raise Unsupported("%s: list display with %d elements" % (self.name, len(e.elts)))
            a, ta = self.pexpr(e.elts[0], env)
            return "[%s]" % a, TList(ta)
        if isinstance(e, (ast.ListComp, ast.GeneratorExp)):
            return self.comprehension(e, env)
        if isinstance(e, ast.Lambda):
            return self.lam(e, env)
        if isinstance(e, ast.Compare) or (isinstance(e, ast.UnaryOp) and isinstance(e.op, ast.Not)):
            return self.pbool(e, env), BOOL
        if isinstance(e, ast.BoolOp):
            raise Unsupported("%s: value of and/or used outside a boolean context" % self.name)
        if isinstance(e, ast.Call):
            return self.call(e, env)
        raise Unsupported("%s: expression %s" % (self.name, type(e).__name__))

    def attribute(self, vt, vty, attr):
        if vty == NODE:
            if attr == "_child_nodes": return "(attr_child_nodes G %s)" % vt, TList(NODE)
            if attr == "_parent_node": return "(attr_parent_node G %s)" % vt, TOpt(NODE)
            if attr in ("_edge", "edge"): return "(attr_edge G %s)" % vt, EDGE    # edge property checked
            if attr == "age": return "(attr_age G %s)" % vt, INT
        if vty == EDGE:
            if attr == "_head_node": return "(attr_head_node G %s)" % vt, NODE
        if vty == TREE:
            if attr == "seed_node": return "seed_node", NODE                   # seed_node property checked
        if vty[0] == "opt":
            raise Unsupported("%s: attribute %s of a possibly-None value" % (self.name, attr))
        raise Unsupported("%s: attribute %s of %r" % (self.name, attr, vty))

    def comprehension(self, e, env):
        if len(e.generators) != 1:
            raise Unsupported("%s: nested comprehension" % self.name)
        g = e.generators[0]
        if g.ifs or g.is_async or not isinstance(g.target, ast.Name):
            raise Unsupported("%s: comprehension form" % self.name)
        it, ity = self.pexpr(g.iter, env)
        v = g.target.id
        if ity[0] == "list":
            elt, ety = self.pexpr(e.elt, env.bind(v, v, ity[1]))
            return "(map (fun %s => %s) %s)" % (v, elt, it), TList(ety)
        if ity[0] == "gen":
            elt, ety = self.pexpr(e.elt, env.bind(v, v, ity[1]))
            return "(gflat_map (fun %s => [%s]) %s)" % (v, elt, it), TGen(ety)
        raise Unsupported("%s: comprehension over %r" % (self.name, ity))

    def lam(self, e, env):
        a = e.args
        if len(a.args) != 1 or a.vararg or a.kwarg or a.defaults or a.kwonlyargs:
            raise Unsupported("%s: lambda form" % self.name)
        x = a.args[0].arg
        ok = []
        for ty in (NODE, EDGE):
            try:
                ok.append((ty, self.pbool(e.body, env.bind(x, x, ty))))
            except Raising:
                raise
            except Unsupported as ex:
                last = ex
        if not ok:
            raise Unsupported("%s: lambda body: %s" % (self.name, last))
        if len(ok) == 2 and ok[0][1] == ok[1][1]:
            return "(fun %s => %s)" % (x, ok[0][1]), TFn(ANY)
        if len(ok) == 2:
            raise Unsupported("%s: ambiguous lambda parameter type" % self.name)
        ty, body = ok[0]
        return "(fun (%s : %s) => %s)" % (x, coq_ty(ty), body), TFn(ty)

    def call(self, e, env):
        f = e.func
        if isinstance(f, ast.Name):
            if f.id in env.vars:
                ft, fty = env.vars[f.id]
                if fty[0] in ("fn", "cb"):
                    if len(e.args) != 1 or e.keywords:
                        raise Unsupported("%s: call form of %s" % (self.name, f.id))
                    at, aty = self.pexpr(e.args[0], env)
                    want = fty[1] if fty[0] == "fn" else NODE
                    if not compat(aty, want):
                        raise Unsupported("%s: %s applied to %r, expects %r" % (self.name, f.id, aty, want))
                    return "(%s %s)" % (ft, at), (BOOL if fty[0] == "fn" else EV)
                if fty[0] == "opt":
                    raise Unsupported("%s: call of possibly-None %s" % (self.name, f.id))
                raise Unsupported("%s: call of %s : %r" % (self.name, f.id, fty))
            if e.keywords or len(e.args) != 1:
                raise Unsupported("%s: builtin call form %s" % (self.name, f.id))
            if f.id == "bool":
                return self.pbool(e.args[0], env), BOOL
            at, aty = self.pexpr(e.args[0], env)
            if f.id == "len" and aty[0] == "list":
                return "(py_len %s)" % at, INT
            if f.id == "reversed" and aty[0] == "list":
                return "(py_reversed %s)" % at, aty
            if f.id == "list" and aty[0] == "list":
                return "(py_list %s)" % at, aty
            raise Unsupported("%s: call of %s on %r" % (self.name, f.id, aty))
        if isinstance(f, ast.Attribute):
            rt, rty = self.pexpr(f.value, env)
            return self.method_call(rt, rty, f.attr, e, env)
        raise Unsupported("%s: call %s" % (self.name, dump(f)))

    def method_call(self, rt, rty, meth, e, env):
        cls = {NODE: "Node", TREE: "Tree"}.get(rty)
        if cls is None:
            raise Unsupported("%s: method %s of %r" % (self.name, meth, rty))
        if cls == self.cls and meth == self.fn.name:
            sig = self.sig_entry()
            self.recursive = True
        else:
            sig = self.gen.registry.get((cls, meth))
        if sig is None:
            raise Unsupported("%s: call of untranslated %s.%s" % (self.name, cls, meth))
        for a in e.args:
            if isinstance(a, ast.Starred):
                raise Unsupported("%s: starred argument" % self.name)
        if any(k.arg is None for k in e.keywords):
            raise Unsupported("%s: ** argument" % self.name)
        params = sig["params"]
        if len(e.args) > len(params):
            raise Unsupported("%s: too many arguments to %s" % (self.name, meth))
        given = {}
        for p, a in zip(params, e.args):
            given[p[0]] = a
        for k in e.keywords:
            if k.arg in given or k.arg not in [p[0] for p in params]:
                raise Unsupported("%s: keyword %s to %s" % (self.name, k.arg, meth))
            given[k.arg] = k.value
        args = []
        for n, ty, d in params:
            if n in given:
                at, aty = self.pexpr(given[n], env)
            elif d is not None:
                at, aty = self.pexpr(d, env)
            else:
                raise Unsupported("%s: missing argument %s to %s" % (self.name, n, meth))
            args.append(self.coerce(at, aty, ty))
        recv = rt if cls == "Node" else "seed_node"
        if sig["kind"] == "pure":
            return "(%s %s)" % (sig["coq"], " ".join(args + [recv])), sig["ret"]
        if sig["kind"] == "gen":
            return "(%s fuel %s)" % (sig["coq"], " ".join(args + [recv])), TGen(sig["elem"])
        raise Unsupported("%s: call of %s.%s in an expression" % (self.name, cls, meth))

    def sig_entry(self):
        return {"coq": self.name, "params": self.params, "kind": self.kind, "elem": self.elem}

    # -- boolean expressions (pure, with internal narrowing) --------------------------------------
    def is_none_test(self, e):
        """(expr, positive) when e is `X is not None` (True) / `X is None` (False)"""
        if (isinstance(e, ast.Compare) and len(e.ops) == 1 and isinstance(e.comparators[0], ast.Constant)
                and e.comparators[0].value is None and isinstance(e.ops[0], (ast.Is, ast.IsNot))):
            return e.left, isinstance(e.ops[0], ast.IsNot)
        return None

    def opt_test(self, e, env):
        """(expr, text, inner type, positive) if e tests an optional value for presence"""
        t = self.is_none_test(e)
        if t:
            xt, xty = self.pexpr(t[0], env)
            if xty[0] == "opt":
                return t[0], xt, xty[1], t[1]
            return None
        if isinstance(e, (ast.Name, ast.Attribute)):
            xt, xty = self.pexpr(e, env)
            if xty[0] == "opt":
                return e, xt, xty[1], True
        return None

    def pbool(self, e, env):
        if isinstance(e, ast.BoolOp):
            is_and = isinstance(e.op, ast.And)
            first, rest = e.values[0], e.values[1:]
            rest_e = rest[0] if len(rest) == 1 else ast.BoolOp(op=e.op, values=rest)
            ot = self.opt_test(first, env)
            if ot and ot[3] == is_and:
                x, xt, inner, _pos = ot
                v = x.id if isinstance(x, ast.Name) else self.fresh("v")
                r = self.pbool(rest_e, env.narrow(x, v, inner))
                if is_and:
                    return "(match %s with Some %s => %s | None => false end)" % (xt, v, r)
                return "(match %s with None => true | Some %s => %s end)" % (xt, v, r)
            a = self.pbool(first, env)
            b = self.pbool(rest_e, env)
            return "(%s %s %s)" % (a, "&&" if is_and else "||", b)
        if isinstance(e, ast.UnaryOp) and isinstance(e.op, ast.Not):
            return "(negb %s)" % self.pbool(e.operand, env)
        if isinstance(e, ast.Compare):
            if len(e.ops) != 1:
                raise Unsupported("%s: chained comparison" % self.name)
            op = e.ops[0]
            t = self.is_none_test(e)
            if t:
                xt, xty = self.pexpr(t[0], env)
                if xty[0] == "opt":
                    return ("(py_is_some %s)" if t[1] else "(py_is_none %s)") % xt
                if xty == NONE:
                    return "false" if t[1] else "true"
                if xty[0] in ("node", "edge", "fn", "cb", "list", "int", "bool"):
                    return "true" if t[1] else "false"
                raise Unsupported("%s: None test of %r" % (self.name, xty))
            a, ta = self.pexpr(e.left, env)
            b, tb = self.pexpr(e.comparators[0], env)
            if isinstance(op, (ast.Is, ast.IsNot)):
                if ta == NODE and tb == NODE:
                    r = "(obj_is G %s %s)" % (a, b)
                    return r if isinstance(op, ast.Is) else "(negb %s)" % r
                raise Unsupported("%s: `is` between %r and %r" % (self.name, ta, tb))
            if ta == INT and tb == INT:
                f = {ast.Eq: "Z.eqb", ast.Gt: "Z.gtb", ast.GtE: "Z.geb", ast.Lt: "Z.ltb", ast.LtE: "Z.leb"}.get(type(op))
                if f:
                    return "(%s %s %s)" % (f, a, b)
                if isinstance(op, ast.NotEq):
                    return "(negb (Z.eqb %s %s))" % (a, b)
            raise Unsupported("%s: comparison %s" % (self.name, type(op).__name__))
        t, ty = self.pexpr(e, env)
        return self.truthy(t, ty)

    # -- CPS: hoisting of raising sub-expressions, conditions -------------------------------------
    def hoist(self, e, env, k, mode):
        """bind every subscript in e (evaluation order; e must not contain and/or) then k(env)"""
        subs = []

        def walk(n):
            if isinstance(n, ast.BoolOp):
                raise Unsupported("%s: subscript under and/or inside an expression" % self.name)
            if isinstance(n, ast.Lambda):
                return
            for c in ast.iter_child_nodes(n):
                walk(c)
            if isinstance(n, ast.Subscript) and dump(n) not in env.narrowed and n not in subs:
                subs.append(n)
        walk(e)

        def go(i, env):
            if i == len(subs):
                return k(env)
            s = subs[i]
            idx = s.slice
            if isinstance(idx, ast.UnaryOp) and isinstance(idx.op, ast.USub) and isinstance(idx.operand, ast.Constant):
                iv = -idx.operand.value
            elif isinstance(idx, ast.Constant) and isinstance(idx.value, int):
                iv = idx.value
            else:
                raise Unsupported("%s: subscript index" % self.name)
            lt, lty = self.pexpr(s.value, env)
            if lty[0] != "list":
                raise Unsupported("%s: subscript of %r" % (self.name, lty))
            v = self.fresh("item")
            env2 = env.copy()
            env2.narrowed[dump(s)] = (v, lty[1], names_in(s))
            return ("(match py_index %s (%d) with\n  | None => %s\n  | Some %s => %s\n  end)"
                    % (lt, iv, mode.rz("IndexErr"), v, go(i + 1, env2)))
        return go(0, env)

    def exports_narrowing(self, e, env):
        if isinstance(e, ast.BoolOp) and isinstance(e.op, ast.And):
            return self.exports_narrowing(e.values[0], env)
        try:
            ot = self.opt_test(e, env)
        except Unsupported:
            return False
        return bool(ot and ot[3])

    def cond(self, e, env, kt, kf, mode):
        """if e: kt(env') else: kf(env'), exporting `is not None` narrowings into the branches"""
        try:
            ot = None if isinstance(e, (ast.BoolOp, ast.UnaryOp)) else self.opt_test(e, env)
        except Raising:
            ot = None
        if ot:
            x, xt, inner, pos = ot
            v = x.id if isinstance(x, ast.Name) else self.fresh("v")
            some = (kt if pos else kf)(env.narrow(x, v, inner))
            none = (kf if pos else kt)(env)
            return "(match %s with\n  | Some %s => %s\n  | None => %s\n  end)" % (xt, v, some, none)
        if not self.exports_narrowing(e, env):
            try:
                b = self.pbool(e, env)
                return "(if %s\n  then %s\n  else %s)" % (b, kt(env), kf(env))
            except Raising:
                pass
        if isinstance(e, ast.BoolOp):
            first, rest = e.values[0], e.values[1:]
            rest_e = rest[0] if len(rest) == 1 else ast.BoolOp(op=e.op, values=rest)
            if isinstance(e.op, ast.And):
                return self.cond(first, env, lambda env1: self.cond(rest_e, env1, kt, kf, mode), kf, mode)
            return self.cond(first, env, kt, lambda env1: self.cond(rest_e, env1, kt, kf, mode), mode)
        if isinstance(e, ast.UnaryOp) and isinstance(e.op, ast.Not):
            return self.cond(e.operand, env, kf, kt, mode)
        return self.hoist(e, env, lambda env1: "(if %s\n  then %s\n  else %s)" % (self.pbool(e, env1), kt(env1), kf(env1)), mode)

    # -- statements ------------------------------------------------------------------------------
    def is_deprecation(self, s):
        return (isinstance(s, ast.Expr) and isinstance(s.value, ast.Call)
                and isinstance(s.value.func, ast.Attribute) and s.value.func.attr == "dendropy_deprecation_warning"
                and isinstance(s.value.func.value, ast.Name) and s.value.func.value.id == "deprecate")

    def is_age_init(self, s):
        """if self.seed_node.age is None: self.calc_node_ages()   (ages are an input of the model)"""
        if not (isinstance(s, ast.If) and not s.orelse and len(s.body) == 1):
            return False
        t = self.is_none_test(s.test)
        if not (t and not t[1] and dump(t[0]) == dump(ast.parse("self.seed_node.age", mode="eval").body)):
            return False
        b = s.body[0]
        return (isinstance(b, ast.Expr) and dump(b.value) == dump(ast.parse("self.calc_node_ages()", mode="eval").body))

    def block(self, stmts, env, K, mode):
        if not stmts:
            return K(env)
        s, rest = stmts[0], list(stmts[1:])
        nxt = K if not rest else (lambda env1: self.block(rest, env1, K, mode))
        if self.is_deprecation(s) or (self.cls == "Tree" and self.is_age_init(s)):
            return nxt(env)
        if isinstance(s, ast.Expr) and isinstance(s.value, ast.Constant) and isinstance(s.value.value, str):
            return nxt(env)
        if isinstance(s, ast.Expr) and isinstance(s.value, ast.Yield):
            if s.value.value is None:
                raise Unsupported("%s: bare yield" % self.name)
            def k(env1):
                v, ty = self.pexpr(s.value.value, env1)
                if not compat(ty, self.elem):
                    raise Unsupported("%s: yields %r, expected %r" % (self.name, ty, self.elem))
                return mode.emit(v, nxt(env))
            return self.hoist(s.value.value, env, k, mode)
        if isinstance(s, ast.Expr) and isinstance(s.value, ast.Call):
            return self.call_stmt(s.value, env, nxt, rest, K, mode)
        if isinstance(s, ast.Assign):
            return self.assign(s, env, nxt, mode)
        if isinstance(s, ast.If):
            return self.cond(s.test, env,
                             lambda e1: self.block(list(s.body), e1, nxt, mode),
                             lambda e1: self.block(list(s.orelse), e1, nxt, mode),
                             mode)
        if isinstance(s, ast.For):
            return self.for_stmt(s, env, nxt, mode)
        if isinstance(s, ast.While):
            if rest and not (len(rest) == 1 and isinstance(rest[0], ast.Return) and rest[0].value is None):
                raise Unsupported("%s: statements after a while loop" % self.name)
            if K is not self.K_end:
                raise Unsupported("%s: while loop not in tail position" % self.name)
            return self.while_stmt(s, env, mode)
        if isinstance(s, ast.Return):
            if mode.kind != "gen":
                raise Unsupported("%s: return inside a loop" % self.name)
            return self.return_stmt(s, env)
        if isinstance(s, ast.Raise):
            exc = s.exc
            if isinstance(exc, ast.Call):
                exc = exc.func
            if not (isinstance(exc, ast.Name) and exc.id in ERRS) or s.cause:
                raise Unsupported("%s: raise form" % self.name)
            return mode.rz(ERRS[exc.id])
        if isinstance(s, ast.Break):
            if mode.kind != "step" or not self.break_k:
                raise Unsupported("%s: break outside a loop" % self.name)
            return self.break_k[-1](env)
        raise Unsupported("%s: statement %s" % (self.name, type(s).__name__))

    def call_stmt(self, c, env, nxt, rest, K, mode):
        f = c.func
        # callback invocation: an event
        if isinstance(f, ast.Name) and f.id in env.vars and env.vars[f.id][1] == CB:
            def k(env1):
                v, ty = self.pexpr(c, env1)
                if self.elem != EV:
                    raise Unsupported("%s: callback call in a node iterator" % self.name)
                return mode.emit(v, nxt(env))
            return self.hoist(c, env, k, mode)
        if isinstance(f, ast.Attribute) and isinstance(f.value, ast.Name) and f.value.id in env.vars \
                and env.vars[f.value.id][1][0] == "list" and f.attr in LIST_MUTATORS:
            lst = f.value.id
            lt, lty = env.vars[lst]
            if f.attr == "extend":
                if len(c.args) != 1 or c.keywords:
                    raise Unsupported("%s: extend form" % self.name)
                at, aty = self.pexpr(c.args[0], env)
                if aty[0] != "list" or not compat(aty, lty):
                    raise Unsupported("%s: extend %r with %r" % (self.name, lty, aty))
                return "(let %s := py_extend %s %s in\n  %s)" % (lst, lt, at, nxt(env.bind(lst, lst, lty)))
            if f.attr == "append":
                if len(c.args) != 1 or c.keywords:
                    raise Unsupported("%s: append form" % self.name)
                at, aty = self.pexpr(c.args[0], env)
                if not compat(aty, lty[1]):
                    raise Unsupported("%s: append %r to %r" % (self.name, aty, lty))
                return "(let %s := py_append %s %s in\n  %s)" % (lst, lt, at, nxt(env.bind(lst, lst, lty)))
            if f.attr == "sort":
                kw = {k.arg: k.value for k in c.keywords}
                if c.args or set(kw) != {"key", "reverse"}:
                    raise Unsupported("%s: sort form" % self.name)
                key = kw["key"]
                if not (isinstance(key, ast.Lambda) and len(key.args.args) == 1):
                    raise Unsupported("%s: sort key" % self.name)
                x = key.args.args[0].arg
                kt, kty = self.pexpr(key.body, env.bind(x, x, lty[1]))
                if kty != INT:
                    raise Unsupported("%s: sort key of type %r" % (self.name, kty))
                rt, rty = self.pexpr(kw["reverse"], env)
                if rty != BOOL:
                    raise Unsupported("%s: sort reverse of type %r" % (self.name, rty))
                return ("(let %s := py_sort_by (fun %s => %s) %s %s in\n  %s)"
                        % (lst, x, kt, rt, lt, nxt(env.bind(lst, lst, lty))))
            raise Unsupported("%s: statement %s.%s(...)" % (self.name, lst, f.attr))
        # a call of another traversal for its effects (Tree.apply -> Node.apply)
        if mode.kind == "gen":
            t, ty = self.pexpr(c, env)
            if ty[0] == "gen" and compat(ty[1], self.elem):
                if not rest and K is self.K_end:
                    return t
                return "(gseq %s\n  %s)" % (t, nxt(env))
        raise Unsupported("%s: call statement %s" % (self.name, ast.unparse(c)))

    def pop_call(self, v, env):
        """v is `L.pop()` / `L.pop(0)` -> (list name, primitive) or None"""
        if (isinstance(v, ast.Call) and isinstance(v.func, ast.Attribute) and v.func.attr == "pop"
                and isinstance(v.func.value, ast.Name) and v.func.value.id in env.vars
                and env.vars[v.func.value.id][1][0] == "list" and not v.keywords):
            if not v.args:
                return v.func.value.id, "py_pop_last"
            if len(v.args) == 1 and isinstance(v.args[0], ast.Constant) and v.args[0].value == 0:
                return v.func.value.id, "py_pop_first"
            raise Unsupported("%s: pop index %s" % (self.name, ast.unparse(v.args[0])))
        return None

    def assign(self, s, env, nxt, mode):
        if len(s.targets) != 1:
            raise Unsupported("%s: chained assignment" % self.name)
        tgt = s.targets[0]
        pc = self.pop_call(s.value, env)
        if pc:
            lst, prim = pc
            lt, lty = env.vars[lst]
            ety = lty[1]
            if isinstance(tgt, ast.Name):
                pat = tgt.id
                env1 = env.bind(tgt.id, tgt.id, ety)
            elif (isinstance(tgt, ast.Tuple) and len(tgt.elts) == 2 and all(isinstance(x, ast.Name) for x in tgt.elts)
                  and ety[0] == "tuple"):
                a, b = tgt.elts[0].id, tgt.elts[1].id
                pat = "(%s, %s)" % (a, b)
                env1 = env.bind(a, a, ety[1]).bind(b, b, ety[2])
            else:
                raise Unsupported("%s: pop target" % self.name)
            env1 = env1.bind(lst, lst, lty)
            return ("(match %s %s with\n  | None => %s\n  | Some (%s, %s) =>\n  %s\n  end)"
                    % (prim, lt, mode.rz("IndexErr"), pat, lst, nxt(env1)))
        if not isinstance(tgt, ast.Name):
            raise Unsupported("%s: assignment target" % self.name)

        def k(env1):
            t, ty = self.pexpr(s.value, env1)
            if ty[0] == "gen":
                if mode.kind != "gen":
                    raise Unsupported("%s: generator consumed inside a loop" % self.name)
                return "(gbind %s (fun %s =>\n  %s))" % (t, tgt.id, nxt(env.bind(tgt.id, tgt.id, TList(ty[1]))))
            if ty == NONE:
                return nxt(env.bind(tgt.id, "None", NONE))
            return "(let %s := %s in\n  %s)" % (tgt.id, t, nxt(env.bind(tgt.id, tgt.id, ty)))
        return self.hoist(s.value, env, k, mode)

    def for_stmt(self, s, env, nxt, mode):
        if s.orelse or not isinstance(s.target, ast.Name) or mode.kind != "gen":
            raise Unsupported("%s: for form" % self.name)
        v = s.target.id

        def k(env1):
            it, ity = self.pexpr(s.iter, env1)
            if ity[0] not in ("list", "gen"):
                raise Unsupported("%s: for over %r" % (self.name, ity))
            benv = env1.bind(v, v, ity[1])
            # counting loop:  for v in G: n += 1
            if (len(s.body) == 1 and isinstance(s.body[0], ast.AugAssign) and isinstance(s.body[0].op, ast.Add)
                    and isinstance(s.body[0].target, ast.Name) and self.kind == "count"):
                c = s.body[0].target.id
                ct, cty = env1.vars.get(c, (None, None))
                inc, incty = self.pexpr(s.body[0].value, benv)
                if cty != INT or incty != INT:
                    raise Unsupported("%s: counting loop types" % self.name)
                if ity[0] == "list":
                    return "(let %s := fold_left (fun %s %s => Z.add %s %s) %s %s in\n  %s)" % (c, c, v, c, inc, it, ct, nxt(env.bind(c, c, INT)))
                return ("(gbind_res %s (fun dv_items =>\n  let %s := fold_left (fun %s %s => Z.add %s %s) dv_items %s in\n  %s))"
                        % (it, c, c, v, c, inc, ct, nxt(env.bind(c, c, INT))))
            if self.kind == "count":
                raise Unsupported("%s: for body in a counting function" % self.name)
            lm = ListMode()
            saved = self.K_end
            body = self.block(list(s.body), benv, lambda _e: "[]", lm)
            self.K_end = saved
            fn = "(fun %s => %s)" % (v, body)
            if ity[0] == "list":
                g = "(GDone (flat_map %s %s))" % (fn, it)
            else:
                g = "(gflat_map %s %s)" % (fn, it)
            if nxt is self.K_end:
                return g
            return "(gseq %s\n  %s)" % (g, nxt(env))
        return self.hoist(s.iter, env, k, mode)

    def return_stmt(self, s, env):
        if self.kind == "count":
            t, ty = self.pexpr(s.value, env)
            if ty != INT:
                raise Unsupported("%s: returns %r" % (self.name, ty))
            return "(Ok %s)" % t
        if s.value is None:
            return "(GDone [])"

        def k(env1):
            t, ty = self.pexpr(s.value, env1)
            if ty[0] == "gen" and compat(ty[1], self.elem):
                return t
            if ty[0] == "list" and compat(ty[1], self.elem):
                return "(GDone %s)" % t
            raise Unsupported("%s: returns %r" % (self.name, ty))
        return self.hoist(s.value, env, k, GenMode())

    # -- while loops -> machines --------------------------------------------------------------------
    def mutated(self, loop):
        out = set()
        for n in ast.walk(loop):
            if isinstance(n, ast.Name) and isinstance(n.ctx, ast.Store):
                out.add(n.id)
            if (isinstance(n, ast.Call) and isinstance(n.func, ast.Attribute) and n.func.attr in LIST_MUTATORS
                    and isinstance(n.func.value, ast.Name)):
                out.add(n.func.value.id)
        return out

    def while_stmt(self, loop, env, mode):
        if loop.orelse:
            raise Unsupported("%s: while-else" % self.name)
        if mode.kind == "gen":
            # outermost loop: new machine (compiled once; CPS may reach the loop on several paths)
            if self.machine is not None:
                if self.top_loop is not loop:
                    raise Unsupported("%s: two while loops" % self.name)
                return "(run (%s_step %s) fuel %s)" % (self.name, self.param_args(), self.state_value(0, env))
            self.top_loop = loop
            mut = self.mutated(loop)
            clobbered = [n for n in mut if n == "self" or n in [p[0] for p in self.params]]
            if clobbered:
                raise Unsupported("%s: loop assigns parameter %s" % (self.name, clobbered))
            svars = [v for v in env.order if v in mut]
            captured = [v for v in env.order if v not in mut and v in names_in(loop)]
            if captured:
                raise Unsupported("%s: loop reads local %s defined before it" % (self.name, captured))
            if not svars:
                raise Unsupported("%s: loop without state" % self.name)
            types = {v: env.vars[v][1] for v in svars}
            for _attempt in range(4):
                try:
                    self.machine = {"states": [], "types": types}
                    self.loop_idx = {}
                    self.break_k = []
                    saved_counter = self.counter
                    self.add_state(loop, svars, types, exit_k=lambda e: "(SStop out)")
                    break
                except Widen as w:
                    types = dict(types)
                    types[w.var] = w.ty
                    self.counter = saved_counter
            else:
                raise Unsupported("%s: loop state types do not stabilise" % self.name)
            self.emit_machine()
            init = self.state_value(0, env)
            return "(run (%s_step %s) fuel %s)" % (self.name, self.param_args(), init)
        # nested loop in tail position of the outer body: a further control state
        if id(loop) in self.loop_idx:
            return "(SNext %s out)" % self.state_value(self.loop_idx[id(loop)], env)
        if self.tail_k is None or len(self.machine["states"]) != 1:
            raise Unsupported("%s: nested while loop not supported here" % self.name)
        outer = self.machine["states"][0]
        extra = [v for v in env.order if v not in outer["vars"] and v in names_in(loop)]
        svars = outer["vars"] + extra
        types = dict(self.machine["types"])
        for v in extra:
            types[v] = env.vars[v][1]
        self.machine["types"] = types
        outer_exit = self.tail_k
        self.loop_idx[id(loop)] = len(self.machine["states"])
        idx = self.add_state(loop, svars, types, exit_k=outer_exit)
        return "(SNext %s out)" % self.state_value(idx, env)

    def state_ctor(self, idx):
        return "%s_S%d" % (self.name, idx)

    def state_value(self, idx, env):
        st = self.machine["states"][idx]
        vals = []
        for v in st["vars"]:
            t, ty = env.vars[v]
            want = self.machine["types"][v]
            if compat(ty, want):
                vals.append(t)
            elif want[0] == "opt" and compat(ty, want[1]):
                vals.append("(Some %s)" % t)
            elif ty[0] == "opt" and compat(ty[1], want):
                raise Widen(v, ty)
            else:
                raise Unsupported("%s: loop variable %s changes type %r -> %r" % (self.name, v, want, ty))
        if self.multi_state():
            return "(%s %s)" % (self.state_ctor(idx), " ".join(vals))
        return vals[0] if len(vals) == 1 else "(%s)" % ", ".join(vals)

    def multi_state(self):
        return self.n_loops > 1

    def add_state(self, loop, svars, types, exit_k):
        idx = len(self.machine["states"])
        st = {"vars": svars, "text": None}
        self.machine["states"].append(st)
        env = Env()
        for n, ty, _d in self.params:
            env.vars[n] = (n, ty)
        env.vars["self"] = ("self", NODE) if self.cls == "Node" else ("<tree>", TREE)
        for v in svars:
            env = env.bind(v, v, types[v])
        sm = StepMode()
        back = lambda e: "(SNext %s out)" % self.state_value(idx, e)
        saved_tail, saved_end = self.tail_k, self.K_end
        self.tail_k = back if idx == 0 else None
        self.K_end = back
        self.break_k.append(exit_k)
        try:
            body = self.cond(loop.test, env, lambda e1: self.block(list(loop.body), e1, back, sm), exit_k, sm)
        finally:
            self.break_k.pop()
            self.tail_k, self.K_end = saved_tail, saved_end
        st["text"] = body
        return idx

    def emit_machine(self):
        m = self.machine
        types = m["types"]
        out_ty = coq_ty(self.elem)
        ev = "{ev : Type} " if self.uses_ev() else ""
        evarg = " ev" if self.uses_ev() else ""
        if self.multi_state():
            sty = "%s_state" % self.name
            ctors = []
            for i, st in enumerate(m["states"]):
                ctors.append("| %s %s" % (self.state_ctor(i), " ".join("(%s : %s)" % (v, coq_ty(types[v])) for v in st["vars"])))
            self.aux.append("Inductive %s : Type :=\n%s." % (sty, "\n".join(ctors)))
            arms = []
            for i, st in enumerate(m["states"]):
                arms.append("  | %s %s =>\n  let out := @nil %s in\n  %s" % (self.state_ctor(i), " ".join(st["vars"]), out_ty, st["text"]))
            self.aux.append("Definition %s_step %s%s (st : %s) : sres %s %s :=\n  match st with\n%s\n  end."
                            % (self.name, ev, self.param_text(), sty, sty, out_ty, "\n".join(arms)))
        else:
            st = m["states"][0]
            tys = [coq_ty(types[v]) for v in st["vars"]]
            sty = tys[0] if len(tys) == 1 else "(%s)" % " * ".join(tys)
            if len(st["vars"]) == 1:
                binder = "(%s : %s)" % (st["vars"][0], sty)
                pre = ""
            else:
                binder = "(st : %s)" % sty
                pre = "let '(%s) := st in\n  " % ", ".join(st["vars"])
            self.aux.append("Definition %s_step %s%s %s : sres %s %s :=\n  %slet out := @nil %s in\n  %s."
                            % (self.name, ev, self.param_text(), binder, sty, out_ty, pre, out_ty, st["text"]))

    # -- the whole function --------------------------------------------------------------------------
    RESERVED = {"out", "fuel", "G", "st", "ev", "dv_items", "run", "match", "with", "end", "let", "in", "fun", "if",
                "then", "else", "Some", "None", "true", "false", "gnode", "gedge", "fix", "forall", "as", "return",
                "Type", "Prop", "Set", "at", "using", "where", "struct", "cofix", "exists", "S", "O", "Ok", "Err"}

    def compile(self):
        for n in ast.walk(self.fn):
            ident = n.id if isinstance(n, ast.Name) else (n.arg if isinstance(n, ast.arg) else None)
            if ident is not None and (ident in self.RESERVED or not ident.isascii() or ident.startswith("item")
                                      or (ident[:1] == "v" and ident[1:].isdigit())
                                      or ident.startswith(("Node_", "Tree_", "py_", "attr_", "obj_"))):
                raise Unsupported("%s: identifier %s clashes with the generated code" % (self.name, ident))
        self.params = self.signature()
        body = self.body()
        if self.params is None:
            return self.alias(body)
        self.machine = None
        self.tail_k = None
        self.break_k = []
        self.n_loops = sum(1 for n in ast.walk(self.fn) if isinstance(n, ast.While))
        if self.n_loops > 2:
            raise Unsupported("%s: more than two loops" % self.name)
        env = self.initial_env()
        if self.kind == "pure":
            if len(body) != 1 or not isinstance(body[0], ast.Return):
                raise Unsupported("%s: helper method is not a single return" % self.name)
            t, ty = self.pexpr(body[0].value, env)
            self.ret = ty
            return ["Definition %s %s : %s :=\n  %s." % (self.name, self.param_text(), coq_ty(ty), t)]
        if self.kind == "count":
            end = lambda e: (_ for _ in ()).throw(Unsupported("%s: falls off the end" % self.name))
            self.K_end = end
            text = self.block(body, env, end, GenMode())
            return ["Definition %s (fuel : nat) %s : res Z :=\n  %s." % (self.name, self.param_text(), text)]
        end = lambda e: "(GDone [])"
        self.K_end = end
        text = self.block(body, env, end, GenMode())
        out_ty = coq_ty(self.elem)
        ev = "{ev : Type} " if self.uses_ev() else ""
        if self.recursive:
            main = ("Fixpoint %s (fuel : nat) %s%s {struct fuel} : gres %s :=\n  match fuel with\n  | O => GFuel\n  | S fuel =>\n  %s\n  end."
                    % (self.name, ev, self.param_text(), out_ty, text))
        else:
            main = "Definition %s (fuel : nat) %s%s : gres %s :=\n  %s." % (self.name, ev, self.param_text(), out_ty, text)
        return self.aux + [main]

    def alias(self, body):
        """def f(self, *args, **kwargs): return self.g(*args, **kwargs)"""
        a = self.fn.args
        if not (len(body) == 1 and isinstance(body[0], ast.Return) and isinstance(body[0].value, ast.Call)):
            raise Unsupported("%s: *args function is not a plain delegation" % self.name)
        c = body[0].value
        ok = (isinstance(c.func, ast.Attribute) and isinstance(c.func.value, ast.Name) and c.func.value.id == "self"
              and len(c.args) == 1 and isinstance(c.args[0], ast.Starred) and isinstance(c.args[0].value, ast.Name)
              and a.vararg and c.args[0].value.id == a.vararg.arg
              and len(c.keywords) == 1 and c.keywords[0].arg is None and isinstance(c.keywords[0].value, ast.Name)
              and a.kwarg and c.keywords[0].value.id == a.kwarg.arg and len(a.args) == 1)
        if not ok:
            raise Unsupported("%s: *args function is not a plain delegation" % self.name)
        sig = self.gen.registry.get((self.cls, c.func.attr))
        if not sig or sig["kind"] != "gen":
            raise Unsupported("%s: delegates to untranslated %s" % (self.name, c.func.attr))
        self.params = sig["params"]
        self.elem = sig["elem"]
        return ["Definition %s (fuel : nat) %s : gres %s :=\n  %s fuel %s."
                % (self.name, self.param_text(), coq_ty(self.elem), sig["coq"], self.param_args())]


# ----------------------------------------------------------------------------------------------
# the file
# ----------------------------------------------------------------------------------------------
# (class, method, kind, element type)
PLAN = [
    ("Node", "child_nodes", "pure", NODE),
    ("Node", "is_leaf", "pure", NODE),
    ("Node", "is_internal", "pure", NODE),
    ("Node", "preorder_iter", "gen", NODE),
    ("Node", "preorder_internal_node_iter", "gen", NODE),
    ("Node", "postorder_iter", "gen", NODE),
    ("Node", "postorder_internal_node_iter", "gen", NODE),
    ("Node", "levelorder_iter", "gen", NODE),
    ("Node", "level_order_iter", "gen", NODE),
    ("Node", "inorder_iter", "gen", NODE),
    ("Node", "leaf_iter", "gen", NODE),
    ("Node", "child_node_iter", "gen", NODE),
    ("Node", "child_edge_iter", "gen", EDGE),
    ("Node", "ancestor_iter", "gen", NODE),
    ("Node", "ageorder_iter", "gen", NODE),
    ("Node", "age_order_iter", "gen", NODE),
    ("Node", "apply", "gen", EV),
    ("Node", "__iter__", "gen", NODE),
    ("Node", "leaf_nodes", "gen", NODE),
    ("Tree", "preorder_node_iter", "gen", NODE),
    ("Tree", "preorder_internal_node_iter", "gen", NODE),
    ("Tree", "postorder_node_iter", "gen", NODE),
    ("Tree", "postorder_internal_node_iter", "gen", NODE),
    ("Tree", "levelorder_node_iter", "gen", NODE),
    ("Tree", "level_order_node_iter", "gen", NODE),
    ("Tree", "inorder_node_iter", "gen", NODE),
    ("Tree", "leaf_node_iter", "gen", NODE),
    ("Tree", "leaf_iter", "gen", NODE),
    ("Tree", "ageorder_node_iter", "gen", NODE),
    ("Tree", "age_order_node_iter", "gen", NODE),
    ("Tree", "apply", "gen", EV),
    ("Tree", "preorder_edge_iter", "gen", EDGE),
    ("Tree", "preorder_internal_edge_iter", "gen", EDGE),
    ("Tree", "postorder_edge_iter", "gen", EDGE),
    ("Tree", "postorder_internal_edge_iter", "gen", EDGE),
    ("Tree", "levelorder_edge_iter", "gen", EDGE),
    ("Tree", "level_order_edge_iter", "gen", EDGE),
    ("Tree", "inorder_edge_iter", "gen", EDGE),
    ("Tree", "leaf_edge_iter", "gen", EDGE),
    ("Tree", "nodes", "gen", NODE),
    ("Tree", "leaf_nodes", "gen", NODE),
    ("Tree", "internal_nodes", "gen", NODE),
    ("Tree", "edges", "gen", EDGE),
    ("Tree", "leaf_edges", "gen", EDGE),
    ("Tree", "internal_edges", "gen", EDGE),
    ("Tree", "__iter__", "gen", NODE),
    ("Tree", "__len__", "count", NODE),
]


def find_class(mod, name):
    for n in mod.body:
        if isinstance(n, ast.ClassDef) and n.name == name:
            return n
    raise Unsupported("class %s not found" % name)


def find_method(cls, name):
    found = [n for n in cls.body if isinstance(n, ast.FunctionDef) and n.name == name]
    if len(found) != 1:
        raise Unsupported("%s.%s: %d definitions" % (cls.name, name, len(found)))
    if found[0].decorator_list:
        raise Unsupported("%s.%s: decorated" % (cls.name, name))
    return found[0]


def check_property(cls, prop, getter, field):
    """`prop = property(getter, ...)` and getter is `return self.<field>`"""
    ok = False
    for n in cls.body:
        if (isinstance(n, ast.Assign) and len(n.targets) == 1 and isinstance(n.targets[0], ast.Name)
                and n.targets[0].id == prop):
            v = n.value
            ok = (isinstance(v, ast.Call) and isinstance(v.func, ast.Name) and v.func.id == "property"
                  and v.args and isinstance(v.args[0], ast.Name) and v.args[0].id == getter)
    if not ok:
        raise Unsupported("%s.%s is not property(%s, ...)" % (cls.name, prop, getter))
    g = find_method(cls, getter)
    body = [s for s in g.body if not (isinstance(s, ast.Expr) and isinstance(s.value, ast.Constant))]
    want = ast.parse("return self.%s" % field).body[0]
    if len(body) != 1 or dump(body[0]) != dump(want):
        raise Unsupported("%s.%s does not just return self.%s" % (cls.name, getter, field))


def check_always_truthy(mods, clsname, seen=None):
    """no __bool__/__len__ on the class or its bases defined in the given modules"""
    seen = seen if seen is not None else set()
    for mod in mods:
        for n in mod.body:
            if isinstance(n, ast.ClassDef) and n.name == clsname and (id(n) not in seen):
                seen.add(id(n))
                for m in n.body:
                    if isinstance(m, ast.FunctionDef) and m.name in ("__bool__", "__len__", "__nonzero__"):
                        raise Unsupported("class %s defines %s: instances are not always true" % (clsname, m.name))
                    if isinstance(m, ast.Assign) and any(isinstance(t, ast.Name) and t.id in ("__bool__", "__len__") for t in m.targets):
                        raise Unsupported("class %s assigns %s" % (clsname, "__bool__/__len__"))
                for b in n.bases:
                    bn = b.attr if isinstance(b, ast.Attribute) else (b.id if isinstance(b, ast.Name) else None)
                    if bn is None:
                        raise Unsupported("class %s: base class expression" % clsname)
                    if bn != "object":
                        check_always_truthy(mods, bn, seen)


class Generator:
    def __init__(self, repo):
        base = os.path.join(repo, "src", "dendropy", "datamodel")
        self.mods = {}
        for key, rel in (("node", "treemodel/_node.py"), ("tree", "treemodel/_tree.py"),
                         ("edge", "treemodel/_edge.py"), ("base", "basemodel.py")):
            with open(os.path.join(base, rel)) as f:
                self.mods[key] = ast.parse(f.read())
        self.registry = {}

    def run(self):
        node_cls = find_class(self.mods["node"], "Node")
        tree_cls = find_class(self.mods["tree"], "Tree")
        find_class(self.mods["edge"], "Edge")
        # facts the translation of expressions relies on
        check_property(node_cls, "edge", "_get_edge", "_edge")
        check_property(tree_cls, "seed_node", "_get_seed_node", "_seed_node")
        mods = [self.mods["node"], self.mods["edge"], self.mods["base"]]
        check_always_truthy(mods, "Node")
        check_always_truthy(mods, "Edge")
        out = ["(* GENERATED by py/dv/gen_traversals.py from datamodel/treemodel/_node.py and _tree.py",
               "   -- do not edit.  Meaning of the primitives: coq/Model/C15Prims.v *)",
               "From Coq Require Import ZArith List Bool.",
               "From DV Require Import Model.PyPrims Model.C15Prims.",
               "Import ListNotations.",
               "Open Scope Z_scope.",
               "Open Scope bool_scope.",
               "",
               "Section Traversals.",
               "Variable G : objgraph.",
               ""]
        names = []
        for cls, meth, kind, elem in PLAN:
            c = node_cls if cls == "Node" else tree_cls
            fn = Fn(self, cls, find_method(c, meth), elem, kind)
            defs = fn.compile()
            entry = {"coq": fn.name, "params": fn.params, "kind": "gen" if kind == "gen" else kind, "elem": fn.elem}
            if kind == "pure":
                entry["ret"] = fn.ret
            self.registry[(cls, meth)] = entry
            out.append("(* %s.%s *)" % (cls, meth))
            out.extend(defs)
            out.append("")
            names.append(fn.name)
        out.append("End Traversals.")
        out.append("")
        return "\n".join(out)


def generate(repo):
    return Generator(repo).run()


if __name__ == "__main__":
    import sys
    print(generate(sys.argv[1] if len(sys.argv) > 1 else "/repo"))
