"""Translator: the Newick / NEXUS tokenizer, token escaping, taxon symbol lookup, Newick writer and reader
-> coq/Gen/NewickGen.v   (property C02; the hand-written models it is proved equal to are
coq/Model/Tokenizer.v and coq/Model/Newick.v, proofs in coq/Proofs/C02Gen*.v).

generate(repo) parses, with `ast`, the CURRENT text of

  src/dendropy/dataio/tokenizer.py        Tokenizer._get_next_char, _skip_to_significant_char, _handle_comment,
                                          _scan_token, __next__
  src/dendropy/dataio/nexusprocessing.py  escape_nexus_token; NexusTaxonSymbolMapper.add_translate_token,
                                          lookup_taxon_symbol, require_taxon_for_symbol
  src/dendropy/dataio/newickwriter.py     NewickWriter._compose_comment_string, _render_node_tag, _write_node_body,
                                          _write_node_open, _write_leaf, _write_node_close, _write_tree
  src/dendropy/dataio/newickreader.py     NewickReader._parse_tree_rooting_state, _process_tree_comments,
                                          _parse_tree_node_description, _parse_tree_statement

and compiles every function, statement by statement, into a term over the combinators of
coq/Model/C02GenPrims.v (whose header states the Python semantics that is trusted).  It is a compiler for
a whitelisted subset, driven by the AST: operators, comparison directions, callee names, argument order,
which field or local is updated, loop tests, `break` / `return` / `raise` positions and exception classes
are all read off the tree.  Anything outside the subset raises Unsupported; py2coq then writes a stub, every
dependent proof breaks and the check reports it (fail closed).

Shapes of the generated code:
  * a method becomes   py_<unit>_<name> <unit parameters> (self : <object state>) <parameters> : mres <object state> <result>;
    its body is a term over s_seq / s_if / s_while / s_for / s_try / s_call / s_do / s_ret / s_raise / s_break on the state
    (object, record of the locals); every `while` / `for` body is a named definition (<fn>_loop<i>_test/_body, <fn>_for<i>_body)
  * units: Tokenizer (object = character-level state tkst), escape_nexus_token (no object), NexusTaxonSymbolMapper (object = the
    model's `mapper`), NewickWriter (object = text written so far; tree.apply = the primitive apply_node, C15's apply_brackets),
    NewickReader (object = the model's token-level `pstate`; the tokenizer methods it calls are the primitives rd_*; the
    recursive _parse_tree_node_description is a Fixpoint on `fuel`, its loops take the recursive call as a parameter `rec`)
  * reader nodes / trees are values: a method that mutates its node / tree argument (INOUT table) returns the new value and the
    call site stores it back into the argument expression (copy-in / copy-out; stated in Model/C02GenPrims.v)
  * locals that are read only inside `raise` arguments (error messages) are dropped after a side-effect check

What is table-driven (and therefore trusted as a description of the Python objects, like the prims):
  * UNITS[..].attrs: python attribute path -> Coq getter / setter and static type
  * UNITS[..].consts: options that the models do not cover, FIXED at the stated value; a branch whose test
    is decided by these constants alone is not compiled (the generated file lists the fixed options)
  * FUEL: the fuel term of each `while` loop (the equalities proved show that it suffices)
"""
import ast
import os

from dv.py2coq import Unsupported

OUTPUT = "NewickGen.v"

COQTY = {"str": "str", "ostr": "(option str)", "bool": "bool", "int": "Z", "lstr": "(list str)", "unit": "unit",
         "cset": "(list Z)", "olstr": "(option (list str))", "obool": "(option bool)", "onat": "(option nat)",
         "nat": "nat"}
DEFAULT = {"str": "[]", "ostr": "None", "bool": "false", "int": "0", "lstr": "[]", "unit": "tt", "olstr": "None",
           "obool": "None", "onat": "None", "nat": "O"}


def coq_str(s):
    """a Python str constant as a list of code points"""
    return "[" + "; ".join(str(ord(c)) for c in s) + "]" + ("" if not s else " (* %s *)" % repr(s).replace("*)", "* )"))


def clean(name):
    return name.strip("_")


class E:
    """compiled expression: Coq term, static type, pure (type T) or raising (type res T)"""

    def __init__(self, term, ty, pure=True, const=None):
        self.term, self.ty, self.pure, self.const = term, ty, pure, const

    def as_res(self):
        return self.term if not self.pure else "(Ok %s)" % self.term


def bind1(e, f, ty, pure_f=True):
    """apply f (python fn: coq var -> coq term) to e; f pure or raising"""
    if e.pure:
        return E(f(e.term), ty, pure_f)
    if pure_f:
        return E("(do x1 <- %s ;; Ok %s)" % (e.term, f("x1")), ty, False)
    return E("(do x1 <- %s ;; %s)" % (e.term, f("x1")), ty, False)


def bind2(a, b, f, ty):
    """f applied to two operands, evaluated left to right"""
    if a.pure and b.pure:
        return E(f(a.term, b.term), ty, True)
    if a.pure:
        return E("(do x2 <- %s ;; Ok %s)" % (b.term, f(a.term, "x2")), ty, False)
    if b.pure:
        return E("(do x1 <- %s ;; Ok %s)" % (a.term, f("x1", b.term)), ty, False)
    return E("(do x1 <- %s ;; do x2 <- %s ;; Ok %s)" % (a.term, b.term, f("x1", "x2")), ty, False)


class Unit:
    """one object type: how `self` (and other named objects) are represented"""

    def __init__(self, key, prefix, otype, params, attrs, consts=None, methods=None, exc_module=None):
        self.key = key
        self.prefix = prefix            # coq name prefix of the generated functions
        self.otype = otype              # coq type of the object state
        self.params = params            # [(coq name, coq type)] extra parameters of every function
        self.attrs = attrs              # "self.x" -> (getter template over {o}, setter name or None, type)
        self.consts = consts or {}      # "self.x" -> python constant the option is fixed at
        self.methods = methods or {}    # name -> FnInfo (filled while compiling)
        self.exc_module = exc_module


class FnInfo:
    def __init__(self, coqname, params, rty, all_params=None, pure=False):
        self.coqname, self.params, self.rty = coqname, params, rty
        self.all_params = all_params or [(p, t) for p, t in params]     # in source order; type None = dropped
        self.pure = pure        # the method does not change the object: may be called inside an expression


EXC_BUILTIN = {"TypeError": "(ExErr TypeErr)", "ValueError": "(ExErr ValueErr)", "KeyError": "(ExErr KeyErr)",
               "LookupError": "(ExErr LookupErr)", "IndexError": "(ExErr IndexErr)", "AttributeError": "(ExErr AttrErr)",
               "AssertionError": "(ExErr AssertErr)", "StopIteration": "ExStop"}
CATCH = {"ExStop": "catch_stop", "ExEos": "catch_eos"}


class Compiler:
    def __init__(self, unit, module, fuel, classes):
        self.u = unit
        self.module = module
        self.fuel = fuel
        self.classes = classes          # class name -> ClassDef (all analysed modules), for exception bases

    # ---------------------------------------------------------------- exceptions
    def exc_of_class(self, node):
        """the `exc` value of an exception class expression (Name / dotted Attribute)"""
        name = node.attr if isinstance(node, ast.Attribute) else node.id if isinstance(node, ast.Name) else None
        if name is None:
            raise Unsupported("exception class %s" % ast.dump(node)[:60])
        seen = set()
        while True:
            if name == "UnexpectedEndOfStreamError":
                return "ExEos"
            if name in EXC_BUILTIN:
                return EXC_BUILTIN[name]
            if name == "DataParseError":
                return "(ExErr ParseErr)"
            if name in seen or name not in self.classes:
                raise Unsupported("exception class %s: unknown base" % name)
            seen.add(name)
            bases = self.classes[name].bases
            if len(bases) != 1:
                raise Unsupported("exception class %s: %d bases" % (name, len(bases)))
            b = bases[0]
            name = b.attr if isinstance(b, ast.Attribute) else b.id

    # ---------------------------------------------------------------- expressions
    def const_of(self, n):
        """python value of an expression decided by the fixed options alone, else raise KeyError"""
        if isinstance(n, ast.Constant):
            return n.value
        if isinstance(n, ast.Attribute):
            path = ast.unparse(n)
            return self.u.consts[path]
        if isinstance(n, ast.UnaryOp) and isinstance(n.op, ast.Not):
            return not self.const_of(n.operand)
        if isinstance(n, ast.BoolOp):
            # python short circuit: the value is decided as soon as a constant operand decides it
            isand = isinstance(n.op, ast.And)
            for v in n.values:
                try:
                    c = self.const_of(v)
                except KeyError:
                    raise
                if isand and not c:
                    return c
                if (not isand) and c:
                    return c
            return c
        if isinstance(n, ast.Compare) and len(n.ops) == 1 and isinstance(n.ops[0], (ast.Is, ast.IsNot)):
            a, b = self.const_of(n.left), self.const_of(n.comparators[0])
            return (a is b) if isinstance(n.ops[0], ast.Is) else (a is not b)
        raise KeyError(ast.dump(n)[:40])

    def try_const(self, n):
        try:
            return True, self.const_of(n)
        except KeyError:
            return False, None

    def truthy(self, e):
        if e.ty == "bool":
            return e
        f = {"str": "(str_truthy %s)", "ostr": "(ostr_truthy %s)", "lstr": "(list_truthy %s)",
             "olstr": "(match %s with Some (_ :: _) => true | _ => false end)",
             "int": "(negb (%s =? 0))", "onat": "(negb (is_none %s))", "ntaxon": "(negb (is_none %s))",
             "olen": "(negb (is_none %s))", "obool": "(obool_truthy %s)", "none": "(false_of %s)"}.get(e.ty)
        if e.ty == "none":
            return E("false", "bool", True)
        if f is None:
            raise Unsupported("truth value of a %s" % e.ty)
        return bind1(e, lambda t: f % t, "bool")

    def coerce(self, e, want):
        if e.ty == want:
            return e
        if want == "bool":
            return self.truthy(e)
        if e.ty == "none" and want in ("ostr", "olstr", "obool", "onat"):
            return E("None", want, True)
        if e.ty == "str" and want == "ostr":
            return bind1(e, lambda t: "(Some %s)" % t, "ostr")
        if e.ty == "bool" and want == "obool":
            return bind1(e, lambda t: "(Some %s)" % t, "obool")
        if e.ty == "lstr" and want == "olstr":
            return bind1(e, lambda t: "(Some %s)" % t, "olstr")
        if e.ty == "ostr" and want == "str":
            return bind1(e, lambda t: "(need_str %s)" % t, "str", pure_f=False)
        raise Unsupported("a %s where a %s is required" % (e.ty, want))

    def local_get(self, name):
        if name not in self.ltypes:
            raise Unsupported("name %s" % name)
        return E("(%s (snd s))" % self.lget(name), self.ltypes[name], True)

    def lget(self, name):
        return "%s_v_%s" % (self.fn_coq, name)

    def lset(self, name):
        return "set_%s_v_%s" % (self.fn_coq, name)

    def attr_entry(self, n):
        path = ast.unparse(n)
        if path in self.u.attrs:
            return self.u.attrs[path]
        raise Unsupported("attribute %s" % path)

    def expr(self, n):
        if isinstance(n, ast.Constant):
            v = n.value
            if v is None:
                return E("None", "none", True, const=(None,))
            if isinstance(v, bool):
                return E("true" if v else "false", "bool", True)
            if isinstance(v, int):
                return E("(%d)" % v, "int", True)
            if isinstance(v, str):
                return E(coq_str(v), "str", True)
            raise Unsupported("constant %r" % (v,))
        if isinstance(n, ast.Name):
            return self.local_get(n.id)
        if isinstance(n, ast.Attribute):
            path = ast.unparse(n)
            if path in self.u.consts:
                c = self.u.consts[path]
                if c is None:
                    return E("None", "none", True)
                if isinstance(c, bool):
                    return E("true" if c else "false", "bool", True)
                raise Unsupported("fixed option %s = %r in value position" % (path, c))
            get, _set, ty = self.attr_entry(n)
            return E(get.format(o="(fst s)", lc="(snd s)"), ty, True)
        if isinstance(n, ast.UnaryOp) and isinstance(n.op, ast.Not):
            e = self.truthy(self.expr(n.operand))
            if e.const is not None:
                return E("false" if e.const[0] else "true", "bool", True, const=(not e.const[0],))
            return bind1(e, lambda t: "(negb %s)" % t, "bool")
        if isinstance(n, ast.BoolOp):
            return self.boolop(n)
        if isinstance(n, ast.Compare):
            return self.compare(n)
        if isinstance(n, ast.BinOp):
            a, b = self.expr(n.left), self.expr(n.right)
            if isinstance(n.op, ast.Add) and a.ty == "int" and b.ty == "int":
                return bind2(a, b, lambda x, y: "(%s + %s)" % (x, y), "int")
            if isinstance(n.op, ast.Sub) and a.ty == "int" and b.ty == "int":
                return bind2(a, b, lambda x, y: "(%s - %s)" % (x, y), "int")
            if isinstance(n.op, ast.Add) and a.ty in ("str", "ostr") and b.ty in ("str", "ostr"):
                return bind2(self.coerce(a, "str"), self.coerce(b, "str"), lambda x, y: "(%s ++ %s)" % (x, y), "str")
            raise Unsupported("binary operator %s on %s, %s" % (type(n.op).__name__, a.ty, b.ty))
        if isinstance(n, ast.Call):
            return self.call_expr(n)
        if isinstance(n, ast.List) and not n.elts:
            return E("[]", "lstr", True)
        if isinstance(n, ast.List) and all(isinstance(x, ast.Constant) and isinstance(x.value, str) for x in n.elts):
            return E("[%s]" % "; ".join(coq_str(x.value).split(" (*")[0] for x in n.elts), "lstr", True)
        if isinstance(n, ast.Subscript):
            return self.subscript(n)
        raise Unsupported("expression %s" % ast.dump(n)[:80])

    def subscript(self, n):
        raise Unsupported("subscript %s" % ast.unparse(n))

    def boolop(self, n):
        """`and` / `or` in a boolean context (every operand is reduced to its truth value); operands decided
        by the fixed options are folded the way Python short-circuits"""
        isand = isinstance(n.op, ast.And)
        ops = []
        for v in n.values:
            known, c = self.try_const(v)
            if known:
                if isand and not c:
                    ops.append(E("false", "bool", True, const=(False,)))
                    break
                if (not isand) and c:
                    ops.append(E("true", "bool", True, const=(True,)))
                    break
                continue            # neutral element
            ops.append(self.truthy(self.expr(v)))
        if not ops:
            return E("true" if isand else "false", "bool", True, const=(isand,))
        acc = ops[-1]
        for e in reversed(ops[:-1]):
            if e.pure and acc.pure:
                acc = E("(%s %s %s)" % (e.term, "&&" if isand else "||", acc.term), "bool", True)
            else:
                short = "Ok false" if isand else "Ok true"
                acc = E("(do b1 <- %s ;; if b1 then %s else %s)" %
                        ((e.as_res(), acc.as_res(), short) if isand else (e.as_res(), short, acc.as_res())), "bool", False)
        return acc

    def compare(self, n):
        if len(n.ops) != 1:
            raise Unsupported("chained comparison")
        op = n.ops[0]
        a, b = self.expr(n.left), self.expr(n.comparators[0])
        neg = isinstance(op, (ast.NotEq, ast.IsNot, ast.NotIn))
        wrap = (lambda t: "(negb %s)" % t) if neg else (lambda t: t)
        if isinstance(op, (ast.Is, ast.IsNot)):
            if b.ty != "none":
                raise Unsupported("`is` against something other than None")
            if a.ty in ("ostr", "olstr", "obool", "onat", "ntaxon", "olen", "opar"):
                return bind1(a, lambda t: wrap("(is_none %s)" % t), "bool")
            if a.ty == "none":
                return E(wrap("true"), "bool", True)
            if a.ty in ("str", "lstr", "int", "bool"):
                return bind1(a, lambda t: wrap("false"), "bool")
            raise Unsupported("`is None` on a %s" % a.ty)
        if isinstance(op, (ast.Eq, ast.NotEq)):
            sty = ("str", "ostr", "none")
            if a.ty in sty and b.ty in sty:
                return bind2(self.coerce(a, "ostr"), self.coerce(b, "ostr"), lambda x, y: wrap("(ostr_eqb %s %s)" % (x, y)), "bool")
            if a.ty == "int" and b.ty == "int":
                return bind2(a, b, lambda x, y: wrap("(%s =? %s)" % (x, y)), "bool")
            if a.ty == "olen" and b.ty == "none":
                return bind1(a, lambda t: wrap("(is_none %s)" % t), "bool")
            if a.ty == "rooting" and b.ty == "str":
                return bind2(a, b, lambda x, y: wrap("(rooting_is %s %s)" % (x, y)), "bool")
            raise Unsupported("== on %s, %s" % (a.ty, b.ty))
        if isinstance(op, (ast.In, ast.NotIn)):
            if b.ty == "cset":
                return bind2(self.coerce(a, "ostr"), b, lambda x, y: wrap("(in_cset %s %s)" % (x, y)), "bool")
            if b.ty in ("str", "ostr"):
                return bind2(self.coerce(a, "str"), self.coerce(b, "str"), lambda x, y: wrap("(str_in %s %s)" % (x, y)), "bool")
            if b.ty == "lstr":
                return bind2(self.coerce(a, "str"), b, lambda x, y: wrap("(mem_str %s %s)" % (x, y)), "bool")
            if b.ty == "seen" and a.ty in ("nat", "taxon"):
                return bind2(a, b, lambda x, y: wrap("(existsb (Nat.eqb %s) %s)" % (x, y)), "bool")
            raise Unsupported("`in` on %s, %s" % (a.ty, b.ty))
        cmpz = {ast.LtE: "<=?", ast.Lt: "<?", ast.GtE: ">=?", ast.Gt: ">?"}
        if type(op) in cmpz and a.ty == "int" and b.ty == "int":
            return bind2(a, b, lambda x, y: "(%s %s %s)" % (x, cmpz[type(op)], y), "bool")
        raise Unsupported("comparison %s on %s, %s" % (type(op).__name__, a.ty, b.ty))

    def call_expr(self, n):
        f = n.func
        # "sep".join(x)
        if isinstance(f, ast.Attribute) and f.attr == "join" and len(n.args) == 1 and not n.keywords:
            sep = self.coerce(self.expr(f.value), "str")
            x = self.expr(n.args[0])
            if x.ty != "lstr":
                raise Unsupported("join of a %s" % x.ty)
            return bind2(sep, x, lambda s_, l: "(str_join %s %s)" % (s_, l), "str")
        if isinstance(f, ast.Name) and f.id == "len" and len(n.args) == 1:
            x = self.expr(n.args[0])
            if x.ty not in ("lstr", "str", "kids"):
                raise Unsupported("len of a %s" % x.ty)
            return bind1(x, lambda t: "(Z.of_nat (length %s))" % t, "int")
        if isinstance(f, ast.Name) and f.id == "str" and len(n.args) == 1:
            x = self.expr(n.args[0])
            if x.ty in ("str",):
                return x
            if x.ty == "ostr":       # str(None) would be "None": not in the subset
                return self.coerce(x, "str")
            raise Unsupported("str() of a %s" % x.ty)
        if isinstance(f, ast.Name) and f.id == "hasattr" and len(n.args) == 2:
            probe = ast.Attribute(value=n.args[0], attr=n.args[1].value, ctx=ast.Load())
            self.attr_entry(probe)          # raises Unsupported when the attribute is not represented
            return E("true", "bool", True)
        if isinstance(f, ast.Attribute) and f.attr == "replace" and len(n.args) == 2 and not n.keywords:
            x = self.coerce(self.expr(f.value), "str")
            old, new = n.args
            if not (isinstance(old, ast.Constant) and isinstance(old.value, str) and len(old.value) == 1):
                raise Unsupported("str.replace with a pattern that is not one character")
            newe = self.coerce(self.expr(new), "str")
            return bind2(x, newe, lambda s_, w: "(replace1 %s %d %s)" % (s_, ord(old.value), w), "str")
        if isinstance(f, ast.Attribute) and f.attr == "split" and len(n.args) == 1 and not n.keywords:
            x = self.coerce(self.expr(f.value), "str")
            sep = n.args[0]
            if not (isinstance(sep, ast.Constant) and isinstance(sep.value, str) and len(sep.value) == 1):
                raise Unsupported("str.split with a separator that is not one character")
            return bind1(x, lambda t: "(split1 %s %d)" % (t, ord(sep.value)), "lstr")
        if isinstance(f, ast.Attribute) and f.attr == "strip" and not n.args and not n.keywords:
            x = self.coerce(self.expr(f.value), "str")
            return bind1(x, lambda t: "(py_strip %s)" % t, "str")
        if isinstance(f, ast.Attribute) and f.attr == "format" and isinstance(f.value, ast.Constant) and not n.keywords:
            return self.format_call(f.value.value, n.args)
        if ast.unparse(f) == "re.search" and len(n.args) == 2 and not n.keywords:
            cls = self.expr(n.args[0])
            if cls.ty != "charclass":
                raise Unsupported("re.search with a pattern that is not a character-class parameter")
            x = self.coerce(self.expr(n.args[1]), "str")
            return bind2(cls, x, lambda c, s_: "(re_search_class %s %s)" % (c, s_), "match")
        if ast.unparse(f) == "textprocessing.is_str_type" and len(n.args) == 1:
            x = self.expr(n.args[0])
            if x.ty == "str":
                return E("true", "bool", True, const=(True,))
            raise Unsupported("is_str_type of a %s" % x.ty)
        return self.call_special(n)

    def call_special(self, n):
        return self.pure_method_call(n)

    def pure_method_call(self, n):
        """self.m(args) inside an expression: only for a method that does not change the object"""
        f = n.func
        if isinstance(f, ast.Attribute) and isinstance(f.value, ast.Name) and f.value.id == "self" and f.attr in self.u.methods:
            info = self.u.methods[f.attr]
            if not info.pure:
                raise Unsupported("call of %s inside an expression" % f.attr)
            terms = self.call_args(info, n, f.attr)
            args = "".join(" " + p for p, _ in self.u.params)
            return E("(mval (%s%s (fst s)%s))" % (info.coqname, args, "".join(" " + t for t in terms)), info.rty, False)
        raise Unsupported("call %s" % ast.unparse(n)[:80])

    def format_call(self, tmpl, args):
        pieces = tmpl.split("{}")
        if len(pieces) != len(args) + 1 or "{" in "".join(pieces) or "}" in "".join(pieces):
            raise Unsupported("format template %r" % tmpl)
        es = [self.coerce(self.expr(a), "str") for a in args]
        names = []
        binds = []
        for i, e in enumerate(es):
            if e.pure:
                names.append(e.term)
            else:
                names.append("f%d" % i)
                binds.append("do f%d <- %s ;; " % (i, e.term))
        parts = []
        for i, p in enumerate(pieces):
            if p:
                parts.append(coq_str(p))
            if i < len(names):
                parts.append(names[i])
        term = "(" + " ++ ".join(parts) + ")" if parts else "[]"
        if binds:
            return E("(" + "".join(binds) + "Ok " + term + ")", "str", False)
        return E(term, "str", True)

    # ---------------------------------------------------------------- statements
    def cond(self, test):
        """(combinator suffix, lambda text) for a test expression"""
        e = self.truthy(self.expr(test))
        if e.pure:
            return "", "(fun s => %s)" % e.term
        return "e", "(fun s => %s)" % e.term

    def block(self, stmts, ind):
        out = None
        items = [self.stmt(st, ind) for st in stmts if not self.is_doc(st)]
        items = [i for i in items if i is not None]
        if not items:
            return "s_skip"
        acc = items[-1]
        for it in reversed(items[:-1]):
            acc = "(s_seq %s\n%s%s)" % (it, " " * ind, acc)
        return acc

    @staticmethod
    def is_doc(st):
        return isinstance(st, ast.Expr) and isinstance(st.value, ast.Constant) and isinstance(st.value.value, str)

    def assign_to(self, target, e, ind):
        """statement storing the compiled expression e"""
        if isinstance(target, ast.Name):
            name = target.id
            e = self.coerce(e, self.ltypes[name])
            if e.pure:
                return "(s_do (fun s => (fst s, %s (snd s) %s)))" % (self.lset(name), e.term)
            return "(s_doe (fun s => do v <- %s ;; Ok (fst s, %s (snd s) v)))" % (e.term, self.lset(name))
        if isinstance(target, ast.Attribute):
            get, setter, ty = self.attr_entry(target)
            if setter is None:
                raise Unsupported("assignment to read-only %s" % ast.unparse(target))
            e = self.coerce(e, ty)
            upd = setter.format(o="(fst s)", lc="(snd s)", v="%s")
            if e.pure:
                return "(s_do (fun s => %s))" % (upd % e.term)
            return "(s_doe (fun s => do v <- %s ;; Ok %s))" % (e.term, upd % "v")
        raise Unsupported("assignment target %s" % ast.dump(target)[:60])

    def method_call(self, call):
        """(FnInfo, coq terms of the arguments) for self.m(args); (None, None) for anything else"""
        f = call.func
        if isinstance(f, ast.Attribute) and isinstance(f.value, ast.Name) and f.value.id == "self" and f.attr in self.u.methods:
            info = self.u.methods[f.attr]
            return info, self.call_args(info, call, f.attr)
        return None, None

    def call_args(self, info, call, what):
        args = list(call.args)
        kw = {k.arg: k.value for k in call.keywords}
        terms = []
        if len(args) > len(info.all_params):
            raise Unsupported("call %s: too many arguments" % what)
        for i, (pname, pty) in enumerate(info.all_params):
            if i < len(args):
                a = args[i]
            elif pname in kw:
                a = kw.pop(pname)
            else:
                raise Unsupported("call %s: argument %s missing" % (what, pname))
            if pty is None:
                continue                # a parameter that is not represented (the stream, an unused item)
            if pty == "charclass" and isinstance(a, ast.Constant) and isinstance(a.value, str):
                from dv.gen_charclasses import parse_char_class
                terms.append("[%s]" % "; ".join(str(c) for c in parse_char_class(a.value, what)))
                continue
            e = self.coerce(self.expr(a), pty)
            if not e.pure:
                raise Unsupported("call %s: raising argument %s" % (what, pname))
            terms.append(e.term)
        if kw:
            raise Unsupported("call %s: unexpected keyword arguments %s" % (what, sorted(kw)))
        return terms

    def mterm(self, info, terms):
        base = "(%s %s" % (info.coqname, "" if getattr(info, "noparams", False) else " ".join(p for p, _ in self.u.params))
        if terms:
            # arguments are evaluated in the caller's state s
            return "(fun o => %s o %s))" % (base.rstrip(), " ".join(terms)), True
        return base.rstrip() + ")", False

    def stmt(self, st, ind):
        pad = " " * ind
        if isinstance(st, ast.Pass):
            return None
        if isinstance(st, ast.Break):
            return "s_break"
        if isinstance(st, ast.Return):
            if st.value is None:
                return "(s_ret (fun s => %s))" % DEFAULT[self.rty]
            if isinstance(st.value, ast.Call):
                info, terms = self.method_call(st.value)
                if info is not None:
                    if info.rty != self.rty:
                        raise Unsupported("return of a call with another type")
                    m, uses_s = self.mterm(info, terms)
                    if uses_s:
                        return "(fun s => s_call_ret %s s)" % m
                    return "(s_call_ret %s)" % m
            e = self.coerce(self.expr(st.value), self.rty)
            return "(s_ret%s (fun s => %s))" % ("" if e.pure else "e", e.term)
        if isinstance(st, ast.Raise):
            exc = st.exc
            if isinstance(exc, ast.Call):
                for a in list(exc.args) + [k.value for k in exc.keywords]:
                    self.diagnostic(a)
                exc = exc.func
            if exc is None:
                if not self.handler_exc:
                    raise Unsupported("bare raise outside a handler")
                return "(s_raise %s)" % self.handler_exc[-1]
            return "(s_raise %s)" % self.exc_of_class(exc)
        if isinstance(st, ast.If):
            known, c = self.try_const(st.test)
            if known:
                return self.block(st.body if c else st.orelse, ind)
            e = self.truthy(self.expr(st.test))
            if e.const is not None:     # decided statically (e.g. is_str_type of a str-typed value)
                return self.block(st.body if e.const[0] else st.orelse, ind)
            suffix, test = self.cond(st.test)
            return "(s_if%s %s\n%s  %s\n%s  %s)" % (suffix, test, pad, self.block(st.body, ind + 2), pad,
                                                   self.block(st.orelse, ind + 2))
        if isinstance(st, ast.While):
            if st.orelse:
                raise Unsupported("while/else")
            key = (self.fn.name, self.loop_index)
            self.loop_index += 1
            if key not in self.fuel:
                raise Unsupported("no fuel term for loop %s #%d" % key)
            if isinstance(st.test, ast.Constant) and st.test.value is True:
                suffix, test = "", "(fun _ => true)"
            else:
                suffix, test = self.cond(st.test)
            body = self.block(st.body, 4)
            base = "%s_loop%d" % (self.fn_coq, key[1])
            sig = "".join(" (%s : %s)" % (n_, t_) for n_, t_ in self.u.params)
            args = "".join(" " + n_ for n_, _ in self.u.params)
            sty = "(%s * %s)" % (self.u.otype, self.lc_type)
            self.pre_defs.append("Definition %s_test%s : %s -> %s :=\n  %s." % (
                base, sig, sty, "bool" if suffix == "" else "res bool", test))
            self.pre_defs.append("Definition %s_body%s : @stmt %s %s :=\n    %s." % (
                base, sig, sty, self.coqty(self.rty), body))
            return "(s_while%s (fun s => %s) (%s_test%s) (%s_body%s))" % (suffix, self.fuel[key], base, args, base, args)
        if isinstance(st, ast.For):
            return self.for_stmt(st, ind)
        if isinstance(st, ast.Try):
            return self.try_stmt(st, ind)
        if isinstance(st, ast.AugAssign):
            v = ast.BinOp(left=self.as_load(st.target), op=st.op, right=st.value)
            return self.assign_to(st.target, self.expr(v), ind)
        if isinstance(st, ast.Assign):
            if len(st.targets) != 1:
                raise Unsupported("multiple assignment targets")
            t = st.targets[0]
            special = self.assign_special(t, st.value, ind)
            if special is not None:
                return special
            if isinstance(st.value, ast.Call) and isinstance(t, ast.Name):
                info, terms = self.method_call(st.value)
                if info is not None:
                    return self.call_store(info, terms, t)
            return self.assign_to(t, self.expr(st.value), ind)
        if isinstance(st, ast.Expr) and isinstance(st.value, ast.Call):
            call = st.value
            info, terms = self.method_call(call)
            if info is not None:
                return self.call_store(info, terms, None)
            f = call.func
            # x.append(e) / x.extend(e)
            if isinstance(f, ast.Attribute) and f.attr in ("append", "extend") and len(call.args) == 1:
                lst = self.expr(f.value)
                if lst.ty == "olstr":
                    lst = self.coerce(lst, "lstr")      # None.append / None.extend raise (AttributeError in Python)
                if lst.ty != "lstr":
                    raise Unsupported("%s on a %s" % (f.attr, lst.ty))
                if f.attr == "append":
                    a = self.coerce(self.expr(call.args[0]), "str")
                    new = bind2(lst, a, lambda l, x: "(%s ++ [%s])" % (l, x), "lstr")
                else:
                    a = self.coerce(self.expr(call.args[0]), "lstr")
                    new = bind2(lst, a, lambda l, x: "(%s ++ %s)" % (l, x), "lstr")
                return self.assign_to(f.value, new, ind)
            sp = self.expr_stmt_special(call, ind)
            if sp is not None:
                return sp
        raise Unsupported("statement %s" % ast.unparse(st)[:80])

    def call_store(self, info, terms, target):
        m, uses_s = self.mterm(info, terms)
        if target is None:
            store = "(fun _ lc => lc)"
        elif isinstance(target, ast.Name):
            c = self.coerce(E("v", info.rty, True), self.ltypes[target.id])
            if not c.pure:
                raise Unsupported("call result needs a raising conversion")
            store = "(fun v lc => %s lc %s)" % (self.lset(target.id), c.term)
        else:
            raise Unsupported("call result stored in %s" % ast.unparse(target))
        if uses_s:
            return "(fun s => s_call %s %s s)" % (m, store)
        return "(s_call %s %s)" % (m, store)

    @staticmethod
    def as_load(t):
        t2 = ast.parse(ast.unparse(t), mode="eval").body
        return t2

    def diagnostic(self, a):
        """an argument of an exception constructor: must be a side-effect-free expression of the subset; its
        value only feeds the message / position of the error and is dropped"""
        for sub in ast.walk(a):
            if isinstance(sub, ast.Call):
                f = sub.func
                if not (isinstance(f, ast.Attribute) and f.attr == "format"):
                    raise Unsupported("call inside an exception argument: %s" % ast.unparse(sub)[:60])
            elif not isinstance(sub, (ast.Attribute, ast.Name, ast.Constant, ast.Load, ast.BinOp, ast.Add, ast.keyword)):
                raise Unsupported("exception argument %s" % ast.unparse(a)[:60])

    def assign_special(self, target, value, ind):
        return None

    def expr_stmt_special(self, call, ind):
        return None

    def for_stmt(self, st, ind):
        pad = " " * ind
        if st.orelse or not isinstance(st.target, ast.Name):
            raise Unsupported("for loop form")
        it = self.expr(st.iter)
        if it.ty == "olstr":
            it = self.coerce(it, "lstr")        # iterating None raises TypeError
        if it.ty not in ("lstr", "ltree"):
            raise Unsupported("for over a %s" % it.ty)
        x = st.target.id
        idx = self.for_index = getattr(self, "for_index", 0)
        self.for_index = idx + 1
        body = self.block(st.body, 4)
        base = "%s_for%d" % (self.fn_coq, idx)
        self.pre_defs.append("Definition %s_body%s : @stmt %s %s :=\n    %s." % (base, self.defsig(), self.sty(), self.coqty(self.rty), body))
        return "(s_for%s (fun s => %s) (fun x s => (fst s, %s (snd s) x)) (%s_body%s))" % (
            "" if it.pure else "e", it.term, self.lset(x), base, self.defargs())

    def sty(self):
        return "(%s * %s)" % (self.u.otype, self.lc_type)

    def defsig(self):
        return "".join(" (%s : %s)" % (n_, t_) for n_, t_ in self.u.params)

    def defargs(self):
        return "".join(" " + n_ for n_, _ in self.u.params)

    def try_stmt(self, st, ind):
        pad = " " * ind
        if st.orelse or st.finalbody or len(st.handlers) != 1:
            raise Unsupported("try statement form")
        h = st.handlers[0]
        if h.type is None:
            raise Unsupported("bare except")
        x = self.exc_of_class(h.type)
        catches = CATCH.get(x) or "(catch_err %s)" % x[len("(ExErr "):-1]
        body = self.block(st.body, ind + 2)
        self.handler_exc.append(x)
        self.handler_names.append(h.name)
        handler = self.block(h.body, ind + 2)
        self.handler_exc.pop()
        self.handler_names.pop()
        return "(s_try %s\n%s  %s\n%s  %s)" % (body, pad, catches, pad, handler)

    # ---------------------------------------------------------------- functions
    def infer_locals(self, fn, ptypes):
        """static types of the locals: parameters from the table, the others from their assignments"""
        self.ltypes = dict(ptypes)
        pending = True
        rounds = 0
        while pending and rounds < 4:
            pending = False
            rounds += 1
            for sub in ast.walk(fn):
                tgt = val = None
                if isinstance(sub, ast.Assign) and len(sub.targets) == 1 and isinstance(sub.targets[0], ast.Name):
                    tgt, val = sub.targets[0].id, sub.value
                elif isinstance(sub, ast.For) and isinstance(sub.target, ast.Name):
                    if sub.target.id not in self.ltypes:
                        self.ltypes[sub.target.id] = self.local_override.get((fn.name, sub.target.id), "str")
                    continue
                elif isinstance(sub, ast.ExceptHandler) and sub.name:
                    continue
                if tgt is None:
                    continue
                ty = self.local_override.get((fn.name, tgt))
                if ty is None:
                    try:
                        ty = self.value_type(val)
                    except Unsupported:
                        pending = True
                        continue
                old = self.ltypes.get(tgt)
                if old is None or old == "none":
                    if ty == "none" and old is None:
                        self.ltypes[tgt] = "none"
                        pending = True
                    elif ty != "none":
                        self.ltypes[tgt] = {"str": "ostr", "lstr": "olstr", "bool": "obool"}.get(ty, ty) if old == "none" else ty
                elif old != ty and ty != "none":
                    join = {("str", "ostr"): "ostr", ("ostr", "str"): "ostr", ("lstr", "olstr"): "olstr", ("olstr", "lstr"): "olstr",
                            ("obool", "bool"): "obool", ("bool", "obool"): "obool"}.get((old, ty))
                    if join is None:
                        if (fn.name, tgt) in self.local_override:
                            continue
                        raise Unsupported("local %s of %s is assigned a %s and a %s" % (tgt, fn.name, old, ty))
                    self.ltypes[tgt] = join
                elif ty == "none" and old in ("str", "lstr", "bool"):
                    self.ltypes[tgt] = {"str": "ostr", "lstr": "olstr", "bool": "obool"}[old]
        for k, v in list(self.ltypes.items()):
            if v == "none":
                raise Unsupported("local %s of %s is only ever None" % (k, fn.name))

    def value_type(self, val):
        if isinstance(val, ast.Call):
            info, _ = self.method_call_info(val)
            if info is not None:
                return info.rty
            t = self.special_value_type(val)
            if t is not None:
                return t
        return self.expr(val).ty

    def special_value_type(self, val):
        return None

    def method_call_info(self, call):
        f = call.func
        if isinstance(f, ast.Attribute) and isinstance(f.value, ast.Name) and f.value.id == "self" and f.attr in self.u.methods:
            return self.u.methods[f.attr], None
        return None, None

    def return_type(self, fn):
        tys = set()
        for sub in ast.walk(fn):
            if isinstance(sub, ast.Return) and sub.value is not None:
                if isinstance(sub.value, ast.Call):
                    info, _ = self.method_call_info(sub.value)
                    if info is not None:
                        tys.add(info.rty)
                        continue
                tys.add(self.expr_type_only(sub.value))
        tys.discard("unit")
        if not tys:
            return "unit"
        if tys == {"none"}:
            return "unit"
        opt = "none" in tys
        tys.discard("none")
        if tys <= {"str", "ostr"}:
            return "ostr" if (opt or "ostr" in tys or self.falls_through_or_bare(fn)) else "str"
        if tys <= {"bool", "obool"}:
            return "obool" if (opt or "obool" in tys) else "bool"
        if len(tys) == 1:
            t = tys.pop()
            if opt:
                raise Unsupported("optional %s result" % t)
            return t
        raise Unsupported("function %s returns %s" % (fn.name, sorted(tys)))

    def falls_through_or_bare(self, fn):
        for sub in ast.walk(fn):
            if isinstance(sub, ast.Return) and sub.value is None:
                return True
        return not isinstance(fn.body[-1], (ast.Return, ast.Raise))

    def expr_type_only(self, n):
        return self.expr(n).ty

    def function(self, fn, ptypes, local_override, coqname):
        """-> text of the locals record, the function definition; registers the FnInfo"""
        self.fn = fn
        self.fn_coq = coqname
        self.loop_index = 0
        self.for_index = 0
        self.handler_exc = []
        self.handler_names = []
        self.local_override = local_override
        allp = [a.arg for a in fn.args.args if a.arg != "self"]
        for p in allp:
            if p not in ptypes:
                raise Unsupported("%s: no type for parameter %s" % (fn.name, p))
        self.dropped = {p: ptypes[p] for p in allp if ptypes[p] in ("ostream", "any")}
        params = [p for p in allp if p not in self.dropped]
        if fn.args.vararg or fn.args.kwarg or fn.args.kwonlyargs:
            raise Unsupported("%s: parameter form" % fn.name)
        self.rty = "unit"
        self.infer_locals(fn, {p: ptypes[p] for p in params})
        self.rty = self.return_type(fn)
        locs = sorted(self.ltypes)
        out = []
        lty = "lc_%s" % coqname
        self.pre_defs = []
        tps = [n_ for n_, t_ in self.u.params if t_ == "Type"]
        tsig = "".join(" (%s : Type)" % t for t in tps)
        tisig = "".join(" {%s : Type}" % t for t in tps)
        targs = "".join(" " + t for t in tps)
        ltyA = "(%s%s)" % (lty, targs) if tps else lty
        self.lc_type = ltyA if locs else "unit"
        if locs:
            out.append("Record %s%s : Type := mk_%s { %s }." % (
                lty, tsig, lty, "; ".join("%s : %s" % (self.lget(x), self.coqty(self.ltypes[x])) for x in locs)))
            if tps:
                imp = " ".join("{%s}" % t for t in tps)
                out.append("Arguments mk_%s %s." % (lty, imp))
                for x in locs:
                    out.append("Arguments %s %s _." % (self.lget(x), imp))
            for x in locs:
                out.append("Definition %s%s (l : %s) v : %s := mk_%s %s." % (
                    self.lset(x), tisig, ltyA, ltyA, lty, " ".join("v" if y == x else "(%s l)" % self.lget(y) for y in locs)))
            init = "(mk_%s %s)" % (lty, " ".join(("v_" + x) if x in params else DEFAULT_OF(self.ltypes[x]) for x in locs))
        else:
            init = "tt"
        body = self.block(fn.body, 4)
        out.extend(self.pre_defs)
        sig = "".join(" (%s : %s)" % (n, t) for n, t in self.u.params)
        hasself = bool(fn.args.args) and fn.args.args[0].arg == "self"
        osig = " (self : %s)" % self.u.otype
        psig = "".join(" (v_%s : %s)" % (p, self.coqty(ptypes[p])) for p in params)
        out.append("Definition %s%s%s%s : mres %s %s :=\n  run\n    (%s\n     : @stmt (%s * %s) %s)\n    (self, %s) %s." % (
            coqname, sig, osig, psig, self.u.otype, self.coqty(self.rty), body, self.u.otype, self.lc_type,
            self.coqty(self.rty), init, DEFAULT_OF(self.rty)))
        self.u.methods[fn.name] = FnInfo(coqname, [(p, ptypes[p]) for p in params], self.rty,
                                         all_params=[(p, None if p in self.dropped else ptypes[p]) for p in allp],
                                         pure=self.is_pure(fn))
        return "\n".join(out)

    def is_pure(self, fn):
        return False

    def coqty(self, t):
        if t in COQTY:
            return COQTY[t]
        return self.extra_coqty(t)

    def extra_coqty(self, t):
        raise Unsupported("type %s" % t)


def DEFAULT_OF(t):
    if t in DEFAULT:
        return DEFAULT[t]
    raise Unsupported("no default value for type %s" % t)


# ------------------------------------------------------------------------------------------------------------
# unit 1: Tokenizer
# ------------------------------------------------------------------------------------------------------------

class TokCompiler(Compiler):
    def assign_special(self, target, value, ind):
        # self.<field> = self.src.read(n)
        if (isinstance(value, ast.Call) and ast.unparse(value.func) == "self.src.read" and len(value.args) == 1
                and not value.keywords and isinstance(value.args[0], ast.Constant) and isinstance(value.args[0].value, int)
                and value.args[0].value >= 0 and isinstance(target, ast.Attribute)):
            get, setter, ty = self.attr_entry(target)
            if ty != "ostr" or setter is None:
                raise Unsupported("src.read into %s" % ast.unparse(target))
            upd = setter.format(o="(snd r)", lc="(snd s)", v="(Some (fst r))")
            return "(s_do (fun s => let r := src_read %d (fst s) in %s))" % (value.args[0].value, upd)
        return None


def tok_unit():
    def fld(g, s, t):
        return ("(%s {o})" % g, "(%s {o} {v}, {lc})" % s if s else None, t)
    attrs = {
        "self._cur_char": fld("k_cur", "set_k_cur", "ostr"),
        "self.current_token": fld("k_token", "set_k_token", "ostr"),
        "self.is_token_quoted": fld("k_quoted", "set_k_quoted", "bool"),
        "self.captured_comments": fld("k_comments", "set_k_comments", "lstr"),
        "self.current_line_num": fld("k_line", "set_k_line", "int"),
        "self.current_column_num": fld("k_col", "set_k_col", "int"),
        "self.token_line_num": fld("k_tline", "set_k_tline", "int"),
        "self.token_column_num": fld("k_tcol", "set_k_tcol", "int"),
        "self.src": ("(k_src {o})", None, "stream"),
        # Tokenizer.__init__ arguments (Model/Tokenizer.v tok_cfg)
        "self.uncaptured_delimiters": ("(tc_uncaptured cfg)", None, "cset"),
        "self.captured_delimiters": ("(tc_captured cfg)", None, "cset"),
        "self.quote_chars": ("(tc_quotes cfg)", None, "cset"),
        "self.escape_quote_by_doubling": ("(tc_double cfg)", None, "bool"),
        "self.comment_begin": ("(tc_cbegin cfg)", None, "cset"),
        "self.comment_end": ("(tc_cend cfg)", None, "cset"),
        "self.capture_comments": ("(tc_capture_comments cfg)", None, "bool"),
        "self.preserve_unquoted_underscores": ("(tc_preserve_underscores cfg)", None, "bool"),
    }
    return Unit("tok", "py_tk_", "tkst", [("cfg", "tok_cfg")], attrs)


TOK_PLAN = ["_get_next_char", "_skip_to_significant_char", "_handle_comment", "_scan_token", "__next__"]
TOK_FUEL = {
    ("_skip_to_significant_char", 0): "tk_fuel (fst s)",
    ("_handle_comment", 0): "tk_fuel (fst s)",
    ("_scan_token", 0): "tk_fuel (fst s)",      # quoted token
    ("_scan_token", 1): "tk_fuel (fst s)",      # unquoted token
    ("__next__", 0): "tk_fuel (fst s)",
}


def all_classes(tree, acc):
    for n in ast.walk(tree):
        if isinstance(n, ast.ClassDef):
            acc[n.name] = n
    return acc


def find_method(tree, cls, name):
    for n in ast.walk(tree):
        if isinstance(n, ast.ClassDef) and n.name == cls:
            for m in n.body:
                if isinstance(m, ast.FunctionDef) and m.name == name:
                    return m
    raise Unsupported("%s.%s not found" % (cls, name))


def find_function(tree, name):
    for n in tree.body:
        if isinstance(n, ast.FunctionDef) and n.name == name:
            return n
    raise Unsupported("function %s not found" % name)


def gen_tokenizer(trees, classes):
    u = tok_unit()
    c = TokCompiler(u, trees["tokenizer"], TOK_FUEL, classes)
    out = ["(* ---- dataio/tokenizer.py: class Tokenizer ---- *)"]
    for name in TOK_PLAN:
        fn = find_method(trees["tokenizer"], "Tokenizer", name)
        out.append("(* Tokenizer.%s *)" % name)
        out.append(c.function(fn, {}, {("_scan_token", "dest"): "lstr", ("_handle_comment", "dest"): "lstr"}, u.prefix + clean(name)))
        out.append("")
    return "\n".join(out)


# ------------------------------------------------------------------------------------------------------------
# unit 2: nexusprocessing.escape_nexus_token, NexusTaxonSymbolMapper
# ------------------------------------------------------------------------------------------------------------

class EscCompiler(Compiler):
    def truthy(self, e):
        if e.ty == "match":         # re.search(...) result: a match object or None
            return E(e.term, "bool", e.pure)
        return Compiler.truthy(self, e)


GLOBAL_FUNCS = {}


def gen_escape(trees, classes):
    u = Unit("esc", "py_", "unit", [], {})
    c = EscCompiler(u, trees["nexusprocessing"], {}, classes)
    fn = find_function(trees["nexusprocessing"], "escape_nexus_token")
    ptypes = {"label": "ostr", "preserve_spaces": "bool", "quote_underscores": "bool", "protect_regex": "charclass"}
    COQTY["charclass"] = "(list Z)"
    txt = c.function(fn, ptypes, {}, "py_escape_nexus_token")
    GLOBAL_FUNCS["escape_nexus_token"] = u.methods["escape_nexus_token"]
    return "(* ---- dataio/nexusprocessing.py: escape_nexus_token (re.search(protect_regex, .) with the class as a parameter) ---- *)\n" + txt + "\n"


class MapCompiler(Compiler):
    """NexusTaxonSymbolMapper over Model/Newick.v `mapper`; Taxon objects are namespace positions (nat)"""

    def extra_coqty(self, t):
        return {"taxon": "nat", "otaxon": "(option nat)"}[t]

    def subscript(self, n):
        # self.<dict>[key]: KeyError when absent
        path = ast.unparse(n.value)
        if path in self.u.attrs and self.u.attrs[path][2] in ("fdict", "dict"):
            get, _s, ty = self.u.attrs[path]
            key = self.coerce(self.expr(n.slice), "str")
            d = get.format(o="(fst s)", lc="(snd s)")
            folded = "true" if ty == "fdict" else "false"
            return bind1(key, lambda k: "(map_getitem lower (fst s) %s %s %s)" % (folded, d, k), "taxon", pure_f=False)
        raise Unsupported("subscript %s" % ast.unparse(n))

    def assign_special(self, target, value, ind):
        # self.<dict>[key] = taxon
        if isinstance(target, ast.Subscript):
            path = ast.unparse(target.value)
            if path in self.u.attrs and self.u.attrs[path][2] in ("fdict", "dict"):
                get, setter, ty = self.u.attrs[path]
                key = self.coerce(self.expr(target.slice), "str")
                v = self.expr(value)
                if v.ty != "taxon" or not v.pure:
                    raise Unsupported("dict value of type %s" % v.ty)
                folded = "true" if ty == "fdict" else "false"
                d = get.format(o="(fst s)", lc="(snd s)")
                newd = lambda k: "(map_setitem lower (fst s) %s %s %s %s)" % (folded, d, k, v.term)
                upd = setter.format(o="(fst s)", lc="(snd s)", v="%s")
                if key.pure:
                    return "(s_do (fun s => %s))" % (upd % newd(key.term))
                return "(s_doe (fun s => do k <- %s ;; Ok %s))" % (key.term, upd % newd("k"))
        return None

    def stmt(self, st, ind):
        # `return self.new_taxon(symbol)`: the primitive mapper_new_taxon (TaxonNamespace.new_taxon is C10's)
        if (isinstance(st, ast.Return) and isinstance(st.value, ast.Call) and ast.unparse(st.value.func) == "self.new_taxon"
                and len(st.value.args) == 1 and not st.value.keywords):
            a = self.coerce(self.expr(st.value.args[0]), "str")
            if not a.pure:
                raise Unsupported("raising argument of new_taxon")
            if self.rty != "otaxon":
                raise Unsupported("new_taxon result in a %s function" % self.rty)
            return "(fun s => let r := mapper_new_taxon lower (fst s) %s in FRet (Some (fst r)) (snd r, snd s))" % a.term
        return Compiler.stmt(self, st, ind)

    def expr_type_only(self, n):
        if isinstance(n, ast.Call) and ast.unparse(n.func) == "self.new_taxon":
            return "taxon"
        return self.expr(n).ty

    def return_type(self, fn):
        tys = set()
        for sub in ast.walk(fn):
            if isinstance(sub, ast.Return) and sub.value is not None:
                if isinstance(sub.value, ast.Call):
                    info, _ = self.method_call_info(sub.value)
                    if info is not None:
                        tys.add(info.rty)
                        continue
                tys.add(self.expr_type_only(sub.value))
        if tys <= {"taxon", "otaxon", "none"} and tys:
            return "otaxon" if ("none" in tys or "otaxon" in tys) else "taxon"
        return Compiler.return_type(self, fn)

    def coerce(self, e, want):
        if e.ty == "taxon" and want == "otaxon":
            return bind1(e, lambda t: "(Some %s)" % t, "otaxon")
        if e.ty == "none" and want == "otaxon":
            return E("None", "otaxon", True)
        return Compiler.coerce(self, e, want)


def gen_mapper(trees, classes):
    def fld(g, s, t):
        return ("(%s {o})" % g, "(%s {o} {v}, {lc})" % s if s else None, t)
    attrs = {
        "self.token_taxon_map": fld("m_tokens", "set_m_tokens", "fdict"),     # (CaseInsensitive)dict: keys folded by m_key
        "self.label_taxon_map": fld("m_labels", "set_m_labels", "fdict"),
        "self.number_taxon_map": fld("m_numbers", "set_m_numbers", "dict"),
        "self.enable_lookup_by_taxon_number": fld("m_by_number", None, "bool"),
    }
    u = Unit("map", "py_map_", "mapper", [("lower", "str -> str")], attrs)
    c = MapCompiler(u, trees["nexusprocessing"], {}, classes)
    DEFAULT["otaxon"] = "None"
    DEFAULT["taxon"] = "O"
    out = ["(* ---- dataio/nexusprocessing.py: class NexusTaxonSymbolMapper ---- *)"]
    ptypes = {"add_translate_token": {"token": "str", "taxon": "taxon"},
              "lookup_taxon_symbol": {"symbol": "str", "create_taxon_if_not_found": "bool"},
              "require_taxon_for_symbol": {"symbol": "str"}}
    for name in ["add_translate_token", "lookup_taxon_symbol", "require_taxon_for_symbol"]:
        fn = find_method(trees["nexusprocessing"], "NexusTaxonSymbolMapper", name)
        out.append("(* NexusTaxonSymbolMapper.%s *)" % name)
        out.append(c.function(fn, ptypes[name], {}, u.prefix + clean(name)))
        out.append("")
    return "\n".join(out)



# ------------------------------------------------------------------------------------------------------------
# unit 3: NewickWriter
# ------------------------------------------------------------------------------------------------------------

NODE_ATTRS = {      # attribute path below a node -> (term over NODE, type)
    "taxon": ("(n_taxon L (wn_tree NODE))", "ntaxon"),
    "taxon.label": ("(n_taxon L (wn_tree NODE))", "ostr"),
    "label": ("(n_label L (wn_tree NODE))", "ostr"),
    "edge": ("true", "bool"),                       # an Edge object: always there, truthy
    "edge.length": ("(n_len L (wn_tree NODE))", "olen"),
    "_parent_node": ("(wn_parent NODE)", "opar"),
}
TREE_ATTRS = {
    "rooting_state_is_undefined": ("(is_none (wt_rooted TREE))", "bool"),
    "is_rooted": ("(wt_rooted TREE)", "obool"),
}


class WriterCompiler(Compiler):
    def extra_coqty(self, t):
        return {"wnode": "(wnode L)", "wtree": "(wtree L)", "ltree": "(list (wtree L))", "ntaxon": "(option str)",
                "olen": "(option L)", "opar": "(option nat)"}[t]

    def attr_entry(self, n):
        path = ast.unparse(n)
        if path in self.u.attrs:
            return self.u.attrs[path]
        base, _, rest = path.partition(".")
        ty = self.ltypes.get(base)
        if ty == "wnode" and rest in NODE_ATTRS:
            tmpl, t = NODE_ATTRS[rest]
            return (tmpl.replace("NODE", "(%s {lc})" % self.lget(base)), None, t)
        if ty == "wtree" and rest in TREE_ATTRS:
            tmpl, t = TREE_ATTRS[rest]
            return (tmpl.replace("TREE", "(%s {lc})" % self.lget(base)), None, t)
        raise Unsupported("attribute %s" % path)

    def coerce(self, e, want):
        if e.ty == "ntaxon" and want == "str":        # the label of the node's Taxon (str(taxon.label))
            return bind1(e, lambda t: "(need_str %s)" % t, "str", pure_f=False)
        return Compiler.coerce(self, e, want)

    def compare(self, n):
        # X._parent_node._child_nodes[K] is X
        if (len(n.ops) == 1 and isinstance(n.ops[0], (ast.Is, ast.IsNot)) and isinstance(n.left, ast.Subscript)
                and isinstance(n.left.value, ast.Attribute) and n.left.value.attr == "_child_nodes"
                and isinstance(n.comparators[0], ast.Name)):
            y = n.comparators[0].id
            k = n.left.slice
            if isinstance(k, ast.UnaryOp) and isinstance(k.op, ast.USub) and isinstance(k.operand, ast.Constant):
                kv = -k.operand.value
            elif isinstance(k, ast.Constant) and isinstance(k.value, int):
                kv = k.value
            else:
                raise Unsupported("child index %s" % ast.unparse(k))
            if ast.unparse(n.left.value.value) != y + "._parent_node" or self.ltypes.get(y) != "wnode":
                raise Unsupported("identity test %s" % ast.unparse(n))
            node = "(%s (snd s))" % self.lget(y)
            e = E("(child_is (wn_parent %s) (%d) (wn_index %s))" % (node, kv, node), "bool", False)
            if isinstance(n.ops[0], ast.IsNot):
                return bind1(e, lambda t: "(negb %s)" % t, "bool")
            return e
        return Compiler.compare(self, n)

    def call_special(self, n):
        f = n.func
        path = ast.unparse(f)
        # node.child_nodes()
        if isinstance(f, ast.Attribute) and f.attr == "child_nodes" and not n.args and isinstance(f.value, ast.Name) \
                and self.ltypes.get(f.value.id) == "wnode":
            return E("(n_kids L (wn_tree (%s (snd s))))" % self.lget(f.value.id), "kids", True)
        # self._get_taxon_tree_token(node.taxon): the tree token of the taxon (wo_taxon_token of its label)
        if path == "self._get_taxon_tree_token" and len(n.args) == 1:
            a = self.expr(n.args[0])
            if a.ty != "ntaxon":
                raise Unsupported("_get_taxon_tree_token of a %s" % a.ty)
            return bind1(self.coerce(a, "str"), lambda t: "(wo_taxon_token wo %s)" % t, "str")
        # self.edge_label_compose_fn(node.edge): "{}".format(edge.length)
        if path == "self.edge_label_compose_fn" and len(n.args) == 1 and isinstance(n.args[0], ast.Attribute) \
                and n.args[0].attr == "edge" and isinstance(n.args[0].value, ast.Name) \
                and self.ltypes.get(n.args[0].value.id) == "wnode":
            node = "(%s (snd s))" % self.lget(n.args[0].value.id)
            return E("(do x1 <- need_len L (n_len L (wn_tree %s)) ;; Ok (render_len x1))" % node, "str", False)
        # nexusprocessing.escape_nexus_token(...)
        if path == "nexusprocessing.escape_nexus_token" and "escape_nexus_token" in GLOBAL_FUNCS:
            info = GLOBAL_FUNCS["escape_nexus_token"]
            terms = self.call_args(info, n, "escape_nexus_token")
            return E("(mval (%s tt %s))" % (info.coqname, " ".join(terms)), info.rty, False)
        return self.pure_method_call(n)

    def live(self, stmts):
        """the statements that are compiled (branches decided by the fixed options are dropped)"""
        for st in stmts:
            if isinstance(st, ast.If):
                known, c = self.try_const(st.test)
                if known:
                    yield from self.live(st.body if c else st.orelse)
                    continue
                yield st
                yield from self.live(st.body)
                yield from self.live(st.orelse)
            elif isinstance(st, (ast.While, ast.For)):
                yield st
                yield from self.live(st.body)
            elif isinstance(st, ast.Try):
                yield st
                yield from self.live(st.body)
                for h in st.handlers:
                    yield from self.live(h.body)
            else:
                yield st

    def is_pure(self, fn):
        for st in self.live(fn.body):
            if isinstance(st, (ast.Assign, ast.AugAssign)):
                for t in (st.targets if isinstance(st, ast.Assign) else [st.target]):
                    if not isinstance(t, ast.Name):
                        return False
            heads = [st.value] if isinstance(st, (ast.Expr, ast.Assign, ast.Return)) and st.value is not None else \
                    [st.test] if isinstance(st, (ast.If, ast.While)) else [st.iter] if isinstance(st, ast.For) else []
            for h in heads:
                for sub in ast.walk(h):
                    if isinstance(sub, ast.Call) and isinstance(sub.func, ast.Attribute):
                        if sub.func.attr in ("write", "apply", "append", "extend") and not (
                                isinstance(sub.func.value, ast.Name) and sub.func.value.id in self.ltypes):
                            return False
                        if isinstance(sub.func.value, ast.Name) and sub.func.value.id == "self" \
                                and sub.func.attr in self.u.methods and not self.u.methods[sub.func.attr].pure:
                            return False
        return True

    def expr_stmt_special(self, call, ind):
        f = call.func
        # out.write(e): append to the text written so far
        if isinstance(f, ast.Attribute) and f.attr == "write" and isinstance(f.value, ast.Name) \
                and self.dropped.get(f.value.id) == "ostream" and len(call.args) == 1 and not call.keywords:
            e = self.coerce(self.expr(call.args[0]), "str")
            if e.pure:
                return "(s_do (fun s => (fst s ++ %s, snd s)))" % e.term
            return "(s_doe (fun s => do v <- %s ;; Ok (fst s ++ v, snd s)))" % e.term
        # tree.apply(before_fn=lambda x: self.m1(x, stream), after_fn=..., leaf_fn=...)
        if isinstance(f, ast.Attribute) and f.attr == "apply" and isinstance(f.value, ast.Name) \
                and self.ltypes.get(f.value.id) == "wtree" and not call.args:
            kw = {k.arg: k.value for k in call.keywords}
            if sorted(kw) != ["after_fn", "before_fn", "leaf_fn"]:
                raise Unsupported("apply with callbacks %s" % sorted(kw))
            fns = {}
            for k, lam in kw.items():
                if not (isinstance(lam, ast.Lambda) and len(lam.args.args) == 1 and isinstance(lam.body, ast.Call)):
                    raise Unsupported("apply callback %s" % ast.unparse(lam))
                x = lam.args.args[0].arg
                c = lam.body
                if not (isinstance(c.func, ast.Attribute) and isinstance(c.func.value, ast.Name) and c.func.value.id == "self"
                        and c.func.attr in self.u.methods and not c.keywords):
                    raise Unsupported("apply callback %s" % ast.unparse(lam))
                info = self.u.methods[c.func.attr]
                if [t for _, t in info.all_params] != ["wnode", None] or len(c.args) != 2 \
                        or not (isinstance(c.args[0], ast.Name) and c.args[0].id == x) \
                        or not (isinstance(c.args[1], ast.Name) and self.dropped.get(c.args[1].id) == "ostream"):
                    raise Unsupported("apply callback %s" % ast.unparse(lam))
                args = "".join(" " + p for p, _ in self.u.params)
                fns[k] = "(fun x o => %s%s o x)" % (info.coqname, args)
            tree = "(%s (snd s))" % self.lget(f.value.id)
            return "(fun s => s_call (apply_node %s %s %s (wt_root %s) None 0%%nat) (fun _ lc => lc) s)" % (
                fns["before_fn"], fns["after_fn"], fns["leaf_fn"], tree)
        return None


def gen_writer(trees, classes):
    def opt(name):
        return ("(wo_%s wo)" % name, None, "bool")
    attrs = {"self." + n: opt(n) for n in (
        "suppress_leaf_taxon_labels", "suppress_leaf_node_labels", "suppress_internal_taxon_labels",
        "suppress_internal_node_labels", "suppress_rooting", "suppress_edge_lengths", "unquoted_underscores", "preserve_spaces")}
    attrs["self.node_label_element_separator"] = ("[32]", None, "str")        # fixed at its default ' '
    consts = {"self.node_label_compose_fn": None, "self.suppress_annotations": True, "self.suppress_item_comments": True,
              "self.store_tree_weights": False}
    u = Unit("wr", "py_wr_", "str", [("L", "Type"), ("render_len", "L -> str"), ("wo", "wopts")], attrs, consts=consts)
    c = WriterCompiler(u, trees["newickwriter"], {}, classes)
    DEFAULT["wnode"] = "(mkWnode (Nd None None None []) None 0%nat)"
    DEFAULT["wtree"] = "(mkWtree None (Nd None None None []))"
    DEFAULT["ltree"] = "[]"
    ptypes = {"node": "wnode", "out": "ostream", "stream": "ostream", "tree": "wtree", "item": "any", "tree_list": "ltree"}
    out = ["(* ---- dataio/newickwriter.py: class NewickWriter.  Options outside the model are FIXED: %s; "
           "node_label_element_separator = ' ' ---- *)" % ", ".join("%s = %r" % (k[5:], v) for k, v in sorted(consts.items()))]
    for name in ["_compose_comment_string", "_render_node_tag", "_write_node_body", "_write_node_open", "_write_leaf",
                 "_write_node_close", "_write_tree", "_write_tree_list"]:
        fn = find_method(trees["newickwriter"], "NewickWriter", name)
        out.append("(* NewickWriter.%s *)" % name)
        out.append(c.function(fn, ptypes, {("_write_tree_list", "tree"): "wtree"}, u.prefix + clean(name)))
        out.append("")
    return "\n".join(out)


# ------------------------------------------------------------------------------------------------------------
# unit 4: NewickReader
# ------------------------------------------------------------------------------------------------------------

PNODE_ATTRS = {     # attribute path below a node held in a local -> (getter over N, update of N with {v} or None, type)
    "_child_nodes": ("(pt_kids N)", None, "pkids"),
    "label": ("(pt_label N)", "(pt_set_label N {v})", "ostr"),
    "taxon": ("(pt_taxon N)", "(pt_set_taxon N {v})", "otaxon"),
    "edge.length": ("(pt_len N)", "(pt_set_len N {v})", "olen"),
}
RTREE_ATTRS = {
    "is_rooted": ("(rt_rooted N)", "(set_rt_rooted N {v})", "obool"),
    "comments": ("(rt_comments N)", "(set_rt_comments N {v})", "lstr"),
    "seed_node": ("(rt_seed N)", "(set_rt_seed N {v})", "pnode"),
}
TOK_PRIMS = {       # methods of the NexusTokenizer seen through Model/Newick.v pstate
    "pull_captured_comments": ("rd_pull_comments", "olstr"),
    "clear_captured_comments": ("rd_clear_comments", "unit"),
    "require_next_token": ("rd_require_next", "ostr"),
    "next_token": ("rd_next_token", "ostr"),
}


class ReaderCompiler(Compiler):
    INOUT = {"_parse_tree_node_description": "current_node", "_process_tree_comments": "tree"}
    HIDDEN = "tmp_comments"

    def extra_coqty(self, t):
        return {"pnode": "(ptree L)", "rtree": "(rtree L)", "ortree": "(option (rtree L))", "taxon": "nat", "otaxon": "(option nat)",
                "olen": "(option L)", "seen": "(list nat)", "rooting": "rooting_directive"}[t]

    # ---- attributes of nodes / trees held in locals
    def local_attr(self, n):
        path = ast.unparse(n)
        base, _, rest = path.partition(".")
        ty = self.ltypes.get(base)
        tbl = PNODE_ATTRS if ty == "pnode" else RTREE_ATTRS if ty == "rtree" else None
        if tbl is None or rest not in tbl:
            return None
        get, upd, t = tbl[rest]
        loc = "(%s {lc})" % self.lget(base)
        return base, get.replace("N", loc), (upd.replace("N", loc) if upd else None), t

    def attr_entry(self, n):
        path = ast.unparse(n)
        if path in self.u.attrs:
            return self.u.attrs[path]
        la = self.local_attr(n)
        if la is None:
            raise Unsupported("attribute %s" % path)
        base, get, upd, t = la
        setter = "({o}, %s {lc} %s)" % (self.lset(base), upd) if upd else None
        return (get, setter, t)

    def coerce(self, e, want):
        if e.ty == "taxon" and want == "otaxon":
            return bind1(e, lambda t: "(Some %s)" % t, "otaxon")
        if e.ty == "none" and want in ("otaxon", "olen", "ortree"):
            return E("None", want, True)
        if e.ty == "rtree" and want == "ortree":
            return bind1(e, lambda t: "(Some %s)" % t, "ortree")
        if e.ty == "olstr" and want == "lstr":
            return bind1(e, lambda t: "(need_list %s)" % t, "lstr", pure_f=False)
        return Compiler.coerce(self, e, want)

    def truthy(self, e):
        if e.ty == "pkids":
            return bind1(e, lambda t: "(list_truthy %s)" % t, "bool")
        return Compiler.truthy(self, e)

    def compare(self, n):
        if len(n.ops) == 1 and isinstance(n.ops[0], (ast.Is, ast.IsNot)):
            a = self.expr(n.left)
            if a.ty == "rooting" and isinstance(n.comparators[0], ast.Constant) and n.comparators[0].value is None:
                neg = isinstance(n.ops[0], ast.IsNot)
                return bind1(a, lambda t: ("(negb (rooting_is_none %s))" if neg else "(rooting_is_none %s)") % t, "bool")
        return Compiler.compare(self, n)

    # ---- calls
    def method_call(self, call):
        f = call.func
        if isinstance(f, ast.Attribute) and isinstance(f.value, ast.Name) and self.dropped.get(f.value.id) == "tokenizer" \
                and f.attr in TOK_PRIMS:
            if call.args or call.keywords:
                raise Unsupported("tokenizer call with arguments")
            coq, rty = TOK_PRIMS[f.attr]
            info = FnInfo(coq, [], rty)
            info.noparams = True
            return info, []
        if isinstance(f, ast.Attribute) and isinstance(f.value, ast.Name) and f.value.id == "self" and f.attr == self.fn.name:
            return self.rec_info, self.call_args(self.rec_info, call, f.attr)
        return Compiler.method_call(self, call)

    def method_call_info(self, call):
        f = call.func
        if isinstance(f, ast.Attribute) and isinstance(f.value, ast.Name) and self.dropped.get(f.value.id) == "tokenizer" \
                and f.attr in TOK_PRIMS:
            coq, rty = TOK_PRIMS[f.attr]
            return FnInfo(coq, [], rty), None
        return Compiler.method_call_info(self, call)

    def call_special(self, n):
        f = n.func
        path = ast.unparse(f)
        if isinstance(f, ast.Attribute) and f.attr == "is_eof" and isinstance(f.value, ast.Name) \
                and self.dropped.get(f.value.id) == "tokenizer" and not n.args:
            return E("(ps_eof (fst s))", "bool", True)
        if path == "tree.node_factory" and self.dropped.get("tree") == "any" and not n.args:
            return E("new_pnode", "pnode", True)
        if path == "tree_factory" and self.dropped.get("tree_factory") == "any" and not n.args:
            return E("new_rtree", "rtree", True)
        if path == "set" and not n.args:
            return E("[]", "seen", True)
        if path == "self.edge_length_type" and len(n.args) == 1:
            a = self.coerce(self.expr(n.args[0]), "str")
            return bind1(a, lambda t: "(edge_length_of parse_len %s)" % t, "olen", pure_f=False)
        return self.pure_method_call(n)

    def special_value_type(self, val):
        path = ast.unparse(val.func)
        if path == "taxon_symbol_map_fn":
            return "taxon"
        return None

    def assign_special(self, target, value, ind):
        # node_taxon = taxon_symbol_map_fn(label)
        if isinstance(value, ast.Call) and ast.unparse(value.func) == "taxon_symbol_map_fn" and len(value.args) == 1 \
                and self.dropped.get("taxon_symbol_map_fn") == "any" and isinstance(target, ast.Name):
            a = self.coerce(self.expr(value.args[0]), "str")
            store = "(fun v lc => %s lc v)" % self.lset(target.id)
            if a.pure:
                return "(fun s => s_call (fun o => rd_map_symbol lower o %s) %s s)" % (a.term, store)
            return "(fun s => match %s with Ok a => s_call (fun o => rd_map_symbol lower o a) %s s | Err e => FExc (ExErr e) s | OutOfFuel => FFuel end)" % (a.term, store)
        # a local that only feeds error messages
        if isinstance(target, ast.Name) and target.id in self.diag_locals:
            self.diagnostic(value)
            return "s_skip"
        # self.<reader field> = None after the statement: the field is re-initialised before its next use
        if isinstance(target, ast.Attribute) and ast.unparse(target) in self.u.attrs and isinstance(value, ast.Constant) \
                and value.value is None and ast.unparse(target) in READER_RESET_OK:
            return "s_skip"
        return None

    def stmt(self, st, ind):
        if isinstance(st, ast.AugAssign) and isinstance(st.target, ast.Name) and st.target.id in self.diag_locals:
            self.diagnostic(st.value)
            return None
        if isinstance(st, ast.Return) and self.inout:
            if st.value is not None and not (isinstance(st.value, ast.Name) and st.value.id == self.inout):
                raise Unsupported("return of something other than the in/out parameter %s" % self.inout)
            return "(s_ret (fun s => %s (snd s)))" % self.lget(self.inout)
        if isinstance(st, ast.For) and ast.unparse(st.iter) == "it.count()" and isinstance(st.target, ast.Name):
            # for count in itertools.count(): body   ==   count = 0; while True: body; count += 1
            pad = " " * ind
            c = st.target.id
            key = (self.fn.name, self.loop_index)
            self.loop_index += 1
            if key not in self.fuel:
                raise Unsupported("no fuel term for loop %s #%d" % key)
            body = "(s_seq %s\n    (s_do (fun s => (fst s, %s (snd s) ((%s (snd s)) + 1)))))" % (
                self.block(st.body, 4), self.lset(c), self.lget(c))
            base = "%s_loop%d" % (self.fn_coq, key[1])
            self.pre_defs.append("Definition %s_test%s : %s -> bool :=\n  (fun _ => true)." % (base, self.defsig(), self.sty()))
            self.pre_defs.append("Definition %s_body%s : @stmt %s %s :=\n    %s." % (base, self.defsig(), self.sty(), self.coqty(self.rty), body))
            return "(s_seq (s_do (fun s => (fst s, %s (snd s) 0)))\n%s(s_while (fun s => %s) (%s_test%s) (%s_body%s)))" % (
                self.lset(c), pad, self.fuel[key], base, self.defargs(), base, self.defargs())
        if isinstance(st, ast.While):
            return self.while_stmt(st, ind)
        if isinstance(st, ast.Expr) and isinstance(st.value, ast.Call):
            # a translated method with an in/out parameter: the new value is stored back into the argument
            call = st.value
            info, terms = self.method_call(call)
            if info is not None and getattr(info, "inout", None):
                pos = [i for i, (pn, _) in enumerate(info.all_params) if pn == info.inout][0]
                kw = {k.arg: k.value for k in call.keywords}
                arg = call.args[pos] if pos < len(call.args) else kw[info.inout]
                return self.call_store(info, terms, arg)
        return Compiler.stmt(self, st, ind)

    def sty(self):
        return "(%s * %s)" % (self.u.otype, self.lc_type)

    def defsig(self):
        sig = "".join(" (%s : %s)" % (n_, t_) for n_, t_ in self.u.params)
        if self.recursive:
            sig += " (rec : %s)" % self.rec_type
        return sig

    def defargs(self):
        return "".join(" " + n_ for n_, _ in self.u.params) + (" rec" if self.recursive else "")

    def while_stmt(self, st, ind):
        if st.orelse:
            raise Unsupported("while/else")
        key = (self.fn.name, self.loop_index)
        self.loop_index += 1
        if key not in self.fuel:
            raise Unsupported("no fuel term for loop %s #%d" % key)
        if isinstance(st.test, ast.Constant) and st.test.value is True:
            suffix, test = "", "(fun _ => true)"
        else:
            suffix, test = self.cond(st.test)
        body = self.block(st.body, 4)
        base = "%s_loop%d" % (self.fn_coq, key[1])
        self.pre_defs.append("Definition %s_test%s : %s -> %s :=\n  %s." % (
            base, self.defsig(), self.sty(), "bool" if suffix == "" else "res bool", test))
        self.pre_defs.append("Definition %s_body%s : @stmt %s %s :=\n    %s." % (base, self.defsig(), self.sty(), self.coqty(self.rty), body))
        return "(s_while%s (fun s => %s) (%s_test%s) (%s_body%s))" % (suffix, self.fuel[key], base, self.defargs(), base, self.defargs())

    def expr_stmt_special(self, call, ind):
        f = call.func
        path = ast.unparse(f)
        # nexusprocessing.process_comments_for_item(item=N, item_comments=C, extract_comment_metadata=self.extract_comment_metadata)
        if path == "nexusprocessing.process_comments_for_item" and not call.args:
            kw = {k.arg: k.value for k in call.keywords}
            if sorted(kw) != ["extract_comment_metadata", "item", "item_comments"]:
                raise Unsupported("process_comments_for_item arguments %s" % sorted(kw))
            known, c = self.try_const(kw["extract_comment_metadata"])
            if not known or c is not False:
                raise Unsupported("process_comments_for_item with comment metadata extraction")
            item = kw["item"]
            if not (isinstance(item, ast.Name) and self.ltypes.get(item.id) == "pnode"):
                raise Unsupported("process_comments_for_item on %s" % ast.unparse(item))
            cs = kw["item_comments"]
            pre = None
            if isinstance(cs, ast.Call):
                info, terms = self.method_call(cs)
                if info is None or info.coqname != "rd_pull_comments":
                    raise Unsupported("item_comments=%s" % ast.unparse(cs))
                pre = self.call_store(info, terms, ast.Name(id=self.HIDDEN, ctx=ast.Store()))
                ce = self.local_get(self.HIDDEN)
            else:
                ce = self.coerce(self.expr(cs), "olstr")
                if not ce.pure:
                    raise Unsupported("raising item_comments")
            upd = "(s_do (fun s => (fst s, %s (snd s) (pt_add_comments (%s (snd s)) %s))))" % (self.lset(item.id), self.lget(item.id), ce.term)
            return upd if pre is None else "(s_seq %s\n%s%s)" % (pre, " " * ind, upd)
        # N.add_child(M)
        if isinstance(f, ast.Attribute) and f.attr == "add_child" and isinstance(f.value, ast.Name) \
                and self.ltypes.get(f.value.id) == "pnode" and len(call.args) == 1 and isinstance(call.args[0], ast.Name) \
                and self.ltypes.get(call.args[0].id) == "pnode":
            a, b = f.value.id, call.args[0].id
            return "(s_do (fun s => (fst s, %s (snd s) (pt_add_child (%s (snd s)) (%s (snd s))))))" % (self.lset(a), self.lget(a), self.lget(b))
        # self._seen_taxa.add(t)
        if path == "self._seen_taxa.add" and len(call.args) == 1:
            a = self.expr(call.args[0])
            if a.ty != "taxon" or not a.pure:
                raise Unsupported("_seen_taxa.add of a %s" % a.ty)
            return "(s_do (fun s => (set_ps_seen (fst s) (%s :: ps_seen (fst s)), snd s)))" % a.term
        return None

    def call_store(self, info, terms, target):
        if isinstance(target, ast.Attribute):
            la = self.local_attr(target)
            if la is None or la[2] is None:
                raise Unsupported("call result stored in %s" % ast.unparse(target))
            base, get, upd, t = la
            if t != info.rty:
                raise Unsupported("call result of type %s stored in a %s" % (info.rty, t))
            m, uses_s = self.mterm(info, terms)
            store = "(fun v lc => %s lc %s)" % (self.lset(base), upd.format(lc="lc", v="v"))
            return "(fun s => s_call %s %s s)" % (m, store) if uses_s else "(s_call %s %s)" % (m, store)
        return Compiler.call_store(self, info, terms, target)

    def try_stmt(self, st, ind):
        # `except E as e:` -- e only feeds diagnostics
        return Compiler.try_stmt(self, st, ind)

    def diagnostic(self, a):
        for sub in ast.walk(a):
            if isinstance(sub, ast.Call):
                f = sub.func
                if not (isinstance(f, ast.Attribute) and f.attr == "format"):
                    raise Unsupported("call inside a diagnostic expression: %s" % ast.unparse(sub)[:60])
            elif not isinstance(sub, (ast.Attribute, ast.Name, ast.Constant, ast.Load, ast.BinOp, ast.Add, ast.keyword)):
                raise Unsupported("diagnostic expression %s" % ast.unparse(a)[:60])

    # ---- functions
    def find_diag_locals(self, fn):
        """locals that are read only inside `raise` arguments (or to build themselves): they feed error messages"""
        loads = {}
        in_raise = set()
        for r in ast.walk(fn):
            if isinstance(r, ast.Raise) and r.exc is not None:
                for sub in ast.walk(r.exc):
                    if isinstance(sub, ast.Name):
                        in_raise.add(id(sub))
        selfbuild = set()
        for a in ast.walk(fn):
            if isinstance(a, ast.AugAssign) and isinstance(a.target, ast.Name):
                for sub in ast.walk(a.value):
                    if isinstance(sub, ast.Name) and sub.id == a.target.id:
                        selfbuild.add(id(sub))
        assigned = set()
        for a in ast.walk(fn):
            if isinstance(a, (ast.Assign, ast.AugAssign)):
                for t in (a.targets if isinstance(a, ast.Assign) else [a.target]):
                    if isinstance(t, ast.Name):
                        assigned.add(t.id)
        bad = set()
        for sub in ast.walk(fn):
            if isinstance(sub, ast.Name) and isinstance(sub.ctx, ast.Load) and sub.id in assigned:
                if id(sub) not in in_raise and id(sub) not in selfbuild:
                    bad.add(sub.id)
        handler_names = {h.name for h in ast.walk(fn) if isinstance(h, ast.ExceptHandler) and h.name}
        out = set()
        for name in assigned - bad:
            # only if it is actually used in some raise
            if any(isinstance(sub, ast.Name) and sub.id == name and id(sub) in in_raise for sub in ast.walk(fn)):
                out.add(name)
        return out, handler_names

    def function(self, fn, ptypes, local_override, coqname):
        self.fn = fn
        self.fn_coq = coqname
        self.loop_index = 0
        self.for_index = 0
        self.handler_exc = []
        self.handler_names = []
        self.local_override = local_override
        self.inout = self.INOUT.get(fn.name)
        allp = [a.arg for a in fn.args.args if a.arg != "self"]
        for p_ in allp:
            if p_ not in ptypes:
                raise Unsupported("%s: no type for parameter %s" % (fn.name, p_))
        self.dropped = {p_: ptypes[p_] for p_ in allp if ptypes[p_] in ("any", "tokenizer")}
        params = [p_ for p_ in allp if p_ not in self.dropped]
        self.diag_locals, hn = self.find_diag_locals(fn)
        self.recursive = any(isinstance(c, ast.Call) and ast.unparse(c.func) == "self." + fn.name for c in ast.walk(fn))
        self.rty = "unit"
        self.ltypes = {}
        # the recursive call has the function's own signature: fix the result type first
        if self.inout:
            self.rty = ptypes[self.inout]
        self.rec_info = FnInfo("rec", [(p_, ptypes[p_]) for p_ in params], self.rty,
                               all_params=[(p_, None if p_ in self.dropped else ptypes[p_]) for p_ in allp])
        self.rec_info.noparams = True
        self.rec_info.inout = self.inout
        pt = {p_: ptypes[p_] for p_ in params}
        self.infer_locals_reader(fn, pt)
        if not self.inout:
            self.rty = self.return_type(fn)
        uses_hidden = any(isinstance(c, ast.Call) and ast.unparse(c.func) == "nexusprocessing.process_comments_for_item"
                          and any(k.arg == "item_comments" and isinstance(k.value, ast.Call) for k in c.keywords) for c in ast.walk(fn))
        if uses_hidden:
            self.ltypes[self.HIDDEN] = "olstr"
        for d in self.diag_locals:
            self.ltypes.pop(d, None)
        locs = sorted(self.ltypes)
        lty = "lc_%s" % coqname
        self.pre_defs = []
        out = []
        self.lc_type = "(%s L)" % lty
        out.append("Record %s (L : Type) : Type := mk_%s { %s }." % (
            lty, lty, "; ".join("%s : %s" % (self.lget(x), self.coqty(self.ltypes[x])) for x in locs)))
        out.append("Arguments mk_%s {L}." % lty)
        for x in locs:
            out.append("Arguments %s {L} _." % self.lget(x))
        for x in locs:
            out.append("Definition %s {L : Type} (l : %s) v : %s := mk_%s %s." % (
                self.lset(x), self.lc_type, self.lc_type, lty, " ".join("v" if y == x else "(%s l)" % self.lget(y) for y in locs)))
        init = "(mk_%s %s)" % (lty, " ".join(("v_" + x) if x in params else DEFAULT_OF(self.ltypes[x]) for x in locs))
        psig = "".join(" (v_%s : %s)" % (p_, self.coqty(ptypes[p_])) for p_ in params)
        self.rec_type = "%s -> %smres %s %s" % (self.u.otype, "".join("%s -> " % self.coqty(ptypes[p_]) for p_ in params),
                                                self.u.otype, self.coqty(self.rty))
        body = self.block(fn.body, 4)
        out.extend(self.pre_defs)
        final = "(fun s => %s (snd s))" % self.lget(self.inout) if self.inout else "(fun _ => %s)" % DEFAULT_OF(self.rty)
        usig = "".join(" (%s : %s)" % (n_, t_) for n_, t_ in self.u.params)
        uargs = "".join(" " + n_ for n_, _ in self.u.params)
        out.append("Definition %s_body%s : @stmt %s %s :=\n    %s." % (coqname, self.defsig(), self.sty(), self.coqty(self.rty), body))
        if self.recursive:
            uargs_rec = "".join(" " + ("fuel'" if n_ == "fuel" else n_) for n_, _ in self.u.params)
            out.append("Fixpoint %s%s (self : %s)%s {struct fuel} : mres %s %s :=\n  match fuel with\n  | O => MFuel\n  | Datatypes.S fuel' =>\n"
                       "  run_f (%s_body%s (%s%s)) (self, %s) %s\n  end." % (
                           coqname, usig, self.u.otype, psig, self.u.otype, self.coqty(self.rty), coqname, uargs, coqname, uargs_rec, init, final))
        else:
            out.append("Definition %s%s (self : %s)%s : mres %s %s :=\n  run_f (%s_body%s) (self, %s) %s." % (
                coqname, usig, self.u.otype, psig, self.u.otype, self.coqty(self.rty), coqname, uargs, init, final))
        info = FnInfo(coqname, [(p_, ptypes[p_]) for p_ in params], self.rty,
                      all_params=[(p_, None if p_ in self.dropped else ptypes[p_]) for p_ in allp], pure=self.is_pure(fn))
        info.inout = self.inout
        self.u.methods[fn.name] = info
        return "\n".join(out)

    def infer_locals_reader(self, fn, pt):
        self.infer_locals(fn, pt)

    def return_type(self, fn):
        tys = set()
        for sub in ast.walk(fn):
            if isinstance(sub, ast.Return) and sub.value is not None:
                try:
                    tys.add(self.expr_type_only(sub.value))
                except Unsupported:
                    tys.add("?")
        if tys and tys <= {"rtree", "none"} and "rtree" in tys:
            return "ortree"
        return Compiler.return_type(self, fn)

    def is_pure(self, fn):
        # no tokenizer call, no assignment to self / to a field of a parameter object, no translated impure callee
        for sub in ast.walk(fn):
            if isinstance(sub, (ast.Assign, ast.AugAssign)):
                for t in (sub.targets if isinstance(sub, ast.Assign) else [sub.target]):
                    if not isinstance(t, ast.Name):
                        return False
            if isinstance(sub, ast.Call) and isinstance(sub.func, ast.Attribute) and isinstance(sub.func.value, ast.Name):
                if sub.func.value.id in self.dropped and self.dropped[sub.func.value.id] == "tokenizer":
                    return False
                if sub.func.value.id == "self" and (sub.func.attr not in self.u.methods or not self.u.methods[sub.func.attr].pure):
                    return False
                if sub.func.attr in ("append", "extend", "add", "add_child"):
                    return False
        return not self.INOUT.get(fn.name)


READER_RESET_OK = ("self._seen_taxa", "self._parenthesis_nesting_level", "self._tree_statement_complete")

RD_FUEL = {
    ("_parse_tree_node_description", 0): "fuel",      # for count in it.count()
    ("_parse_tree_node_description", 1): "fuel",      # while current_token == ","
    ("_parse_tree_node_description", 2): "fuel",      # while True (label / length / terminator)
    ("_parse_tree_statement", 0): "fuel",
    ("_parse_tree_statement", 1): "fuel",
}


def gen_reader(trees, classes):
    def fld(g, s_, t):
        return ("(%s {o})" % g, "(%s {o} {v}, {lc})" % s_ if s_ else None, t)

    def opt(name, field):
        return ("(%s ro)" % field, None, "bool")
    attrs = {
        "nexus_tokenizer.current_token": fld("ps_cur", None, "ostr"),
        "self._parenthesis_nesting_level": fld("ps_nesting", "set_nesting", "int"),
        "self._tree_statement_complete": fld("ps_complete", "set_complete", "bool"),
        "self._seen_taxa": fld("ps_seen", "set_ps_seen", "seen"),
        "self._rooting": ("(ro_rooting ro)", None, "rooting"),
        "self.suppress_edge_lengths": opt("", "ro_suppress_edge_lengths"),
        "self.suppress_internal_node_taxa": opt("", "ro_suppress_internal_node_taxa"),
        "self.suppress_leaf_node_taxa": opt("", "ro_suppress_leaf_node_taxa"),
        "self.terminating_semicolon_required": opt("", "ro_terminating_semicolon_required"),
    }
    consts = {"self.store_tree_weights": False, "self.extract_comment_metadata": False, "self.finish_node_fn": None,
              "self.is_parse_jplace_tokens": False, "self.is_assign_internal_labels_to_edges": False}
    u = Unit("rd", "py_rd_", "pstate",
             [("L", "Type"), ("parse_len", "str -> option L"), ("lower", "str -> str"), ("ro", "ropts"), ("fuel", "nat")],
             attrs, consts=consts)
    c = ReaderCompiler(u, trees["newickreader"], RD_FUEL, classes)
    DEFAULT.update({"pnode": "new_pnode", "rtree": "new_rtree", "ortree": "None", "olen": "None", "seen": "[]", "taxon": "0%nat",
                    "otaxon": "None"})
    ptypes = {
        "_finish_node": {"node": "pnode"},
        "_parse_tree_rooting_state": {"rooting_comment": "ostr"},
        "_process_tree_comments": {"tree": "rtree", "tree_comments": "olstr", "nexus_tokenizer": "tokenizer"},
        "_parse_tree_node_description": {"nexus_tokenizer": "tokenizer", "tree": "any", "current_node": "pnode",
                                         "taxon_symbol_map_fn": "any", "is_internal_node": "obool"},
        "_parse_tree_statement": {"nexus_tokenizer": "tokenizer", "tree_factory": "any", "taxon_symbol_map_fn": "any"},
    }
    overrides = {("_process_tree_comments", "comment"): "str", ("_parse_tree_node_description", "edge_length"): "olen",
                 ("_parse_tree_node_description", "count"): "int"}
    out = ["(* ---- dataio/newickreader.py: class NewickReader.  Options outside the model are FIXED: %s ---- *)"
           % ", ".join("%s = %r" % (k[5:], v) for k, v in sorted(consts.items()))]
    for name in ["_finish_node", "_parse_tree_rooting_state", "_process_tree_comments", "_parse_tree_node_description",
                 "_parse_tree_statement"]:
        fn = find_method(trees["newickreader"], "NewickReader", name)
        out.append("(* NewickReader.%s *)" % name)
        out.append(c.function(fn, ptypes[name], overrides, u.prefix + clean(name)))
        out.append("")
    return "\n".join(out)

# ------------------------------------------------------------------------------------------------------------

HEADER = """(* GENERATED by py/dv/gen_newick.py from dataio/tokenizer.py, nexusprocessing.py, newickwriter.py,
   newickreader.py -- do not edit.  Every definition follows the Python source statement by statement over
   the combinators of Model/C02GenPrims.v; Proofs/C02Gen*.v prove them equal to Model/Tokenizer.v / Newick.v. *)
From Coq Require Import ZArith List Bool.
From DV Require Import Model.PyPrims Model.Tokenizer Model.Newick Model.C02GenPrims.
Import ListNotations.
Open Scope Z_scope.
"""


def generate(repo):
    base = os.path.join(repo, "src", "dendropy", "dataio")
    trees = {}
    classes = {}
    for key in ("tokenizer", "nexusprocessing", "newickwriter", "newickreader"):
        with open(os.path.join(base, key + ".py")) as f:
            trees[key] = ast.parse(f.read())
        all_classes(trees[key], classes)
    parts = [HEADER, gen_tokenizer(trees, classes), gen_escape(trees, classes), gen_mapper(trees, classes),
             gen_writer(trees, classes), gen_reader(trees, classes)]
    return "\n".join(parts)


if __name__ == "__main__":
    import sys
    print(generate(sys.argv[1] if len(sys.argv) > 1 else "/repo"))
