"""Translator: node ages / root distances / lineage counting / tree statistics of DendroPy
  ->  coq/Gen/Ages.v   (property C17).

generate(repo) parses src/dendropy/datamodel/treemodel/_tree.py and calculate/treemeasure.py with
`ast` and compiles every function listed in PLAN statement by statement into Gallina over the
run-time library coq/Model/C17Prims.v (whose header states the Python meaning of each primitive):

  * every function denotes  args -> tree -> store -> xres (store * result): the attribute store
    (x.age, x.edge.length, x.root_distance) is threaded through; exceptions are `cerr` values
  * a `for` loop becomes  py_for <list> (fun x '(carried) => body) (carried): structural recursion
    over the iterated list; the carried tuple = the variables (and the store) assigned in the body
    that exist before the loop; `continue` ends the body with the current tuple
  * `if` with a non-trivial continuation becomes a local join function applied in both branches;
    a branch that always raises / continues / returns needs none
  * `try: .. except TypeError: ..` becomes xcatch_type
  * expressions are typed (Z numbers, option Z for "None or number", Q after `/`, bool, node,
    lists, dicts keyed by node, precision / normalize values, strings = unit); an operation on
    "None or number" is a primitive that can raise TypeError and is sequenced with xbind in
    Python's evaluation order; `and` / `or` keep their short-circuit order
  * parameters are typed by PLAN; set_node_age_fn is specialised to None (the property's scope)

It is a compiler for a whitelisted subset: operators, call names, argument order, comparison
directions, loop sources, which variable or attribute is updated all come from the AST.  Anything
outside the subset raises Unsupported (py2coq then writes a stub and every dependent proof breaks).
"""
import ast
import os
import re
from fractions import Fraction

OUTPUT = "Ages.v"


class Unsupported(Exception):
    pass


# ----------------------------------------------------------------------------------------------
# types
# ----------------------------------------------------------------------------------------------
def TList(t): return ("list", t)
def TDict(t): return ("dict", t)


def coq_ty(t):
    if t == "Z": return "Z"
    if t == "OZ": return "(option Z)"
    if t == "Q": return "Q"
    if t == "B": return "bool"
    if t == "S": return "unit"
    if t == "node": return "node"
    if t == "onode": return "(option node)"
    if t == "nid": return "Z"
    if t == "onid": return "(option Z)"
    if t == "prec": return "precv"
    if t == "norm": return "norm"
    if t == "none": return "unit"
    if isinstance(t, tuple) and t[0] == "list":
        return "(list %s)" % coq_ty(t[1] or "Z")
    if isinstance(t, tuple) and t[0] == "dict":
        return "(dict %s)" % coq_ty(t[1] or "Z")
    raise Unsupported("no Coq type for %r" % (t,))


def join(a, b):
    if a == b:
        return a
    if a is None:
        return b
    if b is None:
        return a
    s = {a, b} if not (isinstance(a, tuple) or isinstance(b, tuple)) else None
    if s is not None:
        if s <= {"Z", "OZ", "none"}:
            return "OZ"
        if s == {"Z", "Q"}:
            return "Q"
        if s == {"node", "none"} or s == {"onode", "node"} or s == {"onode", "none"}:
            return "onode"
    if isinstance(a, tuple) and isinstance(b, tuple) and a[0] == b[0]:
        return (a[0], join(a[1], b[1]))
    raise Unsupported("cannot join types %r and %r" % (a, b))


def coerce(txt, a, b):
    if a == b or a is None:
        return txt
    if b == "OZ" and a == "Z":
        return "(Some %s)" % txt
    if b == "OZ" and a == "none":
        return "(@None Z)"
    if b == "Q" and a == "Z":
        return "(inject_Z %s)" % txt
    if b == "onode" and a == "node":
        return "(Some %s)" % txt
    if b == "onode" and a == "none":
        return "(@None node)"
    if isinstance(a, tuple) and isinstance(b, tuple) and a[0] == b[0]:
        if a[1] is None:
            if a[0] == "list":
                return "(@nil %s)" % coq_ty(b[1] or "Z")
            return "(@py_dict_empty %s)" % coq_ty(b[1] or "Z")
        if a[0] == "list" and a[1] == "Z" and b[1] == "OZ":
            return "(map (@Some Z) %s)" % txt
        if a[0] == "list" and a[1] == "Z" and b[1] == "Q":
            return "(map inject_Z %s)" % txt
    raise Unsupported("cannot coerce %r to %r" % (a, b))


ERRS = {"TypeError": "(Py TypeErr)", "ValueError": "(Py ValueErr)", "IndexError": "(Py IndexErr)",
        "AttributeError": "(Py AttrErr)", "KeyError": "(Py KeyErr)", "AssertionError": "(Py AssertErr)",
        "UltrametricityError": "Ultra"}

NORM_STR = {"yule": "NYule", "pda": "NPda", "max": "NMax"}

ITERS = {"postorder_node_iter": "py_postorder_nodes", "preorder_node_iter": "py_preorder_nodes",
         "leaf_node_iter": "py_leaf_nodes"}

ZCMP = {ast.Eq: "Z.eqb", ast.Lt: "Z.ltb", ast.LtE: "Z.leb", ast.Gt: "Z.gtb", ast.GtE: "Z.geb"}
OCMP = {ast.Lt: "py_lt_oo", ast.LtE: "py_le_oo", ast.Gt: "py_gt_oo", ast.GtE: "py_ge_oo"}


def vname(n):
    return "v_" + n


def tuple_pat(names):
    if not names:
        return "(_ : unit)"
    if len(names) == 1:
        return names[0]
    return "'(" + ", ".join(names) + ")"


def tuple_val(vals):
    if not vals:
        return "tt"
    if len(vals) == 1:
        return vals[0]
    return "(" + ", ".join(vals) + ")"


class K:
    """what follows a block: fall (normal end), cont (`continue`), both env -> text"""
    def __init__(self, fall, cont=None):
        self.fall, self.cont = fall, cont


class Fn:
    def __init__(self, fn, qual, ptypes, known, is_method):
        self.fn, self.qual, self.ptypes, self.known = fn, qual, ptypes, known
        self.is_method = is_method
        self.tmp = 0
        self.ret_ty = None
        self.uses_w = False
        self.dry = 0
        self.lifted = []          # loop bodies, emitted as separate definitions (innermost first)
        self.loopno = 0
        self.joinno = 0

    # ---------------------------------------------------------------- helpers
    def fresh(self, base="x"):
        self.tmp += 1
        return "%s%d" % (base, self.tmp)

    @staticmethod
    def wrap(pre, body):
        for var, m in reversed(pre):
            body = "(xbind %s (fun %s =>\n  %s))" % (m, var, body)
        return body

    def pure(self, e, env):
        pre, t, ty = self.ex(e, env)
        if pre:
            raise Unsupported("line %d: expression that can raise used where a pure one is required" % e.lineno)
        return t, ty

    def is_tree(self, e, env):
        return isinstance(e, ast.Name) and env.get(e.id) == "tree"

    # ---------------------------------------------------------------- node references
    def node_id(self, e, env):
        """identity of the node denoted by e (for attribute access): (pre, idtext)"""
        pre, t, ty = self.ex(e, env)
        if ty == "node":
            return pre, "(n_id %s)" % t
        if ty == "nid":
            return pre, t
        if ty == "onid":
            v = self.fresh("p")
            return pre + [(v, "(py_deref %s)" % t)], v
        if ty == "onode":
            v = self.fresh("p")
            return pre + [(v, "(py_deref (option_map n_id %s))" % t)], v
        raise Unsupported("line %d: attribute of a value of type %r" % (e.lineno, ty))

    def attr_chain(self, e):
        """X.edge.length -> (X, 'length'); X.age -> (X, 'age'); X.root_distance -> (X, 'rd')"""
        if isinstance(e, ast.Attribute):
            if e.attr == "length" and isinstance(e.value, ast.Attribute) and e.value.attr == "edge":
                return e.value.value, "length"
            if e.attr == "age":
                return e.value, "age"
            if e.attr == "root_distance":
                return e.value, "rd"
        return None

    # ---------------------------------------------------------------- expressions
    def ex(self, e, env):
        """-> (pre, text, type); pre = [(var, monadic expr)] to be bound, in evaluation order"""
        if isinstance(e, ast.Constant):
            v = e.value
            if v is None:
                return [], "tt", "none"
            if isinstance(v, bool):
                return [], ("true" if v else "false"), "B"
            if isinstance(v, int):
                return [], "(%d)" % v, "Z"
            if isinstance(v, float):
                fr = Fraction(repr(v))
                if fr.denominator == 1:
                    return [], "(%d)" % fr.numerator, "Z"
                return [], "(%d # %d)%%Q" % (fr.numerator, fr.denominator), "Q"
            if isinstance(v, str):
                return [], "tt", "S"
            raise Unsupported("constant %r" % (v,))
        if isinstance(e, ast.Name):
            if e.id in env:
                ty = env[e.id]
                if ty == "unbound":
                    raise Unsupported("line %d: %s may be unbound here" % (e.lineno, e.id))
                if ty == "tree":
                    return [], "t", "tree"
                return [], vname(e.id), ty
            if e.id == "EULERS_CONSTANT":
                self.uses_w = True
                return [], "(euler w)", "Q"
            raise Unsupported("line %d: unknown name %s" % (e.lineno, e.id))
        if isinstance(e, ast.Attribute):
            ch = self.attr_chain(e)
            if ch:
                pre, i = self.node_id(ch[0], env)
                if ch[1] == "age":
                    return pre, "(py_age st %s)" % i, "OZ"
                if ch[1] == "length":
                    return pre, "(py_length st %s)" % i, "OZ"
                v = self.fresh("rd")
                return pre + [(v, "(py_root_distance st %s)" % i)], v, "Z"
            if e.attr == "_parent_node":
                pre, t, ty = self.ex(e.value, env)
                if ty != "node":
                    raise Unsupported("line %d: _parent_node of %r" % (e.lineno, ty))
                return pre, "(py_parent %s)" % t, "onid"
            if e.attr == "_child_nodes":
                pre, t, ty = self.ex(e.value, env)
                if ty != "node":
                    raise Unsupported("line %d: _child_nodes of %r" % (e.lineno, ty))
                return pre, "(py_child_nodes %s)" % t, TList("node")
            if e.attr == "seed_node" and self.is_tree(e.value, env):
                return [], "(py_seed t)", "node"
            if e.attr == "taxon":
                pre, t, ty = self.ex(e.value, env)
                return pre, "tt", "S"
            raise Unsupported("line %d: attribute .%s" % (e.lineno, e.attr))
        if isinstance(e, ast.Call):
            return self.call(e, env)
        if isinstance(e, ast.Subscript):
            pre, t, ty = self.ex(e.value, env)
            if isinstance(e.slice, ast.Slice):
                s = e.slice
                if not (ty[0] == "list" and s.upper is None and s.step is None and isinstance(s.lower, ast.Constant)
                        and isinstance(s.lower.value, int) and s.lower.value >= 0):
                    raise Unsupported("line %d: slice form" % e.lineno)
                return pre, "(py_slice_from %s %d)" % (t, s.lower.value), ty
            if isinstance(ty, tuple) and ty[0] == "list":
                pre2, i, ity = self.ex(e.slice, env)
                if ity != "Z":
                    raise Unsupported("line %d: list index of type %r" % (e.lineno, ity))
                v = self.fresh("it")
                return pre + pre2 + [(v, "(py_index %s %s)" % (t, i))], v, ty[1]
            if isinstance(ty, tuple) and ty[0] == "dict":
                pre2, i = self.node_id(e.slice, env)
                v = self.fresh("dv")
                return pre + pre2 + [(v, "(py_dict_get %s %s)" % (t, i))], v, ty[1]
            raise Unsupported("line %d: subscript of %r" % (e.lineno, ty))
        if isinstance(e, ast.BinOp):
            return self.binop(e, env)
        if isinstance(e, ast.UnaryOp):
            if isinstance(e.op, ast.Not):
                pre, t = self.truth(e.operand, env)
                return pre, "(negb %s)" % t, "B"
            if isinstance(e.op, ast.USub):
                pre, t, ty = self.ex(e.operand, env)
                if ty == "Z":
                    return pre, "(Z.opp %s)" % t, "Z"
            raise Unsupported("line %d: unary operator" % e.lineno)
        if isinstance(e, ast.Compare):
            return self.compare(e, env)
        if isinstance(e, ast.BoolOp):
            return self.boolop(e, env)
        if isinstance(e, ast.ListComp):
            return self.comprehension(e, env)
        if isinstance(e, ast.List) and not e.elts:
            return [], "nil", TList(None)
        if isinstance(e, ast.Dict) and not e.keys:
            return [], "py_dict_empty", TDict(None)
        raise Unsupported("line %d: expression %s" % (e.lineno, type(e).__name__))

    def comprehension(self, e, env):
        """[elt for x in src]  (one generator, no condition) -> (pre, text, list type)"""
        if len(e.generators) != 1 or e.generators[0].ifs or not isinstance(e.generators[0].target, ast.Name):
            raise Unsupported("line %d: comprehension form" % e.lineno)
        g = e.generators[0]
        pre, src, sty = self.ex(g.iter, env)
        if not (isinstance(sty, tuple) and sty[0] == "list"):
            raise Unsupported("line %d: comprehension over %r" % (e.lineno, sty))
        env2 = dict(env)
        env2[g.target.id] = sty[1]
        epre, et, ety = self.ex(e.elt, env2)
        x = vname(g.target.id)
        if epre:
            v = self.fresh("l")
            return pre + [(v, "(xmapM (fun %s => %s) %s)" % (x, self.wrap(epre, "(XOk %s)" % et), src))], v, TList(ety)
        return pre, "(map (fun %s => %s) %s)" % (x, et, src), TList(ety)

    def truth(self, e, env):
        pre, t, ty = self.ex(e, env)
        if ty == "B":
            return pre, t
        if ty in ("onid", "onode"):
            return pre, "(negb (py_is_none %s))" % t     # a Node is always true (no __bool__/__len__)
        if isinstance(ty, tuple) and ty[0] == "list":
            return pre, "(negb (Z.eqb (py_len %s) 0))" % t
        raise Unsupported("line %d: truth value of %r" % (e.lineno, ty))

    def num_pair(self, pa, a, ta, pb, b, tb, line):
        """bring two numeric operands to a common type"""
        if ta is None or tb is None:
            return "BOT", "BOT", None           # element type not known yet (type inference pass)
        if ta == tb and ta in ("Z", "Q"):
            return a, b, ta
        if {ta, tb} == {"Z", "Q"}:
            return coerce(a, ta, "Q"), coerce(b, tb, "Q"), "Q"
        if {ta, tb} <= {"Z", "OZ", "none"}:
            return coerce(a, ta, "OZ"), coerce(b, tb, "OZ"), "OZ"
        raise Unsupported("line %d: arithmetic on %r and %r" % (line, ta, tb))

    def binop(self, e, env):
        pa, a, ta = self.ex(e.left, env)
        pb, b, tb = self.ex(e.right, env)
        pre = pa + pb
        if isinstance(e.op, ast.Div):
            if ta is None or tb is None:
                return pre, "BOT", None
            if ta not in ("Z", "Q") or tb not in ("Z", "Q"):
                raise Unsupported("line %d: division of %r by %r" % (e.lineno, ta, tb))
            v = self.fresh("q")
            return pre + [(v, "(py_div %s %s)" % (coerce(a, ta, "Q"), coerce(b, tb, "Q")))], v, "Q"
        a2, b2, ty = self.num_pair(pa, a, ta, pb, b, tb, e.lineno)
        if ty is None:
            return pre, "BOT", None
        if isinstance(e.op, (ast.Add, ast.Sub)):
            if ty == "Z":
                return pre, "(%s %s %s)" % ("Z.add" if isinstance(e.op, ast.Add) else "Z.sub", a2, b2), "Z"
            if ty == "Q":
                return pre, "(%s %s %s)" % ("Qplus" if isinstance(e.op, ast.Add) else "Qminus", a2, b2), "Q"
            v = self.fresh("n")
            return pre + [(v, "(%s %s %s)" % ("py_add_oo" if isinstance(e.op, ast.Add) else "py_sub_oo", a2, b2))], v, "Z"
        if isinstance(e.op, ast.Mult):
            if ty == "Z":
                return pre, "(Z.mul %s %s)" % (a2, b2), "Z"
            if ty == "Q":
                return pre, "(Qmult %s %s)" % (a2, b2), "Q"
        raise Unsupported("line %d: operator %s on %r" % (e.lineno, type(e.op).__name__, ty))

    def compare(self, e, env):
        if len(e.ops) != 1:
            raise Unsupported("line %d: chained comparison" % e.lineno)
        op, l, r = e.ops[0], e.left, e.comparators[0]
        # identity tests
        if isinstance(op, (ast.Is, ast.IsNot)):
            pre, t, ty = self.ex(l, env)
            if not isinstance(r, ast.Constant) or r.value not in (None, True, False):
                raise Unsupported("line %d: `is` against a non-constant" % e.lineno)
            c = r.value
            if ty == "norm":
                res = "(norm_eqb %s %s)" % (t, {None: "NNone", True: "NTrue", False: "NFalse"}[c])
            elif ty == "prec" and c is None:
                res = "(py_prec_is_none %s)" % t
            elif ty == "prec" and c is False:
                res = "(py_prec_is_false %s)" % t
            elif c is None and ty in ("OZ", "onid", "onode"):
                res = "(py_is_none %s)" % t
            elif c is None and ty == "none":
                res = "true"
            elif c is None and ty in ("node", "Z", "Q"):
                res = "false"
            else:
                raise Unsupported("line %d: `is %r` on %r" % (e.lineno, c, ty))
            if isinstance(op, ast.IsNot):
                res = "(negb %s)" % res
            return pre, res, "B"
        pa, a, ta = self.ex(l, env)
        pb, b, tb = self.ex(r, env)
        pre = pa + pb
        if ta == "norm" and isinstance(r, ast.Constant) and isinstance(r.value, str) and isinstance(op, ast.Eq):
            if r.value not in NORM_STR:
                raise Unsupported("line %d: normalize compared with %r" % (e.lineno, r.value))
            return pa, "(norm_eqb %s %s)" % (a, NORM_STR[r.value]), "B"
        if tb == "prec" and ta == "Z" and isinstance(op, ast.Gt):
            v = self.fresh("c")
            return pre + [(v, "(py_gt_prec %s %s)" % (a, b))], v, "B"
        if ta == "prec" and tb == "Z" and isinstance(op, ast.Lt):
            v = self.fresh("c")
            return pre + [(v, "(py_prec_lt %s %s)" % (a, b))], v, "B"
        a2, b2, ty = self.num_pair(pa, a, ta, pb, b, tb, e.lineno)
        if ty is None:
            return pre, "BOT", "B"
        if ty == "Z":
            if isinstance(op, ast.NotEq):
                return pre, "(negb (Z.eqb %s %s))" % (a2, b2), "B"
            if type(op) in ZCMP:
                return pre, "(%s %s %s)" % (ZCMP[type(op)], a2, b2), "B"
        if ty == "OZ":
            if isinstance(op, ast.Eq):
                return pre, "(py_eq_oo %s %s)" % (a2, b2), "B"
            if isinstance(op, ast.NotEq):
                return pre, "(negb (py_eq_oo %s %s))" % (a2, b2), "B"
            if type(op) in OCMP:
                v = self.fresh("c")
                return pre + [(v, "(%s %s %s)" % (OCMP[type(op)], a2, b2))], v, "B"
        raise Unsupported("line %d: comparison %s on %r" % (e.lineno, type(op).__name__, ty))

    def boolop(self, e, env):
        is_and = isinstance(e.op, ast.And)
        # `x or <number>` on "None or number"
        if not is_and and len(e.values) == 2:
            try:
                pa, a, ta = self.ex(e.values[0], env)
                pb, b, tb = self.ex(e.values[1], env)
            except Unsupported:
                ta = None
            if ta == "OZ" and tb == "Z" and not pb:
                return pa, "(py_or_num %s %s)" % (a, b), "Z"
        parts = [self.truth(v, env) for v in e.values]
        # right to left; an operand with bindings is evaluated only when the left ones do not decide
        pre, t = parts[-1]
        for ppre, pt in reversed(parts[:-1]):
            if pre:
                inner = self.wrap(pre, "(XOk %s)" % t)
                v = self.fresh("b")
                if is_and:
                    m = "(if %s then %s else XOk false)" % (pt, inner)
                else:
                    m = "(if %s then XOk true else %s)" % (pt, inner)
                pre, t = ppre + [(v, m)], v
            else:
                pre, t = ppre, "(%s %s %s)" % ("andb" if is_and else "orb", pt, t)
        return pre, t, "B"

    def call(self, e, env):
        f = e.func
        if isinstance(f, ast.Name):
            if f.id == "len" and len(e.args) == 1:
                pre, t, ty = self.ex(e.args[0], env)
                if not (isinstance(ty, tuple) and ty[0] == "list"):
                    raise Unsupported("line %d: len of %r" % (e.lineno, ty))
                return pre, "(py_len %s)" % t, "Z"
            if f.id == "abs" and len(e.args) == 1:
                pre, t, ty = self.ex(e.args[0], env)
                if ty is None:
                    return pre, "BOT", None
                if ty != "Z":
                    raise Unsupported("line %d: abs of %r" % (e.lineno, ty))
                return pre, "(Z.abs %s)" % t, "Z"
            if f.id == "float" and len(e.args) == 1:
                pre, t, ty = self.ex(e.args[0], env)
                if ty not in ("Z", "Q"):
                    raise Unsupported("line %d: float of %r" % (e.lineno, ty))
                return pre, t, ty
            if f.id == "str" and len(e.args) == 1:
                pre, t, ty = self.ex(e.args[0], env)
                return pre, "tt", "S"
            if f.id in ("max", "min") and len(e.args) == 1 and not e.keywords:
                a = e.args[0]
                if isinstance(a, ast.GeneratorExp):
                    a = ast.copy_location(ast.ListComp(elt=a.elt, generators=a.generators), a)
                pre, t, ty = self.ex(a, env)
                if ty == TList(None):
                    return pre, "BOT", None
                if ty != TList("Z"):
                    raise Unsupported("line %d: %s over %r" % (e.lineno, f.id, ty))
                v = self.fresh("m")
                return pre + [(v, "(py_%s_list %s)" % (f.id, t))], v, "Z"
            if f.id == "sum" and len(e.args) == 1:
                a = e.args[0]
                if isinstance(a, ast.GeneratorExp):
                    a = ast.copy_location(ast.ListComp(elt=a.elt, generators=a.generators), a)
                pre, t, ty = self.ex(a, env)
                if ty != TList("Q"):
                    raise Unsupported("line %d: sum over %r" % (e.lineno, ty))
                return pre, "(py_sum_Q %s)" % t, "Q"
            if f.id == "range" and len(e.args) == 2:
                pa, a, ta = self.ex(e.args[0], env)
                pb, b, tb = self.ex(e.args[1], env)
                if ta != "Z" or tb != "Z":
                    raise Unsupported("line %d: range bounds" % e.lineno)
                return pa + pb, "(py_range %s %s)" % (a, b), TList("Z")
            if f.id == "pow" and len(e.args) == 2:
                pa, a, ta = self.ex(e.args[0], env)
                pb, b, tb = self.ex(e.args[1], env)
                self.uses_w = True
                return pa + pb, "(py_pow w %s %s)" % (coerce(a, ta, "Q"), coerce(b, tb, "Q")), "Q"
            raise Unsupported("line %d: call of %s" % (e.lineno, f.id))
        if isinstance(f, ast.Attribute):
            if isinstance(f.value, ast.Name) and f.value.id == "math" and f.attr == "log" and len(e.args) == 1:
                self.uses_w = True
                if isinstance(e.args[0], ast.Constant) and e.args[0].value == 2:
                    return [], "(py_log2 w)", "Q"
                pre, t, ty = self.ex(e.args[0], env)
                if ty != "Z":
                    raise Unsupported("line %d: log of %r" % (e.lineno, ty))
                return pre, "(py_log w %s)" % t, "Q"
            if f.attr in ("child_nodes",) and not e.args:
                pre, t, ty = self.ex(f.value, env)
                if ty != "node":
                    raise Unsupported("line %d: child_nodes of %r" % (e.lineno, ty))
                return pre, "(py_child_nodes %s)" % t, TList("node")
            if f.attr == "is_leaf" and not e.args:
                pre, t, ty = self.ex(f.value, env)
                if ty != "node":
                    raise Unsupported("line %d: is_leaf of %r" % (e.lineno, ty))
                return pre, "(py_is_leaf %s)" % t, "B"
            if f.attr == "_as_newick_string" and not e.args:
                pre, t, ty = self.ex(f.value, env)
                return pre, "tt", "S"
            if f.attr in ITERS and self.is_tree(f.value, env) and not e.args and not e.keywords:
                return [], "(%s t)" % ITERS[f.attr], TList("node")
            if f.attr == "ancestor_iter":
                if e.args or len(e.keywords) != 1 or e.keywords[0].arg != "inclusive" or \
                        not (isinstance(e.keywords[0].value, ast.Constant) and e.keywords[0].value.value is False):
                    raise Unsupported("line %d: ancestor_iter arguments" % e.lineno)
                pre, t, ty = self.ex(f.value, env)
                if ty != "node":
                    raise Unsupported("line %d: ancestor_iter of %r" % (e.lineno, ty))
                return pre, "(py_ancestors %s)" % t, TList("nid")
            if f.attr in ("format", "join"):
                pre, t, ty = self.ex(f.value, env)
                if ty != "S":
                    raise Unsupported("line %d: .%s of %r" % (e.lineno, f.attr, ty))
                for a in list(e.args) + [k.value for k in e.keywords]:
                    p2, _t, _ty = self.ex(a, env)
                    pre = pre + p2
                return pre, "tt", "S"
            raise Unsupported("line %d: method call .%s" % (e.lineno, f.attr))
        raise Unsupported("line %d: call form" % e.lineno)

    # ---------------------------------------------------------------- statements
    def assigned(self, stmts):
        """names (and the pseudo-variable 'st') assigned anywhere in stmts"""
        out = []

        def add(n):
            if n not in out:
                out.append(n)
        for s in stmts:
            for n in ast.walk(s):
                if isinstance(n, (ast.Assign, ast.AugAssign)):
                    for tg in (n.targets if isinstance(n, ast.Assign) else [n.target]):
                        if isinstance(tg, ast.Name):
                            add(tg.id)
                        elif isinstance(tg, ast.Attribute):
                            add("$st")
                        elif isinstance(tg, ast.Subscript) and isinstance(tg.value, ast.Name):
                            add(tg.value.id)
                elif isinstance(n, ast.For) and isinstance(n.target, ast.Name):
                    add(n.target.id)
                elif isinstance(n, ast.Call) and isinstance(n.func, ast.Attribute):
                    if n.func.attr in ("append", "sort") and isinstance(n.func.value, ast.Name):
                        add(n.func.value.id)
                    if n.func.attr in self.known:
                        add("$st")
        return out

    def always_exits(self, stmts):
        for s in stmts:
            if isinstance(s, (ast.Return, ast.Raise, ast.Continue)):
                return True
            if isinstance(s, ast.If) and s.orelse and self.always_exits(s.body) and self.always_exits(s.orelse):
                return True
        return False

    def carried_val(self, names, env):
        return tuple_val([("st" if n == "$st" else vname(n)) for n in names])

    def carried_pat(self, names):
        return tuple_pat([("st" if n == "$st" else vname(n)) for n in names])

    def known_call(self, e, env):
        """call of another translated function on the tree: (callee record, coq arg texts) or None"""
        if not (isinstance(e, ast.Call) and isinstance(e.func, ast.Attribute) and e.func.attr in self.known
                and self.is_tree(e.func.value, env)):
            return None
        rec = self.known[e.func.attr]
        vals = {}
        if len(e.args) > len(rec["params"]):
            raise Unsupported("line %d: too many arguments" % e.lineno)
        for (p, pty, dflt), a in zip(rec["params"], e.args):
            vals[p] = a
        for kw in e.keywords:
            if kw.arg not in [p for p, _t, _d in rec["params"]] or kw.arg in vals:
                raise Unsupported("line %d: keyword %s" % (e.lineno, kw.arg))
            vals[kw.arg] = kw.value
        args = []
        for p, pty, dflt in rec["params"]:
            if pty == "none":
                if p in vals and not (isinstance(vals[p], ast.Constant) and vals[p].value is None):
                    raise Unsupported("line %d: %s must be None" % (e.lineno, p))
                continue
            a = vals.get(p, dflt)
            if a is None:
                raise Unsupported("line %d: no value for parameter %s" % (e.lineno, p))
            t, ty = self.pure(a, env)
            args.append(coerce_param(t, ty, pty, e.lineno))
        return rec, args

    def block(self, stmts, env, k):
        if not stmts:
            return k.fall(env)
        s, rest = stmts[0], stmts[1:]
        ln = getattr(s, "lineno", 0)
        if isinstance(s, ast.Expr) and isinstance(s.value, ast.Constant) and isinstance(s.value.value, str):
            return self.block(rest, env, k)
        if isinstance(s, ast.Pass):
            return self.block(rest, env, k)
        if isinstance(s, ast.Continue):
            if k.cont is None:
                raise Unsupported("line %d: continue outside a loop" % ln)
            return k.cont(env)
        if isinstance(s, ast.Return):
            if getattr(self, "in_loop", 0):
                raise Unsupported("line %d: return inside a loop" % ln)
            if s.value is None:
                raise Unsupported("line %d: bare return" % ln)
            pre, t, ty = self.ex(s.value, env)
            self.ret_ty = join(self.ret_ty, ty)
            self.returns.append((pre, t, ty))
            return self.wrap(pre, "(XOk (st, RETURN%d))" % (len(self.returns) - 1))
        if isinstance(s, ast.Raise):
            exc = s.exc
            if not isinstance(exc, ast.Call):
                raise Unsupported("line %d: raise form" % ln)
            name = exc.func.attr if isinstance(exc.func, ast.Attribute) else exc.func.id
            if name not in ERRS:
                raise Unsupported("line %d: raise %s" % (ln, name))
            pre = []
            for a in exc.args:
                p, _t, _ty = self.ex(a, env)
                pre += p
            return self.wrap(pre, "(XErr %s)" % ERRS[name])
        if isinstance(s, ast.Assert):
            pre, t = self.truth(s.test, env)
            return self.wrap(pre, "(if %s then %s else XErr (Py AssertErr))" % (t, self.block(rest, env, k)))
        if isinstance(s, ast.Expr):
            return self.expr_stmt(s, rest, env, k)
        if isinstance(s, ast.Assign):
            return self.assign(s, rest, env, k)
        if isinstance(s, ast.AugAssign):
            if not isinstance(s.target, ast.Name):
                raise Unsupported("line %d: augmented assignment target" % ln)
            b = ast.copy_location(ast.BinOp(left=ast.copy_location(ast.Name(id=s.target.id, ctx=ast.Load()), s),
                                            op=s.op, right=s.value), s)
            a = ast.copy_location(ast.Assign(targets=[s.target], value=b), s)
            return self.assign(a, rest, env, k)
        if isinstance(s, ast.If):
            return self.if_stmt(s, rest, env, k)
        if isinstance(s, ast.For):
            return self.for_stmt(s, rest, env, k)
        if isinstance(s, ast.Try):
            return self.try_stmt(s, rest, env, k)
        raise Unsupported("line %d: statement %s" % (ln, type(s).__name__))

    def expr_stmt(self, s, rest, env, k):
        e = s.value
        ln = s.lineno
        kc = self.known_call(e, env)
        if kc:
            rec, args = kc
            return "(xbind (%s %s t st) (fun '(st, _) =>\n  %s))" % (rec["coq"], " ".join(args), self.block(rest, env, k))
        if isinstance(e, ast.Call) and isinstance(e.func, ast.Attribute) and isinstance(e.func.value, ast.Name):
            lst = e.func.value.id
            lty = env.get(lst)
            if e.func.attr == "append" and len(e.args) == 1 and isinstance(lty, tuple) and lty[0] == "list":
                pre, t, ty = self.ex(e.args[0], env)
                nty = join(lty[1], ty)
                env2 = dict(env)
                env2[lst] = TList(nty)
                old = vname(lst) if lty[1] is not None else "nil"
                if lty[1] is not None and lty[1] != nty:
                    old = coerce(old, lty, TList(nty))
                return self.wrap(pre, "(let %s := py_append %s %s in\n  %s)"
                                 % (vname(lst), old, coerce(t, ty, nty), self.block(rest, env2, k)))
            if e.func.attr == "sort" and not e.args and isinstance(lty, tuple) and lty[0] == "list":
                rev = False
                for kw in e.keywords:
                    if kw.arg == "reverse" and isinstance(kw.value, ast.Constant) and isinstance(kw.value.value, bool):
                        rev = kw.value.value
                    else:
                        raise Unsupported("line %d: sort arguments" % ln)
                fn = "py_sort_desc" if rev else "py_sort_asc"
                if lty[1] == "Z":
                    return "(let %s := %s %s in\n  %s)" % (vname(lst), fn, vname(lst), self.block(rest, env, k))
                if lty[1] == "OZ":
                    # comparing None with a number raises TypeError; the sorted list holds numbers
                    env2 = dict(env)
                    env2[lst] = TList("Z")
                    v = self.fresh("nums")
                    return "(xbind (py_all_nums %s) (fun %s =>\n  (let %s := %s %s in\n  %s)))" % (
                        vname(lst), v, vname(lst), fn, v, self.block(rest, env2, k))
        raise Unsupported("line %d: expression statement" % ln)

    def assign(self, s, rest, env, k):
        ln = s.lineno
        if len(s.targets) != 1:
            raise Unsupported("line %d: multiple assignment targets" % ln)
        tg = s.targets[0]
        kc = self.known_call(s.value, env)
        if kc:
            if not isinstance(tg, ast.Name):
                raise Unsupported("line %d: call result target" % ln)
            rec, args = kc
            env2 = dict(env)
            env2[tg.id] = rec["ret"]
            return "(xbind (%s %s t st) (fun '(st, %s) =>\n  %s))" % (rec["coq"], " ".join(args), vname(tg.id),
                                                                    self.block(rest, env2, k))
        if isinstance(tg, ast.Name):
            pre, t, ty = self.ex(s.value, env)
            env2 = dict(env)
            env2[tg.id] = ty
            if isinstance(ty, tuple) and ty[1] is None:
                # empty list / dict literal: its element type is fixed by the first use (see coerce)
                return self.block(rest, env2, k)
            return self.wrap(pre, "(let %s := %s in\n  %s)" % (vname(tg.id), t, self.block(rest, env2, k)))
        ch = self.attr_chain(tg)
        if ch:
            # Python evaluates the right-hand side first, then the target object
            pre, t, ty = self.ex(s.value, env)
            pre2, i = self.node_id(ch[0], env)
            if ch[1] == "age":
                upd = "py_set_age st %s %s" % (i, coerce(t, ty, "OZ"))
            elif ch[1] == "length":
                upd = "py_set_length st %s %s" % (i, coerce(t, ty, "OZ"))
            else:
                if ty != "Z":
                    raise Unsupported("line %d: root_distance of type %r" % (ln, ty))
                upd = "py_set_root_distance st %s %s" % (i, t)
            return self.wrap(pre + pre2, "(let st := %s in\n  %s)" % (upd, self.block(rest, env, k)))
        if isinstance(tg, ast.Subscript) and isinstance(tg.value, ast.Name):
            d = tg.value.id
            dty = env.get(d)
            if not (isinstance(dty, tuple) and dty[0] == "dict"):
                raise Unsupported("line %d: subscript assignment to %r" % (ln, dty))
            pre, t, ty = self.ex(s.value, env)
            pre2, i = self.node_id(tg.slice, env)
            nty = join(dty[1], ty)
            if dty[1] is not None and nty != dty[1]:
                raise Unsupported("line %d: dict value type changes" % ln)
            env2 = dict(env)
            env2[d] = TDict(nty)
            old = vname(d) if dty[1] is not None else "py_dict_empty"
            return self.wrap(pre + pre2, "(let %s := py_dict_set %s %s %s in\n  %s)"
                             % (vname(d), old, i, coerce(t, ty, nty), self.block(rest, env2, k)))
        raise Unsupported("line %d: assignment target" % ln)

    # a join point for the statements after an if / try
    def with_join(self, branches, combine, assigned_names, rest, env, k, ln):
        """branches: list of functions (K -> text) compiling one branch each with the given K;
        returns text.  The variables assigned in some branch are passed to the join function."""
        names = []
        for n in assigned_names:
            if n not in names:
                names.append(n)
        # first pass: types at the end of each branch
        ends = []

        def rec_fall(e):
            ends.append(e)
            return "JOIN"
        saved_tmp, saved_ret, saved_rets = self.tmp, self.ret_ty, list(self.returns)
        self.dry += 1
        try:
            for b in branches:
                b(K(rec_fall, k.cont))
        finally:
            self.dry -= 1
        self.tmp, self.ret_ty, self.returns = saved_tmp, saved_ret, saved_rets
        if not ends:
            # every branch exits: the rest is unreachable
            return combine([b(K(lambda e: "(XErr (Py OtherErr))", k.cont)) for b in branches])
        jn = []
        jtypes = {}
        for n in names:
            if n == "$st":
                jn.append(n)
                continue
            tys = [e.get(n, "unbound") for e in ends]
            if all(t == "unbound" for t in tys):
                continue
            if any(t == "unbound" for t in tys):
                if n in env and env[n] != "unbound":
                    raise Unsupported("line %d: internal: %s lost" % (ln, n))
                # bound on some paths only: allowed when the very next statement reads it
                # (Python raises UnboundLocalError there on the other paths)
                if not (rest and any(isinstance(x, ast.Name) and x.id == n for x in ast.walk(rest[0]))):
                    continue
                jtypes[n] = None
                for t in tys:
                    if t != "unbound":
                        jtypes[n] = join(jtypes[n], t)
                jn.append(n)
                continue
            ty = None
            for t in tys:
                ty = join(ty, t)
            jtypes[n] = ty
            jn.append(n)
        env2 = dict(env)
        for n in jn:
            if n != "$st":
                env2[n] = jtypes[n]
        for n in names:
            if n != "$st" and n not in jn and n not in env:
                env2[n] = "unbound"
        jname = self.fresh("join")
        rest_txt = self.block(rest, env2, k)

        def fall(e):
            vals = []
            for n in jn:
                if n == "$st":
                    vals.append("st")
                elif e.get(n, "unbound") == "unbound":
                    return "(XErr (Py OtherErr)) (* UnboundLocalError: %s *)" % n
                else:
                    vals.append(coerce(vname(n), e[n], jtypes[n]))
            return "(%s %s)" % (jname, tuple_val(vals))
        if self.dry == 0:
            # the continuation becomes a definition of its own (like loop bodies)
            self.joinno += 1
            jdef = "%s_join%d" % (self.coq_name, self.joinno)
            jtys = ["store" if n == "$st" else coq_ty(jtypes[n]) for n in jn]
            if len(jn) == 0:
                binder, dest = "(_ : unit)", ""
            elif len(jn) == 1:
                binder, dest = "(%s : %s)" % (("st" if jn[0] == "$st" else vname(jn[0])), jtys[0]), ""
            else:
                binder = "(joined : %s)" % " * ".join(jtys)
                dest = "let %s := joined in\n  " % self.carried_pat(jn)
            bound = set(("st" if n == "$st" else vname(n)) for n in jn)
            free = []
            for n, ty in env.items():
                if ty in ("tree", "none", "unbound") or n in self.param_names:
                    continue
                if isinstance(ty, tuple) and ty[1] is None:
                    continue
                if vname(n) not in bound and re.search(r"\b%s\b" % re.escape(vname(n)), rest_txt):
                    free.append((vname(n), coq_ty(ty)))
            if "st" not in bound and re.search(r"\bst\b", rest_txt):
                free.append(("st", "store"))
            self.lifted.append((jdef, free, "(fun %s =>\n  %s%s)" % (binder, dest, rest_txt)))
            jcall = "(%s %s%s)" % (jdef, self.param_args, "".join(" " + f for f, _ in free))
            body = combine([b(K(fall, k.cont)) for b in branches])
            return body.replace("(%s " % jname, "(%s " % jcall[:-1] + " ").replace("  ", " ") if False else \
                body.replace("(%s " % jname, jcall[:-1] + " ")
        body = combine([b(K(fall, k.cont)) for b in branches])
        return "(let %s := (fun %s =>\n  %s) in\n  %s)" % (jname, self.carried_pat(jn), rest_txt, body)

    def static_truth(self, e, env):
        """truth value known from the parameter specialisation (set_node_age_fn is None), else None"""
        if isinstance(e, ast.Compare) and len(e.ops) == 1 and isinstance(e.ops[0], (ast.Is, ast.IsNot)) \
                and isinstance(e.left, ast.Name) and env.get(e.left.id) == "none" \
                and isinstance(e.comparators[0], ast.Constant) and e.comparators[0].value is None:
            return isinstance(e.ops[0], ast.Is)
        return None

    def if_stmt(self, s, rest, env, k):
        ln = s.lineno
        st = self.static_truth(s.test, env)
        if st is not None:
            return self.block((list(s.body) if st else list(s.orelse)) + rest, env, k)
        pre, c = self.truth(s.test, env)
        if self.always_exits(s.body):
            return self.wrap(pre, "(if %s\n  then %s\n  else %s)" % (c, self.block(s.body, env, k),
                                                                 self.block(list(s.orelse) + rest, env, k)))
        if s.orelse and self.always_exits(s.orelse):
            return self.wrap(pre, "(if %s\n  then %s\n  else %s)" % (c, self.block(list(s.body) + rest, env, k),
                                                                 self.block(s.orelse, env, k)))
        if not rest:
            return self.wrap(pre, "(if %s\n  then %s\n  else %s)" % (c, self.block(s.body, env, k),
                                                                 self.block(s.orelse, env, k)))
        names = self.assigned(s.body) + self.assigned(s.orelse)
        br = [lambda kk: self.block(s.body, env, kk), lambda kk: self.block(s.orelse, env, kk)]

        def combine(texts):
            return "(if %s\n  then %s\n  else %s)" % (c, texts[0], texts[1])
        return self.wrap(pre, self.with_join(br, combine, names, rest, env, k, ln))

    def try_stmt(self, s, rest, env, k):
        ln = s.lineno
        if s.orelse or s.finalbody or len(s.handlers) != 1:
            raise Unsupported("line %d: try form" % ln)
        h = s.handlers[0]
        if not (isinstance(h.type, ast.Name) and h.type.id == "TypeError" and h.name is None):
            raise Unsupported("line %d: except clause" % ln)
        for b in s.body:
            if not isinstance(b, ast.Assign) or not isinstance(b.targets[0], ast.Name):
                raise Unsupported("line %d: try body must be plain assignments" % ln)
        names = [n for n in self.assigned(s.body)]
        # the protected computation: the tuple of the variables it assigns
        ends = []

        def rec(e):
            ends.append(e)
            return "(XOk %s)" % tuple_val([vname(n) for n in names])
        body_txt = self.block(s.body, env, K(rec, None))
        if len(ends) != 1:
            raise Unsupported("line %d: try body" % ln)
        tenv = ends[0]
        # handler: runs in the environment before the try (the failed assignment did not happen)
        hassigned = self.assigned(h.body)
        for n in names:
            if n not in hassigned and n not in env:
                raise Unsupported("line %d: %s unbound after the handler" % (ln, n))
        tv = self.fresh("tr")

        def normal(kk):
            return "(let %s := %s in\n  %s)" % (tuple_pat([vname(n) for n in names]), tv, kk.fall(tenv))

        def handler(kk):
            return self.block(h.body, env, kk)

        def combine(texts):
            return ("(match %s with\n  | XOk %s => %s\n  | XErr (Py TypeErr) => %s\n  | XErr e => XErr e\n  end)"
                    % (body_txt, tv, texts[0], texts[1]))
        return self.with_join([normal, handler], combine, names + hassigned, rest, env, k, ln)

    def for_stmt(self, s, rest, env, k):
        ln = s.lineno
        if s.orelse or not isinstance(s.target, ast.Name):
            raise Unsupported("line %d: for form" % ln)
        pre, src, sty = self.ex(s.iter, env)
        if not (isinstance(sty, tuple) and sty[0] == "list"):
            raise Unsupported("line %d: loop over %r" % (ln, sty))
        x = s.target.id
        carried = [n for n in self.assigned(s.body) + [x] if n == "$st" or (n in env and env[n] != "unbound")]
        carried = list(dict.fromkeys(carried))
        types = {n: env[n] for n in carried if n != "$st"}
        if x in types:
            types[x] = join(types[x], sty[1])
        # widen the carried types until the body preserves them
        for _ in range(6):
            ends = []
            env_in = dict(env)
            env_in.update(types)
            env_in[x] = sty[1]

            def rec(e):
                ends.append(e)
                return "END"
            saved_tmp, saved_ret, saved_rets = self.tmp, self.ret_ty, list(self.returns)
            self.in_loop = getattr(self, "in_loop", 0) + 1
            self.dry += 1
            try:
                self.block(s.body, env_in, K(rec, rec))
            finally:
                self.in_loop -= 1
                self.dry -= 1
            self.tmp, self.ret_ty, self.returns = saved_tmp, saved_ret, saved_rets
            new = dict(types)
            for e in ends:
                for n in types:
                    new[n] = join(new[n], e[n] if n != x else join(e[n], types[n]))
            if new == types:
                break
            types = new
        else:
            raise Unsupported("line %d: loop types do not stabilise" % ln)
        env_in = dict(env)
        env_in.update(types)
        xin = x in types       # the loop variable exists before the loop: it is carried too
        env_body = dict(env_in)
        env_body[x] = sty[1]

        def end(e):
            vals = []
            for n in carried:
                if n == "$st":
                    vals.append("st")
                else:
                    vals.append(coerce(vname(n), e[n], types[n]))
            return "(XOk %s)" % tuple_val(vals)
        self.in_loop = getattr(self, "in_loop", 0) + 1
        try:
            if xin:
                # `for x in ..` assigns x at the start of every iteration
                inner = self.block(s.body, env_body, K(end, end))
                body_txt = "(let %s := %s in\n  %s)" % (vname(x), "LOOPVAR", inner)
                lv = self.fresh("it")
                body_txt = body_txt.replace("LOOPVAR", lv)
                # inside the body x has the element type; at the end it is coerced to the carried type
            else:
                lv = vname(x)
                body_txt = self.block(s.body, env_body, K(end, end))
        finally:
            self.in_loop -= 1
        init = []
        for n in carried:
            if n == "$st":
                init.append("st")
            else:
                init.append(coerce(vname(n), env[n], types[n]))
        env_after = dict(env_in)
        if not xin:
            env_after[x] = "unbound"
        ctys = ["store" if n == "$st" else coq_ty(types[n]) for n in carried]
        if len(carried) == 0:
            cb, cl = "(_ : unit)", ""
        elif len(carried) == 1:
            cb, cl = "(%s : %s)" % (("st" if carried[0] == "$st" else vname(carried[0])), ctys[0]), ""
        else:
            cb = "(carried : %s)" % " * ".join(ctys)
            cl = "let %s := carried in\n  " % self.carried_pat(carried)
        fun_txt = "(fun (%s : %s) %s =>\n  %s%s)" % (lv, coq_ty(sty[1]), cb, cl, body_txt)
        if self.dry == 0:
            # the loop body becomes a definition of its own, closed over the parameters and the
            # local variables it mentions
            self.loopno += 1
            lname = "%s_loop%d" % (self.coq_name, self.loopno)
            bound = set([lv] + [("st" if n == "$st" else vname(n)) for n in carried])
            free = []
            for n, ty in env.items():
                if ty in ("tree", "none", "unbound") or n in self.param_names:
                    continue
                if isinstance(ty, tuple) and ty[1] is None:
                    continue
                if vname(n) not in bound and re.search(r"\b%s\b" % re.escape(vname(n)), body_txt):
                    free.append((vname(n), coq_ty(ty)))
            if "st" not in bound and re.search(r"\bst\b", body_txt):
                free.append(("st", "store"))
            self.lifted.append((lname, free, fun_txt))
            fun_txt = "(%s %s%s)" % (lname, self.param_args, "".join(" " + f for f, _ in free))
        loop = "(py_for %s %s %s)" % (src, fun_txt, tuple_val(init))
        return self.wrap(pre, "(xbind %s (fun %s =>\n  %s))" % (loop, self.carried_pat(carried),
                                                            self.block(rest, env_after, k)))

    # ---------------------------------------------------------------- function
    def translate(self, coq_name):
        a = self.fn.args
        if a.vararg or a.kwarg or a.kwonlyargs:
            raise Unsupported("%s: argument form" % self.qual)
        names = [x.arg for x in a.args]
        defaults = [None] * (len(names) - len(a.defaults)) + list(a.defaults)
        if not names:
            raise Unsupported("%s: no tree argument" % self.qual)
        env = {names[0]: "tree"}
        params = []
        binders = []
        for n, d in list(zip(names, defaults))[1:]:
            if n not in self.ptypes:
                raise Unsupported("%s: no type declared for parameter %s" % (self.qual, n))
            ty = self.ptypes[n]
            env[n] = ty
            params.append((n, ty, d))
            if ty != "none":
                binders.append("(%s : %s)" % (vname(n), coq_ty(ty)))
        self.returns = []
        self.ret_ty = None
        self.coq_name = coq_name
        self.param_names = set(n for n, _t, _d in params)
        self.param_binders = binders
        self.param_args = " ".join([vname(n) for n, ty, _d in params if ty != "none"] + ["t"])
        body = self.block(self.fn.body, env, K(lambda e: "(XOk (st, tt)) (* falls off the end: returns None *)"))
        if self.ret_ty is None:
            self.ret_ty = "none"
        for i, (pre, t, ty) in enumerate(self.returns):
            body = body.replace("RETURN%d)" % i, "%s)" % coerce(t, ty, self.ret_ty))
            self.lifted = [(n, f, x.replace("RETURN%d)" % i, "%s)" % coerce(t, ty, self.ret_ty))) for n, f, x in self.lifted]
        wb = "(w : tr) " if self.uses_w else ""
        if "BOT" in body or any("BOT" in x for _n, _f, x in self.lifted):
            raise Unsupported("%s: a value whose type could not be inferred is used" % self.qual)
        txt = ""
        for lname, free, fun_txt in self.lifted:
            txt += "Definition %s %s%s (t : tree)%s :=\n  %s.\n\n" % (
                lname, wb, " ".join(binders), "".join(" (%s : %s)" % f for f in free), fun_txt)
        if self.uses_w:
            for lname, _free, _f in self.lifted:
                body = body.replace("(%s " % lname, "(%s w " % lname)
                txt = txt.replace("(%s " % lname, "(%s w " % lname)
        txt += "Definition %s %s%s (t : tree) (st : store) : xres (store * %s) :=\n  %s.\n" % (
            coq_name, wb, " ".join(binders), coq_ty(self.ret_ty), body)
        return txt, {"coq": coq_name + (" w" if self.uses_w else ""), "params": params, "ret": self.ret_ty,
                     "uses_w": self.uses_w}


def coerce_param(t, ty, pty, line):
    if ty == pty:
        return t
    if pty == "OZ" and ty in ("Z", "none"):
        return coerce(t, ty, "OZ")
    raise Unsupported("line %d: argument of type %r for a parameter of type %r" % (line, ty, pty))


# ----------------------------------------------------------------------------------------------
PLAN = [
    # (file, class, function, coq name, parameter types)
    ("datamodel/treemodel/_tree.py", "Tree", "calc_node_ages", "g_calc_node_ages",
     {"ultrametricity_precision": "prec", "is_force_max_age": "B", "is_force_min_age": "B",
      "set_node_age_fn": "none", "is_return_internal_node_ages_only": "B"}),
    ("datamodel/treemodel/_tree.py", "Tree", "calc_node_root_distances", "g_calc_node_root_distances",
     {"return_leaf_distances_only": "B"}),
    ("datamodel/treemodel/_tree.py", "Tree", "num_lineages_at", "g_num_lineages_at", {"distance_from_root": "Z"}),
    ("datamodel/treemodel/_tree.py", "Tree", "set_edge_lengths_from_node_ages", "g_set_edge_lengths_from_node_ages",
     {"minimum_edge_length": "OZ", "error_on_negative_edge_lengths": "B"}),
    ("calculate/treemeasure.py", None, "B1", "g_B1", {}),
    ("calculate/treemeasure.py", None, "colless_tree_imbalance", "g_colless_tree_imbalance", {"normalize": "norm"}),
    ("calculate/treemeasure.py", None, "sackin_index", "g_sackin_index", {"normalize": "norm"}),
    ("calculate/treemeasure.py", None, "N_bar", "g_N_bar", {}),
    ("calculate/treemeasure.py", None, "treeness", "g_treeness", {}),
    ("calculate/treemeasure.py", None, "pybus_harvey_gamma", "g_pybus_harvey_gamma", {"prec": "prec"}),
]


def find_def(tree, name, cls=None):
    nodes = tree.body
    if cls:
        for n in nodes:
            if isinstance(n, ast.ClassDef) and n.name == cls:
                nodes = n.body
                break
        else:
            raise Unsupported("class %s not found" % cls)
    for n in nodes:
        if isinstance(n, ast.FunctionDef) and n.name == name:
            return n
    raise Unsupported("function %s not found" % name)


def generate(repo, only=None):
    src = os.path.join(repo, "src", "dendropy")
    out = ["(* GENERATED by py/dv/gen_ages.py from datamodel/treemodel/_tree.py and calculate/treemeasure.py",
           "   -- do not edit.  Meaning of the primitives: coq/Model/C17Prims.v *)",
           "From Coq Require Import ZArith QArith List Bool.",
           "From DV Require Import Model.PyPrims Model.Tree Model.C17Model Model.C17Prims.",
           "Import ListNotations.",
           "Open Scope Z_scope.", ""]
    trees = {}
    known = {}
    for path, cls, name, coq, ptypes in PLAN:
        if only and name not in only:
            continue
        if path not in trees:
            with open(os.path.join(src, path)) as f:
                trees[path] = ast.parse(f.read())
        fn = find_def(trees[path], name, cls)
        tr = Fn(fn, (cls + "." if cls else "") + name, ptypes, known, cls is not None)
        txt, rec = tr.translate(coq)
        known[name] = rec
        out.append("(* %s%s, %s line %d *)" % ((cls + ".") if cls else "", name, path, fn.lineno))
        out.append(txt)
    return "\n".join(out)


if __name__ == "__main__":
    import sys
    print(generate(sys.argv[1] if len(sys.argv) > 1 else "/repo", only=set(sys.argv[2:]) or None))
