"""C02, NeXML at element level: correspondence of Model/C02Nexml.v with NexmlWriter / NexmlReader.
The XML text layer is trusted: the text the library wrote is parsed with ElementTree into element records
(writer side), and the reader's result on that text is compared with the model reader on those records."""
import xml.etree.ElementTree as ET

from dv import core
from dv import c02

HEADER = ("From DV Require Import Model.PyPrims Model.Tokenizer Model.Newick Model.C02Model Model.C02Nexml Model.C02NexmlModel.\n"
          "From Coq Require Import ZArith List. Import ListNotations.")
NS = "{http://www.nexml.org/2009}"


def gen_case(rng, maxleaves):
    case = c02.gen_roundtrip_case(rng, maxleaves)
    case["kind"] = "nexml"
    case["wkw"] = {}
    # NeXML keeps node labels on every node; add some leaf labels and internal taxa+labels together
    for _r, sp in case["trees"]:
        for nd in c02.spec_nodes(sp):
            if rng.random() < 0.15:
                nd["label"] = c02.gen_label(rng)
    return case


def did(s):
    if not (s.startswith("d") and s[1:].isdigit()):
        raise RuntimeError("unexpected NeXML id %r" % s)
    return int(s[1:])


def elements(text):
    """NeXML text -> element records (ids as ints)"""
    root = ET.fromstring(text)
    otus = root.findall(NS + "otus")
    trees = root.findall(NS + "trees")
    if len(otus) != 1 or len(trees) != 1:
        raise RuntimeError("expected one otus and one trees element")
    o = otus[0]
    doc = {"otus_id": did(o.get("id")), "otus": [[did(x.get("id")), x.get("label")] for x in o.findall(NS + "otu")],
           "trees_id": did(trees[0].get("id")), "trees_otus": did(trees[0].get("otus")), "trees": []}
    for t in trees[0].findall(NS + "tree"):
        nodes = [[did(n.get("id")), n.get("label"), None if n.get("otu") is None else did(n.get("otu")),
                  n.get("root") is not None and n.get("root").lower() in ("1", "t", "true")] for n in t.findall(NS + "node")]
        res = t.findall(NS + "rootedge")

        def edge(e):
            return [did(e.get("id")), None if e.get("source") is None else did(e.get("source")),
                    None if e.get("target") is None else did(e.get("target")), e.get("length")]
        doc["trees"].append({"id": did(t.get("id")), "nodes": nodes, "rootedge": edge(res[0]) if res else None,
                             "edges": [edge(e) for e in t.findall(NS + "edge")]})
    return doc


def observe(case):
    import dendropy
    tl = c02.build_treelist(case)
    text = tl.as_string("nexml")
    doc = elements(text)
    floats = {}
    for t in doc["trees"]:
        for e in ([t["rootedge"]] if t["rootedge"] else []) + t["edges"]:
            if e[3] is not None:
                try:
                    floats[e[3]] = repr(float(e[3]))
                except ValueError:
                    floats[e[3]] = None
    try:
        with core.alarm(10):
            tl2 = dendropy.TreeList.get(data=text, schema="nexml")
        ns = list(tl2.taxon_namespace)
        idx = {id(t): i for i, t in enumerate(ns)}

        def f(n):
            return [None if n.taxon is None else idx.get(id(n.taxon), -1), n.label,
                    None if n.edge.length is None else repr(n.edge.length), [], [f(c) for c in n.child_nodes()]]
        rd = {"ok": [[t.label for t in ns], [[t.is_rooted, [], f(t.seed_node)] for t in tl2]]}
    except Exception as e:
        rd = {"err": core.exc_enum(e), "msg": "%s: %s" % (type(e).__name__, str(e)[:120])}
    return {"doc": doc, "floats": sorted(floats.items()), "read": rd, "text": text}


def oracle(case, obs):
    """NeXML pipeline against the property: all node labels are kept, undefined rooting may become unrooted"""
    rd = obs["read"]
    if "err" in rd:
        return ("nexml round trip raised %s (labels %s)" % (rd["msg"], case["ns"][:6]), c02.classify(case, "nexml"))
    labels, trees = rd["ok"]
    if labels != case["ns"]:
        return ("nexml round trip: namespace %s, expected %s" % (labels, case["ns"]), c02.classify(case, "nexml"))
    if len(trees) != len(case["trees"]):
        return ("nexml round trip returned %d trees for %d" % (len(trees), len(case["trees"])), c02.classify(case, "nexml"))

    def plain(n, keep_leaf_labels):
        tx, lb, ln, _cm, kids = n
        return {"taxon": None if tx is None else labels[tx], "label": lb if (kids or keep_leaf_labels) else None,
                "len": ln, "kids": [plain(k, keep_leaf_labels) for k in kids]}

    def want(sp):
        return {"taxon": sp["taxon"], "label": (sp["label"] or None) if sp["kids"] else None,
                "len": None if sp["len"] is None else repr(float(sp["len"])), "kids": [want(k) for k in sp["kids"]]}
    for k, ((rooted, sp), (r2, _cm, t2)) in enumerate(zip(case["trees"], trees)):
        if not (r2 == rooted or (rooted is None and r2 is False)):
            return ("nexml round trip: tree %d rooting %r came back as %r" % (k, rooted, r2), "rooting-nexml")
        got = plain(t2, False)
        w = want(sp)
        if got != w and not (sp["len"] is None and dict(got, len=None) == w and got["len"] == repr(0.0)):
            return ("nexml round trip: tree %d differs: wrote %s, read %s" % (k, str(w)[:300], str(got)[:300]), c02.classify(case, "nexml", got, w))
    return None


def cnat(i):
    return "%d%%nat" % i


def c_xdoc(d):
    def node(n):
        return "(mkXNode %s %s %s %s)" % (cnat(n[0]), c02.copt(n[1], c02.zs), c02.copt(n[2], cnat), c02.cb(n[3]))

    def edge(e):
        return "(mkXEdge _ %s %s %s %s)" % (cnat(e[0]), c02.copt(e[1], cnat), c02.copt(e[2], cnat), c02.copt(e[3], c02.zs))
    trees = ";".join("(mkXTree _ %s [%s] %s [%s])" % (cnat(t["id"]), ";".join(node(n) for n in t["nodes"]),
                                                     c02.copt(t["rootedge"], edge), ";".join(edge(e) for e in t["edges"]))
                     for t in d["trees"])
    otus = ";".join("(%s,%s)" % (cnat(i), c02.copt(l, c02.zs)) for i, l in d["otus"])
    return "(mkXDoc _ %s [%s] %s %s [%s])" % (cnat(d["otus_id"]), otus, cnat(d["trees_id"]), cnat(d["trees_otus"]), trees)


def c_xread(rd):
    if "err" in rd:
        return "(XErr %s)" % rd["err"]
    labels, trees = rd["ok"]
    return "(XOk ([%s], [%s]))" % (";".join(c02.copt(l, c02.zs) for l in labels),
                                   ";".join("(mkPR %s [] %s)" % (c02.copt(r, c02.cb), c02.c_ptree(t)) for r, _cm, t in trees))


def to_coq(case, obs):
    floats = "[" + ";".join("(%s,%s)" % (c02.zs(k), c02.copt(v, c02.zs)) for k, v in obs["floats"]) + "]"
    ns = "[" + ";".join(c02.zs(l) for l in case["ns"]) + "]"

    def ntree(sp):
        # lengths as the text str(length) the writer puts into the attribute
        return "(Nd %s %s %s [%s])" % (c02.copt(sp["taxon"], c02.zs), c02.copt(sp["label"], c02.zs),
                                      c02.copt(sp["len"], lambda x: c02.zs(str(x))), ";".join(ntree(k) for k in sp["kids"]))
    trees = "[" + ";".join("(%s,%s)" % (c02.copt(r, c02.cb), ntree(sp)) for r, sp in case["trees"]) + "]"
    doc = c_xdoc(obs["doc"])
    return "(mkXCase %s %s %s (Some %s) %s %s)" % (floats, ns, trees, doc, doc, c_xread(obs["read"]))


def nontrivial(case, obs):
    return sum(len(c02.spec_nodes(sp)) for _r, sp in case["trees"]) >= 3


def sample_fn(case, obs):
    return {"ns": case["ns"][:6], "text": obs["text"][:400]}
