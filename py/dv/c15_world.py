"""C15 - several trees in one process, reached by histories of edits through the public API.

The property quantifies over all trees; a tree is whatever the public API lets a caller build.  This
module adds the routes on which two trees (or a tree and a list the caller owns) could end up SHARING
mutable state, so that a later operation on one object silently changes the traversals of another:

  kids       kids = node.child_nodes()  (documented: a shallow copy the caller owns), the caller edits that
             list (append / insert a new Node, pop, reverse, clear) and either assigns it back with
             node.set_child_nodes(kids) or just keeps it
  tree_from_seed   Tree(seed_node=nd) with nd still attached to another tree (documented: "spliced out of
             [its] current context into this Tree")
  assign_seed      tree.seed_node = nd with nd attached (to another tree or to the same tree)
  reparent   nd.parent_node = other   (the managed property: leaves the old parent's child list)
  new_child / remove_child / new_tree   ordinary edits and trees created later in the same process
  refused    (wave 8) a call the API must REFUSE with a documented error, caught by the caller, who carries on:
             p.remove_child(n) with n not a child of p (a child of another node / p itself / p's parent / a seed /
             a node of another tree) -> ValueError; n.add_child(n), n.add_child(n's parent) -> AssertionError.
             Clause: a refused operation changes nothing - every traversal of every live tree afterwards is what it
             was, and no pointer (parent, child list, edge head / tail) of any node the harness ever created moved

After the initial build and after EVERY step EVERY live tree is traversed again with every iterator kind
of Tree and Node (random flags / filters / start nodes), each run under a step bound (a traversal that
does not end is recorded as "Hang").  The oracle knows only the harness's own spec world (a list of
nested dicts): each step has an obvious meaning there (the subtree moves / the child list is replaced),
and the defining order of every iterator is the naive recursive definition of dv.c15 on the spec tree.
Further observations: the pointer structure of every live tree (seed without parent, child lists and
parent pointers agree, no node reachable twice or from two trees), the identities of the list objects
involved (internal child lists, lists returned by child_nodes(), lists the caller still holds) and the
contents of the lists the caller holds.
"""
import copy
import json
import random
import warnings

from dv import core, trees
from dv.core import cz, clist, copt, cbool

MAX_TREES = 4
PER_TREE_COQ = 8


def B():
    from dv import c15
    return c15


# ---------------------------------------------------------------------------------------------
# spec world: {"trees": [spec tree, ...], "held": [[ids], ...]}
# ---------------------------------------------------------------------------------------------
def mk(i, kids=None):
    return {"id": i, "taxon": None, "label": None, "len": None, "kids": kids or []}


def age_of(i):
    return (i * 7 + 3) % 5


def find(world, i):
    """(tree index, node, parent or None) of the node with id i in a live tree, or None"""
    for ti, t in enumerate(world["trees"]):
        stack = [(t, None)]
        while stack:
            n, p = stack.pop()
            if n["id"] == i:
                return ti, n, p
            for k in n["kids"]:
                stack.append((k, n))
    return None


def subtree_ids(n):
    return [x["id"] for x in trees.preorder(n)]


def spec_apply(world, step):
    """the meaning of one step on the spec world (in place)"""
    op = step[0]
    if op == "kids":
        _op, nid, edits, put_back = step
        _ti, n, _p = find(world, nid)
        lst = list(n["kids"])
        for e in edits:
            if e[0] == "append":
                lst.append(mk(e[1]))
            elif e[0] == "insert":
                lst.insert(e[1], mk(e[2]))
            elif e[0] == "pop":
                lst.pop(e[1])
            elif e[0] == "reverse":
                lst.reverse()
            elif e[0] == "clear":
                del lst[:]
        if put_back:
            n["kids"] = lst
        else:
            world["held"].append([x["id"] for x in lst])
    elif op == "tree_from_seed":
        _ti, n, p = find(world, step[1])
        p["kids"].remove(n)
        world["trees"].append(n)
    elif op == "assign_seed":
        _op, dst, nid = step
        _ti, n, p = find(world, nid)
        p["kids"].remove(n)
        world["trees"][dst] = n
    elif op == "reparent":
        _op, nid, pid = step
        _ti, n, p = find(world, nid)
        p["kids"].remove(n)
        _tj, q, _ = find(world, pid)
        q["kids"].append(n)
    elif op == "new_child":
        _ti, n, _p = find(world, step[1])
        n["kids"].append(mk(step[2]))
    elif op == "remove_child":
        _ti, n, p = find(world, step[1])
        p["kids"].remove(n)
    elif op == "new_tree":
        world["trees"].append(copy.deepcopy(step[1]))
    elif op == "refused":
        pass                      # a refused operation changes nothing
    else:
        raise RuntimeError("unknown step " + op)


REFUSED_ERR = {"remove_child": "ValueErr", "add_child": "AssertErr"}


def step_class(step):
    if step[0] == "refused":
        return "refused-" + step[1]
    return {"kids": "child-list-edit", "tree_from_seed": "Tree(seed_node=attached)", "assign_seed": "seed_node=attached",
            "reparent": "parent_node=", "new_child": "new_child", "remove_child": "remove_child",
            "new_tree": "new-tree"}[step[0]]


# ---------------------------------------------------------------------------------------------
# generator (works on the spec world only)
# ---------------------------------------------------------------------------------------------
def small_spec(rng, next_id, nleaves=None):
    t = trees.gen_tree(rng, nleaves or rng.randint(1, 6), shape=rng.choice(["binary", "poly", "mixed", "caterpillar", "star"]),
                       lengths="none")
    if rng.random() < 0.25:
        t = B().add_unifurcations(rng, t, 0.3)
    for i, nd in enumerate(trees.preorder(t)):
        nd["id"] = next_id + i
        nd["taxon"] = None
    return t


def gen_steps(rng, world, nsteps, next_id, weights=None):
    """random steps; applies them to `world` (a scratch copy) while generating"""
    w = weights or {"kids": 5, "tree_from_seed": 3, "assign_seed": 2, "reparent": 1, "new_child": 2, "remove_child": 1,
                    "new_tree": 1, "refused": 3}
    steps = []
    ops = [k for k in w for _ in range(w[k])]
    tries = 0
    while len(steps) < nsteps and tries < 50 * nsteps:
        tries += 1
        op = rng.choice(ops)
        allnodes = [(ti, n, p) for ti, t in enumerate(world["trees"])
                    for n, p in _with_parents(t)]
        nonseed = [(ti, n, p) for ti, n, p in allnodes if p is not None]
        step = None
        if op == "kids":
            r = rng.random()
            tips = [x for x in allnodes if not x[1]["kids"]]
            ti, n, p = rng.choice(tips) if (r < 0.6 and tips) else rng.choice(allnodes)
            lst_len = len(n["kids"])
            edits = []
            for _ in range(rng.choice([1, 1, 1, 2, 3])):
                e = rng.random()
                if e < 0.55 or lst_len == 0:
                    edits.append(["append", next_id]); next_id += 1; lst_len += 1
                elif e < 0.7:
                    edits.append(["insert", rng.randint(0, lst_len), next_id]); next_id += 1; lst_len += 1
                elif e < 0.85:
                    edits.append(["pop", rng.randrange(lst_len)]); lst_len -= 1
                elif e < 0.95:
                    edits.append(["reverse"])
                else:
                    edits.append(["clear"]); lst_len = 0
            step = ["kids", n["id"], edits, rng.random() < 0.7]
        elif op == "tree_from_seed":
            if nonseed and len(world["trees"]) < MAX_TREES:
                inner = [x for x in nonseed if x[1]["kids"]]
                ti, n, p = rng.choice(inner) if (inner and rng.random() < 0.75) else rng.choice(nonseed)
                step = ["tree_from_seed", n["id"]]
        elif op == "assign_seed":
            if nonseed:
                inner = [x for x in nonseed if x[1]["kids"]]
                ti, n, p = rng.choice(inner) if (inner and rng.random() < 0.75) else rng.choice(nonseed)
                others = [j for j in range(len(world["trees"])) if j != ti]
                dst = rng.choice(others) if (others and rng.random() < 0.7) else ti
                step = ["assign_seed", dst, n["id"]]
        elif op == "reparent":
            if nonseed:
                ti, n, p = rng.choice(nonseed)
                inside = set(subtree_ids(n))
                cands = [x for x in allnodes if x[1]["id"] not in inside]
                if cands:
                    step = ["reparent", n["id"], rng.choice(cands)[1]["id"]]
        elif op == "new_child":
            ti, n, p = rng.choice(allnodes)
            step = ["new_child", n["id"], next_id]; next_id += 1
        elif op == "remove_child":
            if nonseed:
                step = ["remove_child", rng.choice(nonseed)[1]["id"]]
        elif op == "refused":
            r = rng.random()
            if r < 0.8:
                sub = rng.choice(["other", "other", "other", "other", "self", "parent", "seed", "foreign"])
                if sub in ("other", "foreign") and nonseed:
                    # the argument: an internal node or the LAST child of its parent more often than not (those are the
                    # nodes whose parent pointer the callback walk and the internal-node iterators consult)
                    pick = [x for x in nonseed if x[1]["kids"] or x[2]["kids"][-1] is x[1]]
                    ti, n, p = rng.choice(pick) if (pick and rng.random() < 0.7) else rng.choice(nonseed)
                    recv = [x for x in allnodes if x[1] is not p and x[1] is not n and (x[0] == ti) == (sub == "other")]
                    if recv:
                        step = ["refused", "remove_child", rng.choice(recv)[1]["id"], n["id"]]
                elif sub == "self":
                    n = rng.choice(allnodes)[1]
                    step = ["refused", "remove_child", n["id"], n["id"]]
                elif sub == "parent" and nonseed:
                    ti, n, p = rng.choice(nonseed)
                    step = ["refused", "remove_child", n["id"], p["id"]]
                elif sub == "seed":
                    sd = rng.choice(world["trees"])
                    step = ["refused", "remove_child", rng.choice(allnodes)[1]["id"], sd["id"]]
            elif r < 0.9 or not nonseed:
                n = rng.choice(allnodes)[1]
                step = ["refused", "add_child", n["id"], n["id"]]
            else:
                ti, n, p = rng.choice(nonseed)
                step = ["refused", "add_child", n["id"], p["id"]]
        elif op == "new_tree":
            if len(world["trees"]) < MAX_TREES:
                t = small_spec(rng, next_id)
                next_id += B().size(t)
                step = ["new_tree", t]
        if step is None:
            continue
        spec_apply(world, step)
        if sum(B().size(t) for t in world["trees"]) > 60:
            break
        steps.append(step)
    return steps, next_id


def _with_parents(t):
    out = []
    stack = [(t, None)]
    while stack:
        n, p = stack.pop()
        out.append((n, p))
        for k in reversed(n["kids"]):
            stack.append((k, n))
    return out


def gen_world_case(rng, tier="quick"):
    next_id = 0
    init = []
    for _ in range(rng.choice([1, 2, 2, 3])):
        t = small_spec(rng, next_id, nleaves=rng.randint(1, 7 if tier == "quick" else 10))
        next_id += B().size(t)
        init.append(t)
    world = {"trees": copy.deepcopy(init), "held": []}
    steps, _ = gen_steps(rng, world, rng.randint(2, 5 if tier == "quick" else 8), next_id)
    return {"world": init, "steps": steps, "pseed": rng.randrange(1 << 30)}


def fixed_world_cases():
    """the smallest histories of each route"""
    cherry = lambda a: mk(a, [mk(a + 1), mk(a + 2)])
    t9 = lambda a: mk(a, [mk(a + 1, [mk(a + 2), mk(a + 3)]), mk(a + 4, [mk(a + 5), mk(a + 6, [mk(a + 7), mk(a + 8)])]), mk(a + 9)])
    out = []
    # the "take the children, append one more, assign them back" idiom on a tip, next to an unrelated tree
    out.append({"world": [t9(0), cherry(10)], "steps": [["kids", 12, [["append", 13]], True], ["new_tree", t9(20)]], "pseed": 1})
    # the copy is edited and kept, never assigned back
    out.append({"world": [t9(0), cherry(10)], "steps": [["kids", 11, [["append", 13]], False], ["kids", 9, [["append", 14]], False]], "pseed": 2})
    # editing the copy of an internal node's children
    out.append({"world": [t9(0)], "steps": [["kids", 4, [["reverse"], ["append", 10]], True], ["kids", 0, [["pop", 0]], False]], "pseed": 3})
    # an attached internal node becomes the seed of a new tree; both trees are edited afterwards
    out.append({"world": [t9(0)], "steps": [["tree_from_seed", 4], ["remove_child", 6], ["new_child", 4, 10], ["new_child", 0, 11]], "pseed": 4})
    out.append({"world": [t9(0), cherry(10)], "steps": [["assign_seed", 1, 4], ["new_child", 6, 13]], "pseed": 5})
    out.append({"world": [t9(0)], "steps": [["assign_seed", 0, 6]], "pseed": 6})
    out.append({"world": [t9(0), cherry(10)], "steps": [["tree_from_seed", 1], ["reparent", 6, 10], ["tree_from_seed", 6]], "pseed": 7})
    out.append({"world": [mk(0)], "steps": [["kids", 0, [["append", 1]], True], ["new_tree", cherry(2)]], "pseed": 8})
    return out


# ---------------------------------------------------------------------------------------------
# probes: which traversals are run on a live tree after a step (a function of the spec tree)
# ---------------------------------------------------------------------------------------------
def probes_for(spec_tree, pseed, step_ix, tree_ix, max_id, per_tree=None):
    b = B()
    rng = random.Random(pseed * 7919 + step_ix * 101 + tree_ix)
    paths = b.all_paths(spec_tree)
    sub = rng.choice(paths[1:]) if len(paths) > 1 else []
    ids = subtree_ids(spec_tree)
    ages = [age_of(i) for i in range(max_id + 1)]
    out = []
    for k in b.KINDS:
        name, level, meth, flags, takes_filter, elem = k
        start = [] if (level == "T" or rng.random() < 0.5) else sub
        c = {"tree": spec_tree, "kind": name, "start": list(start), "flags": [rng.random() < 0.5 for _ in flags],
             "filter": None, "truth": rng.randrange(len(b.TRUTHY)), "ages": ages, "calc_ages": False}
        if name in ("KN_apply", "KT_apply") and rng.random() < 0.6:
            c["flags"] = [True, True, True]
        if takes_filter and rng.random() < 0.35:
            c["filter"] = sorted(i for i in ids if rng.random() < 0.6)
        out.append(c)
    if per_tree is not None and len(out) > per_tree:
        out = rng.sample(out, per_tree)
    return out


# ---------------------------------------------------------------------------------------------
# implementation side
# ---------------------------------------------------------------------------------------------
class Impl:
    """the dendropy objects of a world"""
    def __init__(self):
        self.trees = []
        self.nodes = {}       # id -> Node (every node the harness ever created; keeps them alive)
        self.held = []        # lists obtained from child_nodes() that the caller still holds

    def reg(self, nd, i):
        nd._dv_id = i
        nd.age = age_of(i)
        self.nodes[i] = nd
        return nd

    def build(self, spec):
        tree, by_id = trees.build_dendropy(spec, taxon_objs={})
        for i, nd in by_id.items():
            self.reg(nd, i)
        return tree

    def apply(self, step):
        import dendropy
        op = step[0]
        if op == "kids":
            _op, nid, edits, put_back = step
            kids = self.nodes[nid].child_nodes()
            for e in edits:
                if e[0] == "append":
                    kids.append(self.reg(dendropy.Node(), e[1]))
                elif e[0] == "insert":
                    kids.insert(e[1], self.reg(dendropy.Node(), e[2]))
                elif e[0] == "pop":
                    kids.pop(e[1])
                elif e[0] == "reverse":
                    kids.reverse()
                elif e[0] == "clear":
                    del kids[:]
            if put_back:
                self.nodes[nid].set_child_nodes(kids)
                self.kept = getattr(self, "kept", []) + [kids]     # keep the object alive (identities)
            else:
                self.held.append(kids)
        elif op == "tree_from_seed":
            self.trees.append(dendropy.Tree(seed_node=self.nodes[step[1]]))
        elif op == "assign_seed":
            self.trees[step[1]].seed_node = self.nodes[step[2]]
        elif op == "reparent":
            self.nodes[step[1]].parent_node = self.nodes[step[2]]
        elif op == "new_child":
            self.reg(self.nodes[step[1]].new_child(), step[2])
        elif op == "remove_child":
            nd = self.nodes[step[1]]
            nd.parent_node.remove_child(nd)
        elif op == "new_tree":
            self.trees.append(self.build(step[1]))
        elif op == "refused":
            a, b = self.nodes[step[2]], self.nodes[step[3]]
            if step[1] == "remove_child":
                a.remove_child(b)
            else:
                a.add_child(b)

    def ptr_dump(self):
        """the whole pointer structure: the seed of every live tree and, for every node the harness ever created (in a
        live tree or not), parent pointer, child list, edge head and tail"""
        nm = lambda x: None if x is None else getattr(x, "_dv_id", "?")
        out = {"tree %d seed" % ti: nm(t._seed_node) for ti, t in enumerate(self.trees)}
        for i, nd in self.nodes.items():
            e = nd._edge
            out["node %d" % i] = [nm(nd._parent_node), [nm(c) for c in nd._child_nodes[:500]],
                                  nm(None if e is None else e._head_node), nm(None if e is None else e.tail_node)]
        return out

    def pointer_problems(self, bound):
        """well-formedness of the pointer structure of all live trees, read off the objects"""
        probs = []
        owner = {}
        for ti, tree in enumerate(self.trees):
            seed = tree.seed_node
            if seed._parent_node is not None:
                probs.append("tree %d: the seed node %s has a parent" % (ti, _nid(seed)))
            stack = [seed]
            count = 0
            while stack:
                nd = stack.pop()
                count += 1
                if count > bound:
                    probs.append("tree %d: more than %d nodes reachable (cycle?)" % (ti, bound))
                    break
                if id(nd) in owner:
                    probs.append("node %s is reachable twice (tree %d and tree %d)" % (_nid(nd), owner[id(nd)], ti))
                    continue
                owner[id(nd)] = ti
                for ch in nd._child_nodes:
                    if ch._parent_node is not nd:
                        probs.append("tree %d: node %s is in the child list of %s but its parent is %s"
                                     % (ti, _nid(ch), _nid(nd), _nid(ch._parent_node)))
                    stack.append(ch)
        return sorted(set(probs))[:6]

    def aliasing(self, bound):
        """groups of list objects that are one and the same object: internal child lists of the reachable nodes,
        what child_nodes() returns for them (two calls each), and the lists the caller holds"""
        objs = []      # (name, object)  -- all kept alive until the end of this function
        seen = set()
        for ti, tree in enumerate(self.trees):
            stack = [tree.seed_node]
            while stack and len(seen) < bound:
                nd = stack.pop()
                if id(nd) in seen:
                    continue
                seen.add(id(nd))
                objs.append(("kids-of-%s" % _nid(nd), nd._child_nodes))
                objs.append(("child_nodes()-of-%s" % _nid(nd), nd.child_nodes()))
                objs.append(("child_nodes()-again-of-%s" % _nid(nd), nd.child_nodes()))
                stack.extend(nd._child_nodes)
        for j, h in enumerate(self.held):
            objs.append(("held-%d" % j, h))
        groups = {}
        for name, o in objs:
            groups.setdefault(id(o), []).append(name)
        return sorted(sorted(g) for g in groups.values() if len(g) > 1)[:6]


def _nid(nd):
    return "None" if nd is None else str(getattr(nd, "_dv_id", "?"))


def observe_world(case, per_tree=None, early=False):
    """early=True: stop after the first step at which the oracle reports a violation (a changed library may make
    every later traversal in this process expensive)"""
    import dendropy
    from dendropy.utility import deprecate
    if deprecate.DEPRECATION_WARNING_FILTER != "ignore":
        deprecate.configure_deprecation_warning_behavior("ignore")
    b = B()
    spec = {"trees": copy.deepcopy(case["world"]), "held": []}
    impl = Impl()
    obs = {"steps": []}
    with warnings.catch_warnings():
        warnings.simplefilter("ignore")
        for t in spec["trees"]:
            impl.trees.append(impl.build(t))
        for si in range(len(case["steps"]) + 1):
            err = None
            ptr_diff = None
            if si > 0:
                step = case["steps"][si - 1]
                p0 = impl.ptr_dump() if step[0] == "refused" else None
                try:
                    with core.alarm(5):
                        impl.apply(step)
                except Exception as e:
                    err = core.exc_enum(e)
                if p0 is not None:
                    p1 = impl.ptr_dump()
                    fields = ("_parent_node", "_child_nodes", "edge.head_node", "edge.tail_node")
                    ptr_diff = []
                    for k in sorted(set(p0) | set(p1), key=str):
                        if p0.get(k) != p1.get(k):
                            if k.startswith("tree") or k not in p0 or k not in p1:
                                ptr_diff.append("%s: %s -> %s" % (k, p0.get(k), p1.get(k)))
                            else:
                                ptr_diff.extend("%s %s: %s -> %s" % (k, f, u, v)
                                                for f, u, v in zip(fields, p0[k], p1[k]) if u != v)
                spec_apply(spec, step)
            max_id = case_max_id(case)
            total = len(impl.nodes)
            rec = {"err": err, "trees": [], "pointers": impl.pointer_problems(4 * total + 10),
                   "alias": impl.aliasing(4 * total + 10),
                   "held": [[getattr(x, "_dv_id", -1) for x in h[:200]] for h in impl.held]}
            if ptr_diff is not None:
                rec["ptr_diff"] = ptr_diff[:8]
            for ti, st in enumerate(spec["trees"]):
                if ti >= len(impl.trees):
                    rec["trees"].append(None)
                    continue
                tree = impl.trees[ti]
                runs = []
                for pc in probes_for(st, case["pseed"], si, ti, max_id, per_tree):
                    # the start node is named by its id: the spec path is looked up in the spec tree
                    sid = b.node_at(st, pc["start"])["id"]
                    out, e = b.run_kind(tree, impl.nodes[sid], pc, 12 * total + 40, alarm_s=5)
                    runs.append([out, e])
                rec["trees"].append(runs)
            obs["steps"].append(rec)
            if early and oracle_world(case, obs, per_tree, only_last=True):
                break
    return obs


def isolated(fn, timeout_s=60):
    """run fn() in a forked child and return its JSON-able result (state that a history leaves behind in the library's
    module globals cannot reach the other cases; address space of the child limited; killed after timeout_s).
    Returns ("ok", result) | ("crash", text) | ("killed", text)."""
    import os
    import select
    import signal
    r, w = os.pipe()
    pid = os.fork()
    if pid == 0:
        code = 0
        try:
            os.close(r)
            try:
                import resource
                with open("/proc/self/status") as f:
                    vm = [int(line.split()[1]) * 1024 for line in f if line.startswith("VmSize:")][0]
                hard = resource.getrlimit(resource.RLIMIT_AS)[1]
                lim = vm + (3 << 29)
                if hard != resource.RLIM_INFINITY:
                    lim = min(lim, hard)
                resource.setrlimit(resource.RLIMIT_AS, (lim, lim))
            except Exception:       # noqa
                pass
            try:
                msg = {"ok": fn()}
            except BaseException as e:      # noqa
                msg = {"crash": ("%s: %s" % (type(e).__name__, e))[:2000]}
            with os.fdopen(w, "w") as f:
                f.write(json.dumps(msg))
        except BaseException:               # noqa
            code = 3
        os._exit(code)
    os.close(w)
    chunks = []
    deadline = __import__("time").time() + timeout_s
    killed = False
    with os.fdopen(r, "rb") as f:
        while True:
            left = deadline - __import__("time").time()
            if left <= 0:
                os.kill(pid, signal.SIGKILL)
                killed = True
                break
            ready, _, _ = select.select([f], [], [], min(left, 5))
            if ready:
                b = os.read(f.fileno(), 1 << 16)
                if not b:
                    break
                chunks.append(b)
                if sum(len(c) for c in chunks) > (64 << 20):
                    os.kill(pid, signal.SIGKILL)
                    killed = True
                    break
    _pid, status = os.waitpid(pid, 0)
    data = b"".join(chunks).decode("utf-8", "replace")
    if killed or not data:
        return "killed", "status %d, time limit %ds" % (status, timeout_s)
    try:
        msg = json.loads(data)
    except ValueError:
        return "killed", "truncated answer"
    if "crash" in msg:
        return "crash", msg["crash"]
    return "ok", msg["ok"]


def check_isolated(case, timeout_s=60):
    """observe + oracle in a forked child.  Returns (verdict or None, number of iterator runs)."""
    def work():
        obs = observe_world(case, early=True)
        v = oracle_world(case, obs)
        runs = sum(len(x) for rec in obs["steps"] for x in rec["trees"] if x)
        return {"v": [v[0][:4000], v[1]] if v else None, "runs": runs}
    how, res = isolated(work, timeout_s)
    if how == "killed":
        return ("a history could not be completed: the process running it was killed (%s): %s"
                % (res, describe(case, len(case["steps"]))), "history-did-not-finish"), 0
    if how == "crash":
        return ("harness could not observe a history: %s (%s)" % (res, describe(case, len(case["steps"]))),
                "observe-failed"), 0
    return (tuple(res["v"]) if res["v"] else None), res["runs"]


def observe_world_coq(case):
    """observation for the object-level correspondence, also taken in a child process"""
    how, res = isolated(lambda: observe_world(case, per_tree=PER_TREE_COQ), 120)
    if how != "ok":
        raise RuntimeError("history not observed (%s: %s)" % (how, res))
    return res


# ---------------------------------------------------------------------------------------------
# oracle
# ---------------------------------------------------------------------------------------------
def describe(case, upto):
    b = B()
    init = "; ".join(trees.newick(b.label_ids(t), with_len=False) for t in case["world"])
    def one(s):
        if s[0] == "kids":
            ed = ", ".join("%s(%s)" % (e[0], ",".join(str(x) for x in e[1:])) for e in s[2])
            return "kids = node%d.child_nodes(); %s%s" % (s[1], ed, ("; node%d.set_child_nodes(kids)" % s[1]) if s[3] else " (kept by the caller)")
        if s[0] == "tree_from_seed":
            return "Tree(seed_node=node%d)" % s[1]
        if s[0] == "assign_seed":
            return "tree%d.seed_node = node%d" % (s[1], s[2])
        if s[0] == "reparent":
            return "node%d.parent_node = node%d" % (s[1], s[2])
        if s[0] == "new_child":
            return "node%d.new_child() -> node%d" % (s[1], s[2])
        if s[0] == "remove_child":
            return "remove_child(node%d)" % s[1]
        if s[0] == "refused":
            return "try: node%d.%s(node%d) except %s: pass" % (s[2], s[1], s[3], {"ValueErr": "ValueError", "AssertErr": "AssertionError"}[REFUSED_ERR[s[1]]])
        return "new tree %s" % trees.newick(b.label_ids(s[1]), with_len=False)
    return "trees %s; then %s" % (init, " | ".join(one(s) for s in case["steps"][:upto]) or "(nothing)")


def oracle_world(case, obs, per_tree=None, only_last=False):
    b = B()
    spec = {"trees": copy.deepcopy(case["world"]), "held": []}
    for si, rec in enumerate(obs["steps"]):
        cls = "initial" if si == 0 else step_class(case["steps"][si - 1])
        if si > 0:
            spec_apply(spec, case["steps"][si - 1])
        if only_last and si < len(obs["steps"]) - 1:
            continue
        where = "after [%s]" % describe(case, si)
        refused = si > 0 and case["steps"][si - 1][0] == "refused"
        if refused:
            want = REFUSED_ERR[case["steps"][si - 1][1]]
            if rec["err"] is None:
                return ("%s: the last call returned instead of raising the documented %s" % (where, want), "not-refused@" + cls)
            if rec["err"] != want:
                return ("%s: the last call raised %s, documented is %s" % (where, rec["err"], want), "refused-with-other-error@" + cls)
        elif rec["err"] is not None:
            return ("%s: the last step raised %s" % (where, rec["err"]), "step-raised@" + cls)
        max_id = case_max_id(case)
        # every live tree, every iterator: the defining order on the spec tree
        for ti, st in enumerate(spec["trees"]):
            runs = rec["trees"][ti] if ti < len(rec["trees"]) else None
            if runs is None:
                return ("%s: tree %d does not exist" % (where, ti), "tree-missing@" + cls)
            for pc, (out, err) in zip(probes_for(st, case["pseed"], si, ti, max_id, per_tree), runs):
                pobs = {"out": out, "err": err, "ages": pc["ages"]}
                v = b.oracle(pc, pobs)
                if v:
                    return ("%s: on tree %d (of %d): %s" % (where, ti, len(spec["trees"]), v[0]), v[1] + "@" + cls)
        if rec["held"] != spec["held"]:
            return ("%s: the lists obtained from child_nodes() that the caller kept now contain %s, the caller put %s there"
                    % (where, rec["held"], spec["held"]), "held-child-list-changed@" + cls)
        if refused and rec.get("ptr_diff"):
            return ("%s: the refused call did not leave the objects as they were: %s" % (where, "; ".join(rec["ptr_diff"][:4])),
                    "refused-op-changed-state@" + cls)
        if rec["pointers"]:
            return ("%s: pointer structure of the live trees: %s" % (where, "; ".join(rec["pointers"])),
                    "pointer-structure@" + cls)
    return None


def case_max_id(case):
    return max([0] + [i for t in case["world"] for i in subtree_ids(t)] + [x for s in case["steps"] for x in _ids_in_step(s)])


def _ids_in_step(s):
    if s[0] == "kids":
        return [e[-1] for e in s[2] if e[0] in ("append", "insert")]
    if s[0] == "new_child":
        return [s[2]]
    if s[0] == "new_tree":
        return subtree_ids(s[1])
    return []


def nontrivial_world(case, obs):
    return len(case["steps"]) >= 1


def count_world(ctx, case):
    ctx.count("world:histories")
    for s in case["steps"]:
        ctx.count("world-step:" + s[0])
        if s[0] == "kids":
            ctx.count("world-step:kids:" + ("assigned-back" if s[3] else "kept"))
        if s[0] == "refused":
            ctx.count("world-step:refused:" + s[1])


# ---------------------------------------------------------------------------------------------
# Coq side (coq/Model/C15World.v): the object-level model runs the same history on a store of node records and
# list objects (the mutators are generated from the source: py/dv/gen_traversals_obj.py) and the generated
# traversal machines on the object graph the store denotes
# ---------------------------------------------------------------------------------------------
HEADER_WORLD = ("From DV Require Import Model.PyPrims Model.Tree Model.C15Prims Model.C15WorldPrims Model.C15Model Model.C15World.\n"
                "From Coq Require Import ZArith List. Import ListNotations. Open Scope Z_scope.")


def c_edit(e):
    if e[0] == "append":
        return "(EAppend %s)" % cz(e[1])
    if e[0] == "insert":
        return "(EInsert %d%%nat %s)" % (e[1], cz(e[2]))
    if e[0] == "pop":
        return "(EPop %d%%nat)" % e[1]
    return {"reverse": "EReverse", "clear": "EClear"}[e[0]]


def c_step(s):
    if s[0] == "refused":
        return "(SRefused %s %s %s)" % ("RRemoveChild" if s[1] == "remove_child" else "RAddChild", cz(s[2]), cz(s[3]))
    if s[0] == "kids":
        return "(SKids %s %s %s)" % (cz(s[1]), clist([c_edit(e) for e in s[2]]), cbool(s[3]))
    if s[0] == "tree_from_seed":
        return "(STreeFromSeed %s)" % cz(s[1])
    if s[0] == "assign_seed":
        return "(SAssignSeed %s %s)" % (cz(s[1]), cz(s[2]))
    if s[0] == "reparent":
        return "(SReparent %s %s)" % (cz(s[1]), cz(s[2]))
    if s[0] == "new_child":
        return "(SNewChild %s %s)" % (cz(s[1]), cz(s[2]))
    if s[0] == "remove_child":
        return "(SRemoveChild %s)" % cz(s[1])
    return "(SNewTree %s)" % trees.c_tree(s[1])


def oracle_world_coq(case, obs):
    return oracle_world(case, obs, per_tree=PER_TREE_COQ)


def to_coq_world(case, obs):
    b = B()
    spec = {"trees": copy.deepcopy(case["world"]), "held": []}
    max_id = case_max_id(case)
    recs = []
    for si, rec in enumerate(obs["steps"]):
        if si > 0:
            spec_apply(spec, case["steps"][si - 1])
        per_tree = []
        for ti, st in enumerate(spec["trees"]):
            ps = []
            for pc, (out, err) in zip(probes_for(st, case["pseed"], si, ti, max_id, PER_TREE_COQ), rec["trees"][ti]):
                k = pc["kind"]
                ctor = k if not pc["flags"] else "(%s %s)" % (k, " ".join(cbool(f) for f in pc["flags"]))
                filt = "None" if pc["filter"] is None else "(Some %s)" % clist([cz(i) for i in pc["filter"]])
                ps.append("(mkProbe %s %s %s %s %s)" % (cz(b.node_at(st, pc["start"])["id"]), ctor, filt,
                                                         clist([cz(i) for i in out]), copt(err)))
            per_tree.append(clist(ps))
        recs.append("(mkRec %s %s %s)" % (clist(per_tree), clist([clist([cz(i) for i in h]) for h in rec["held"]]),
                                           cbool(not rec["alias"])))
    return "(mkH %s %s %s)" % (clist([trees.c_tree(t) for t in case["world"]]), clist([c_step(s) for s in case["steps"]]),
                               clist(recs))
