"""C12: facts extracted from the AST of the shallow routes and of the route plumbing (part 2 of coq/Gen/CopyGen.v,
called by py/dv/gen_copy.py; not a generator of its own).

  templates   the attribute template of `copy.copy(x)` for TreeList, the fixed-alphabet matrices (DnaCharacterMatrix)
              and ContinuousCharacterMatrix is COMPUTED from the constructors (the attributes that the chain of
              __init__ methods assigns, in order, and what it assigns to each) and from what __copy__ does after
              constructing:
                 a parameter, a constant, a class constant, kwargs.pop(..)     -> FSame   (label and taxon_namespace are
                                                                                  passed by __copy__; the others are the
                                                                                  defaults the source still has)
                 `[]`, `{}`, `container.X()`                                   -> FEmpty
                 `[]` followed by .append(<class constant>)                    -> FCopy   (a new list with the entries
                                                                                  the source's list has)
                 __copy__: `other.A = list(self.A)` / `for k in self.A: other.A[k] = self.A[k]`   -> FCopy
  routes      Tree.__copy__ is taxon_namespace_scoped_copy(); that is populate_memo + Annotable.__deepcopy__ with the
              memo; DataObject.clone(0|1|2) is copy.copy | taxon_namespace_scoped_copy | copy.deepcopy; _clone_from of
              Tree / TreeList / CharacterMatrix seeds memo with the namespace and each taxon mapped to itself (same
              namespace), deep-copies with that memo and takes over the copy's __dict__.
Anything that does not have the expected shape raises (fail closed)."""
import ast

ATTRS = {"_label": "NM_LABEL", "_taxon_namespace": "NM_TNS", "automigrate_taxon_namespace_on_assignment": "NM_AUTOMIG",
         "tree_type": "NM_TREETYPE", "_trees": "NM_TREES", "comments": "NM_COMMENTS",
         "_taxon_sequence_map": "NM_SEQMAP", "character_types": "NM_CHARTYPES", "character_subsets": "NM_SUBSETS",
         "state_alphabets": "NM_ALPHABETS", "_default_state_alphabet": "NM_DEFALPHA"}


class Unsupported(Exception):
    pass


def _cls(trees, name):
    for key, t in trees.items():
        for n in t.body:
            if isinstance(n, ast.ClassDef) and n.name == name:
                return n
    raise Unsupported("class %s not found" % name)


def _method(cls, name):
    for m in cls.body:
        if isinstance(m, ast.FunctionDef) and m.name == name:
            return m
    return None


def _is_self_attr(t):
    return isinstance(t, ast.Attribute) and isinstance(t.value, ast.Name) and t.value.id == "self"


def _classify(v):
    """what the constructor assigns"""
    if isinstance(v, ast.List) and not v.elts:
        return "empty"
    if isinstance(v, ast.Dict) and not v.keys:
        return "empty"
    if isinstance(v, ast.Call) and not v.args and not v.keywords and isinstance(v.func, ast.Attribute) \
            and isinstance(v.func.value, ast.Name) and v.func.value.id == "container":
        return "empty"
    if isinstance(v, ast.Constant):
        return "same"
    if isinstance(v, ast.Name):
        return "same"                       # a parameter
    if isinstance(v, ast.Call) and isinstance(v.func, ast.Attribute) and v.func.attr == "pop" \
            and isinstance(v.func.value, ast.Name) and v.func.value.id == "kwargs":
        return "same"
    if isinstance(v, ast.Attribute) and isinstance(v.value, ast.Attribute) and v.value.attr == "__class__":
        return "same"                       # a class constant
    if isinstance(v, ast.Call) and isinstance(v.func, ast.Name) and v.func.id == "TaxonNamespace" and not v.args:
        return "same"                       # only when no namespace is passed; __copy__ passes one
    raise Unsupported("constructor assigns %s" % ast.dump(v)[:80])


def _init_events(trees, clsname, events):
    """the attribute assignments of clsname.__init__ (default construction path), in order"""
    cls = _cls(trees, clsname)
    init = _method(cls, "__init__")
    if init is None:
        bases = [b for b in cls.bases]
        if len(bases) < 1:
            raise Unsupported("%s has no __init__" % clsname)
        b = bases[0]
        return _init_events(trees, b.attr if isinstance(b, ast.Attribute) else b.id, events)
    body = init.body
    # the dispatch on *args: take the branch of ordinary construction
    out = []
    for st in body:
        if isinstance(st, ast.Expr) and isinstance(st.value, ast.Constant):
            continue
        if isinstance(st, ast.If) and any(isinstance(n, ast.Name) and n.id == "args" for n in ast.walk(st.test)):
            cur = st
            while len(cur.orelse) == 1 and isinstance(cur.orelse[0], ast.If) and \
                    any(isinstance(n, ast.Name) and n.id == "args" for n in ast.walk(cur.orelse[0].test)):
                cur = cur.orelse[0]
            if cur.orelse:
                out.extend(cur.orelse)
            continue
        if isinstance(st, ast.If) and isinstance(st.test, ast.Name) and st.test.id == "kwargs":
            continue
        out.append(st)
    for st in out:
        _init_stmt(trees, st, events)


def _init_stmt(trees, st, events):
    if isinstance(st, ast.Assign) and len(st.targets) == 1 and _is_self_attr(st.targets[0]):
        events.append(("set", st.targets[0].attr, _classify(st.value)))
        return
    if isinstance(st, ast.Expr) and isinstance(st.value, ast.Call):
        c = st.value
        f = c.func
        # Base.__init__(self, ...)
        if isinstance(f, ast.Attribute) and f.attr == "__init__" and c.args and isinstance(c.args[0], ast.Name) \
                and c.args[0].id == "self":
            base = f.value.attr if isinstance(f.value, ast.Attribute) else f.value.id
            _init_events(trees, base, events)
            return
        # self.A.append(<class constant>)
        if isinstance(f, ast.Attribute) and f.attr == "append" and _is_self_attr(f.value) and len(c.args) == 1 \
                and _classify(c.args[0]) == "same":
            events.append(("append", f.value.attr, None))
            return
        # self._set_label(label)
        if isinstance(f, ast.Attribute) and f.attr == "_set_label" and isinstance(f.value, ast.Name) and f.value.id == "self":
            events.append(("set", "_label", "same"))
            return
    if isinstance(st, ast.If) and not st.orelse:
        # `if label is not None: self._set_label(label)`, `if len(args) == 1: <population from the argument>`
        if any(isinstance(n, ast.Name) and n.id == "args" for n in ast.walk(st.test)):
            return
        for s2 in st.body:
            _init_stmt(trees, s2, events)
        return
    if isinstance(st, ast.If) and st.orelse:
        # TaxonNamespaceAssociated.__init__: both branches assign the same attribute
        a, b = [], []
        for s2 in st.body:
            _init_stmt(trees, s2, a)
        for s2 in st.orelse:
            _init_stmt(trees, s2, b)
        if [e[:2] for e in a] != [e[:2] for e in b]:
            raise Unsupported("constructor branches assign different attributes")
        events.extend(a)
        return
    raise Unsupported("constructor statement %s" % ast.dump(st)[:80])


def _copy_overrides(trees, clsname):
    """what __copy__ does after constructing the new object -> {attr: 'copy'}; checks the shape of __copy__"""
    fn = _method(_cls(trees, clsname), "__copy__")
    if fn is None:
        raise Unsupported("%s.__copy__ not found" % clsname)
    body = [s for s in fn.body if not (isinstance(s, ast.Expr) and isinstance(s.value, ast.Constant))]
    st = body[0]
    # other = Cls(label=self.label, taxon_namespace=self.taxon_namespace)
    ok = (isinstance(st, ast.Assign) and isinstance(st.targets[0], ast.Name) and isinstance(st.value, ast.Call)
          and not st.value.args and sorted(k.arg for k in st.value.keywords) == ["label", "taxon_namespace"]
          and all(_is_self_attr(k.value) and k.value.attr == k.arg for k in st.value.keywords))
    if not ok:
        raise Unsupported("%s.__copy__: construction of the new object" % clsname)
    new = st.targets[0].id
    over = {}
    rest = body[1:]
    i = 0
    while i < len(rest):
        st = rest[i]
        # other.A = list(self.A)
        if (isinstance(st, ast.Assign) and isinstance(st.targets[0], ast.Attribute) and isinstance(st.targets[0].value, ast.Name)
                and st.targets[0].value.id == new and isinstance(st.value, ast.Call) and isinstance(st.value.func, ast.Name)
                and st.value.func.id == "list" and len(st.value.args) == 1 and _is_self_attr(st.value.args[0])
                and st.value.args[0].attr == st.targets[0].attr):
            over[st.targets[0].attr] = "copy"
            i += 1
            continue
        # for k in self.A: other.A[k] = self.A[k]
        if (isinstance(st, ast.For) and _is_self_attr(st.iter) and isinstance(st.target, ast.Name) and len(st.body) == 1
                and isinstance(st.body[0], ast.Assign)):
            a = st.iter.attr
            t, v = st.body[0].targets[0], st.body[0].value
            good = (isinstance(t, ast.Subscript) and isinstance(t.value, ast.Attribute) and t.value.attr == a
                    and isinstance(t.value.value, ast.Name) and t.value.value.id == new
                    and isinstance(t.slice, ast.Name) and t.slice.id == st.target.id
                    and isinstance(v, ast.Subscript) and _is_self_attr(v.value) and v.value.attr == a
                    and isinstance(v.slice, ast.Name) and v.slice.id == st.target.id)
            if good:
                over[a] = "copy"
                i += 1
                continue
        break
    tail = rest[i:]
    # memo = {}; memo[id(self)] = other; other.deep_copy_annotations_from(self, memo); return other
    shape = [ast.dump(s) for s in tail]
    want = ast.parse("memo = {}\nmemo[id(self)] = %s\n%s.deep_copy_annotations_from(self, memo)\nreturn %s" % (new, new, new)).body
    # `return` outside a function does not parse as a statement list at module level in older versions: compare piecewise
    if len(tail) != 4 or [ast.dump(s) for s in tail[:3]] != [ast.dump(s) for s in want[:3]] \
            or not (isinstance(tail[3], ast.Return) and isinstance(tail[3].value, ast.Name) and tail[3].value.id == new):
        raise Unsupported("%s.__copy__: tail %s" % (clsname, shape))
    return over


def template(trees, clsname, copy_cls):
    events = []
    _init_events(trees, clsname, events)
    order, mode = [], {}
    for kind, attr, what in events:
        if kind == "set":
            if attr not in mode:
                order.append(attr)
            mode[attr] = what
        elif kind == "append":
            if mode.get(attr) != "empty":
                raise Unsupported("append to %s" % attr)
            mode[attr] = "copy"
    for attr, what in _copy_overrides(trees, copy_cls).items():
        if attr not in mode:
            raise Unsupported("__copy__ sets an attribute the constructor does not create: %s" % attr)
        mode[attr] = what
    coq = {"same": "FSame", "empty": "FEmpty", "copy": "FCopy"}
    items = []
    for a in order:
        if a not in ATTRS:
            raise Unsupported("attribute %s has no fixed id" % a)
        items.append("(%s, %s)" % (ATTRS[a], coq[mode[a]]))
    return "[" + "; ".join(items) + "]"


def _expect(cond, what):
    if not cond:
        raise Unsupported(what)


def _same(fn, src):
    """the body of fn (docstring and comments aside) is exactly `src`"""
    body = [s for s in fn.body if not (isinstance(s, ast.Expr) and isinstance(s.value, ast.Constant))]
    want = ast.parse("def f():\n" + "\n".join("    " + l for l in src.split("\n"))).body[0].body
    return [ast.dump(s) for s in body] == [ast.dump(s) for s in want]


def clone_routes(trees):
    """DataObject.clone: depth -> 0 copy.copy | 1 taxon_namespace_scoped_copy | 2 copy.deepcopy"""
    fn = _method(_cls(trees, "DataObject"), "clone")
    _expect(fn is not None, "DataObject.clone")
    cur = [s for s in fn.body if not (isinstance(s, ast.Expr) and isinstance(s.value, ast.Constant))]
    _expect(len(cur) == 1 and isinstance(cur[0], ast.If), "DataObject.clone: body")
    st = cur[0]
    table = []
    while True:
        t = st.test
        _expect(isinstance(t, ast.Compare) and isinstance(t.left, ast.Name) and t.left.id == "depth"
                and len(t.ops) == 1 and isinstance(t.ops[0], ast.Eq) and isinstance(t.comparators[0], ast.Constant),
                "DataObject.clone: test")
        _expect(len(st.body) == 1 and isinstance(st.body[0], ast.Return) and isinstance(st.body[0].value, ast.Call),
                "DataObject.clone: branch")
        c = st.body[0].value
        f = c.func
        if isinstance(f, ast.Attribute) and isinstance(f.value, ast.Name) and f.value.id == "copy" and f.attr in ("copy", "deepcopy") \
                and len(c.args) == 1 and isinstance(c.args[0], ast.Name) and c.args[0].id == "self" and not c.keywords:
            r = {"copy": "CloneShallow", "deepcopy": "CloneDeep"}[f.attr]
        elif isinstance(f, ast.Attribute) and isinstance(f.value, ast.Name) and f.value.id == "self" \
                and f.attr == "taxon_namespace_scoped_copy" and not c.args \
                and all(k.arg == "memo" and isinstance(k.value, ast.Constant) and k.value.value is None for k in c.keywords):
            r = "CloneScoped"
        else:
            raise Unsupported("DataObject.clone: callee")
        table.append((t.comparators[0].value, r))
        if len(st.orelse) == 1 and isinstance(st.orelse[0], ast.If):
            st = st.orelse[0]
        else:
            _expect(len(st.orelse) == 1 and isinstance(st.orelse[0], ast.Raise), "DataObject.clone: else")
            break
    return table


CLONE_FROM = """memo = {}
taxon_namespace = taxonmodel.process_kwargs_dict_for_taxon_namespace(kwargs_dict, SRC.taxon_namespace)
memo[id(SRC.taxon_namespace)] = taxon_namespace
if taxon_namespace is not SRC.taxon_namespace:
    for t1 in SRC.taxon_namespace:
        t2 = taxon_namespace.require_taxon(label=t1.label)
        memo[id(t1)] = t2
else:
    for t1 in SRC.taxon_namespace:
        memo[id(t1)] = t1
t = copy.deepcopy(SRC, memo)
self.__dict__ = t.__dict__
self.label = kwargs_dict.pop("label", SRC.label)
return self"""


def facts(trees):
    out = ["(* ---- PART 2: facts extracted from the AST ----------------------------------------------------- *)",
           "From DV Require Import Model.C12Spec2 Model.C12Shallow.", ""]
    out.append("(* attribute templates of copy.copy(x): constructors + __copy__ (see py/dv/c12_copyfacts.py) *)")
    out.append("Definition gen_treelist_template : template := %s." % template(trees, "TreeList", "TreeList"))
    out.append("Definition gen_matrix_template : template := %s." % template(trees, "DnaCharacterMatrix", "CharacterMatrix"))
    out.append("Definition gen_cont_matrix_template : template := %s."
               % template(trees, "ContinuousCharacterMatrix", "CharacterMatrix"))
    out.append("")
    # routes
    tree = _cls(trees, "Tree")
    _expect(_same(_method(tree, "__copy__"), "return self.taxon_namespace_scoped_copy()"), "Tree.__copy__")
    scoped = ("if memo is None:\n    memo = {}\nself.taxon_namespace.populate_memo_for_taxon_namespace_scoped_copy(memo)\n"
              "return self.__deepcopy__(memo=memo)")
    for c in ("Tree", "TreeList", "CharacterMatrix"):
        _expect(_same(_method(_cls(trees, c), "taxon_namespace_scoped_copy"), scoped), "%s.taxon_namespace_scoped_copy" % c)
        _expect(_same(_method(_cls(trees, c), "__deepcopy__"), "return basemodel.Annotable.__deepcopy__(self, memo=memo)"),
                "%s.__deepcopy__" % c)
    out.append("(* Tree.__copy__ returns self.taxon_namespace_scoped_copy(); Tree / TreeList / CharacterMatrix")
    out.append("   .taxon_namespace_scoped_copy(memo) = populate_memo_for_taxon_namespace_scoped_copy(memo), then")
    out.append("   Annotable.__deepcopy__(self, memo) (their __deepcopy__ forwards to it) *)")
    out.append("Definition gen_tree_copy_is_scoped_copy : bool := true.")
    out.append("Definition gen_scoped_copy_is_populate_then_annotable_deepcopy : bool := true.")
    # the memo seeds of the scoped copy
    pm = _method(_cls(trees, "TaxonNamespace"), "populate_memo_for_taxon_namespace_scoped_copy")
    _expect(_same(pm, "if memo is not None:\n    memo[id(self)] = self\n    for taxon in self._taxa:\n        memo[id(taxon)] = taxon\nreturn memo"),
            "populate_memo_for_taxon_namespace_scoped_copy")
    tx = _method(_cls(trees, "Taxon"), "taxon_namespace_scoped_copy")
    _expect(_same(tx, "if memo is not None:\n    memo[id(self)] = self\nreturn self"), "Taxon.taxon_namespace_scoped_copy")
    nsx = _method(_cls(trees, "TaxonNamespace"), "taxon_namespace_scoped_copy")
    _expect(_same(nsx, "self.populate_memo_for_taxon_namespace_scoped_copy(memo=memo)\nreturn self"),
            "TaxonNamespace.taxon_namespace_scoped_copy")
    _expect(_same(_method(_cls(trees, "TaxonNamespace"), "__copy__"), "return TaxonNamespace(self)"), "TaxonNamespace.__copy__")
    out.append("(* the taxon-namespace-scoped copy of a Taxon / TaxonNamespace is the object itself; copy.copy(ns) is")
    out.append("   TaxonNamespace(ns) *)")
    out.append("Definition gen_scoped_copy_of_namespace_is_self : bool := true.")
    out.append("")
    out.append("(* DataObject.clone(depth) *)")
    out.append("Inductive clone_route := CloneShallow | CloneScoped | CloneDeep.")
    tab = clone_routes(trees)
    out.append("Definition gen_clone_route (depth : Z) : option clone_route :=")
    for d, r in tab:
        out.append("  if Z.eqb depth %d then Some %s else" % (d, r))
    out.append("  None.")
    out.append("")
    # _clone_from
    for c, arg in (("Tree", "tree"), ("TreeList", "tree_list"), ("CharacterMatrix", "src")):
        fn = _method(_cls(trees, c), "_clone_from")
        _expect(fn is not None and [a.arg for a in fn.args.args] == ["self", arg, "kwargs_dict"], "%s._clone_from" % c)
        _expect(_same(fn, CLONE_FROM.replace("SRC", arg)), "%s._clone_from: body" % c)
    out.append("(* Tree / TreeList / CharacterMatrix._clone_from(src, kwargs): memo = {src.taxon_namespace: the namespace passed")
    out.append("   (default: the same one)}, every taxon mapped to itself when the namespace is the same, t = copy.deepcopy(src,")
    out.append("   memo), self.__dict__ = t.__dict__ (route RCtor of Model/C12Model.v: the scoped copy, then a second object")
    out.append("   with the copy's attributes) *)")
    out.append("Definition gen_clone_from_is_scoped_deepcopy_then_dict_takeover : bool := true.")
    # the copy construction of TaxonNamespace
    init = _method(_cls(trees, "TaxonNamespace"), "__init__")
    found = []
    for node in ast.walk(init):
        if isinstance(node, ast.If) and isinstance(node.test, ast.Call) and isinstance(node.test.func, ast.Name) \
                and node.test.func.id == "isinstance" and ast.dump(node.test.args[1]) == ast.dump(ast.parse("TaxonNamespace").body[0].value):
            found.append(node)
    want = ast.parse("memo = { id(other): self, id(other._taxa): self._taxa }\n"
                     "for t1, t2 in zip(self._taxa, other._taxa):\n    memo[id(t2)] = t1\n"
                     "for k in other.__dict__:\n    if k == \"_annotations\" or k == \"_taxa\":\n        continue\n"
                     "    self.__dict__[k] = copy.deepcopy(other.__dict__[k], memo)\n"
                     "self.deep_copy_annotations_from(other, memo=memo)").body
    _expect(len(found) == 1 and [ast.dump(s) for s in found[0].body] == [ast.dump(s) for s in want] and not found[0].orelse,
            "TaxonNamespace.__init__: copy construction")
    out.append("(* TaxonNamespace(other): after the taxa of `other` were added to self (the same Taxon objects), memo = {other:")
    out.append("   self, other._taxa: self._taxa, t: t for every taxon}; every attribute but _annotations and _taxa is")
    out.append("   copy.deepcopy'ed with that memo; deep_copy_annotations_from(other, memo): TaxonNamespace.__deepcopy__ with")
    out.append("   the taxa seeded to themselves (ns_copy of Model/C12Shallow.v) *)")
    out.append("Definition gen_namespace_copy_construction_is_seeded_deepcopy : bool := true.")
    return "\n".join(out) + "\n"


# ------------------------------------------------------------------------------------------------------------------
# PART 3 (wave 7): which copier `copy.deepcopy` dispatches to, per class of the data model
# ------------------------------------------------------------------------------------------------------------------
# Every class an object of which can occur in a copied structure.  For each one the method resolution order is
# computed from the class statements of the scanned files (C3), the first class of it that defines __deepcopy__ is
# looked up and its BODY decides the kind:
#     a function compiled in part 1 (Annotable / AnnotationSet / Taxon / TaxonNamespace)       its own kind
#     `return basemodel.Annotable.__deepcopy__(self, memo=memo)`                               KAnnotable
#     `return self`                                                                            KAtomic
#     OrderedCaselessDict: new instance, memo entry, `o[key] = copy.deepcopy(val, memo)`       KCDict
#     no __deepcopy__ anywhere, no __reduce__ / __reduce_ex__ / __getstate__ / __setstate__ / __getnewargs__ /
#     __getnewargs_ex__ / __slots__, only `object` outside the scanned files                    KPlain (copy.deepcopy's
#                                                                                               __reduce_ex__ reconstruction)
# Anything else raises: a class that GAINS a __deepcopy__ (or changes the body of one) is not silently given the
# copier the hand model assumes.  The list of all classes of the scanned files that define __deepcopy__ is emitted too.

DUMPED_CLASSES = ["Annotation", "AnnotationSet", "Bipartition", "CharacterSubset", "CharacterType",
                  "CharacterDataSequence", "ContinuousCharacterDataSequence", "DnaCharacterDataSequence",
                  "StandardCharacterDataSequence", "CharacterMatrix", "ContinuousCharacterMatrix", "DnaCharacterMatrix",
                  "StandardCharacterMatrix", "StateAlphabet", "DnaStateAlphabet", "StateIdentity", "Edge", "Node",
                  "OrderedCaselessDict", "Taxon", "TaxonNamespace", "Tree", "TreeList"]

COMPILED = {"Annotable": "KAnnotable", "AnnotationSet": "KAnnSet", "Taxon": "KTaxon", "TaxonNamespace": "KNamespace"}

KNOWN_DEFINERS = ["Annotable", "AnnotationSet", "CharacterMatrix", "CharacterSubset", "CharacterType", "Edge",
                  "FrozenOrderedDict", "Node", "NormalizedBitmaskDict", "OrderedCaselessDict", "OrderedSet",
                  "StateAlphabet", "StateIdentity", "Taxon", "TaxonNamespace", "Tree", "TreeList"]

CDICT_BODY = "o = self.__class__()\nmemo[id(self)] = o\nfor key, val in self.items():\n    o[key] = copy.deepcopy(val, memo)\nreturn o"

PICKLE_HOOKS = ("__reduce__", "__reduce_ex__", "__getstate__", "__setstate__", "__getnewargs__", "__getnewargs_ex__")


def _all_classes(trees):
    out = {}
    for key in sorted(trees):
        for n in trees[key].body:
            if isinstance(n, ast.ClassDef):
                if n.name in out:
                    raise Unsupported("class %s defined twice in the scanned files" % n.name)
                out[n.name] = n
    return out


def _base_name(b):
    if isinstance(b, ast.Name):
        return b.id
    if isinstance(b, ast.Attribute):
        return b.attr
    raise Unsupported("base class expression %s" % ast.dump(b)[:60])


def _mro(classes, name, seen=()):
    """C3 linearisation over the class statements; a class outside the scanned files is a leaf `<name>`"""
    if name not in classes:
        return ["<%s>" % name]
    if name in seen:
        raise Unsupported("cyclic bases at %s" % name)
    bases = [_base_name(b) for b in classes[name].bases] or ["object"]
    seqs = [_mro(classes, b, seen + (name,)) for b in bases] + [[(b if b in classes else "<%s>" % b) for b in bases]]
    out = [name]
    seqs = [list(s) for s in seqs]
    while any(seqs):
        seqs = [s for s in seqs if s]
        for s in seqs:
            cand = s[0]
            if not any(cand in t[1:] for t in seqs):
                break
        else:
            raise Unsupported("no consistent method resolution order for %s" % name)
        out.append(cand)
        for s in seqs:
            if s and s[0] == cand:
                del s[0]
    # `<object>` once, last
    out = [c for c in out if c != "<object>"] + ["<object>"]
    return out


def _defines(cls, name):
    for m in cls.body:
        if isinstance(m, ast.FunctionDef) and m.name == name:
            return m
        if isinstance(m, ast.Assign) and any(isinstance(t, ast.Name) and t.id == name for t in m.targets):
            return m
    return None


def dispatch_table(trees):
    """-> ([(class, Coq kind, definer of __deepcopy__ or None)], [every class of the scanned files defining __deepcopy__])"""
    classes = _all_classes(trees)
    definers = sorted(c for c, n in classes.items() if _defines(n, "__deepcopy__") is not None)
    for c in definers:
        if c not in KNOWN_DEFINERS:
            raise Unsupported("class %s has a __deepcopy__ the model does not know" % c)
    for c in KNOWN_DEFINERS:
        if c not in definers:
            raise Unsupported("class %s no longer defines __deepcopy__" % c)
    table = []
    for c in DUMPED_CLASSES:
        if c not in classes:
            raise Unsupported("class %s not found" % c)
        mro = _mro(classes, c)
        definer, fn = None, None
        for k in mro:
            if k.startswith("<"):
                continue
            fn = _defines(classes[k], "__deepcopy__")
            if fn is not None:
                definer = k
                break
        if definer is None:
            ext = [k for k in mro if k.startswith("<") and k != "<object>"]
            if ext:
                raise Unsupported("class %s without __deepcopy__ inherits from %s" % (c, ext))
            for k in mro:
                if k.startswith("<"):
                    continue
                for h in PICKLE_HOOKS + ("__slots__",):
                    if _defines(classes[k], h) is not None:
                        raise Unsupported("class %s (base %s) customises %s" % (c, k, h))
            table.append((c, "KPlain", None))
            continue
        if not isinstance(fn, ast.FunctionDef):
            raise Unsupported("%s.__deepcopy__ is not a function definition" % definer)
        if definer in COMPILED:
            kind = COMPILED[definer]
        elif _same(fn, "return basemodel.Annotable.__deepcopy__(self, memo=memo)"):
            kind = "KAnnotable"
        elif _same(fn, "return self"):
            kind = "KAtomic"
        elif definer == "OrderedCaselessDict" and _same(fn, CDICT_BODY):
            kind = "KCDict"
        else:
            raise Unsupported("class %s: %s.__deepcopy__ has a body the model does not know" % (c, definer))
        table.append((c, kind, definer))
    return table, definers


def dispatch_facts(trees):
    table, definers = dispatch_table(trees)
    out = ["(* ---- PART 3: the copier copy.deepcopy dispatches to, per class (method resolution order and the body of the",
           "   __deepcopy__ it finds, read off the class statements; see py/dv/c12_copyfacts.py) --------------------- *)",
           "From Coq Require Import String.", ""]
    out.append("Definition gen_class_kinds : list (String.string * kind) :=")
    out.append("  [" + ";\n   ".join('("%s"%%string, %s)' % (c, k) for c, k, _d in table) + "].")
    out.append("")
    out.append("(* the class whose __deepcopy__ each of them resolves to (\"\" : none, the default reconstruction) *)")
    out.append("Definition gen_deepcopy_resolves_to : list (String.string * String.string) :=")
    out.append("  [" + ";\n   ".join('("%s"%%string, "%s"%%string)' % (c, d or "") for c, _k, d in table) + "].")
    out.append("")
    out.append("(* every class of the scanned files that defines a __deepcopy__ *)")
    out.append("Definition gen_deepcopy_definers : list String.string :=")
    out.append("  [" + "; ".join('"%s"%%string' % c for c in definers) + "].")
    return "\n".join(out) + "\n"
