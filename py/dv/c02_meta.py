"""C02, metadata stage: rooting state, tree weights, annotations and comments through the Newick
writer and reader.

Correspondence (model = coq/Model/C02Meta.v + C02MetaAnn.v, case type coq/Model/C02MetaModel.v):
  writer : TreeList.as_string("newick", store_tree_weights=, suppress_annotations=,
           suppress_item_comments=, ...)                      vs  C02Meta.cwrite_tree_list
  reader : TreeList.get(..., store_tree_weights=, extract_comment_metadata=, ...)
                                                             vs  C02Meta.read_newick_m
           on the text the implementation wrote and on reader-only texts full of weight / rooting /
           metadata comments (this is what ties C02MetaAnn.parse_md, the regular-expression model).
Oracle (independent, implementation only): inside the admissible domain of newick_meta_roundtrip the
round trip gives back rooting, weight, tree comments, node comments (node then edge) and annotations.
"""
import fractions
import io

from dv import core
from dv import c02

HEADER = ("From DV Require Import Model.PyPrims Model.Tokenizer Model.Newick Model.C02Model Model.C02Meta "
          "Model.C02MetaAnn Model.C02MetaModel.\n"
          "From Coq Require Import ZArith. Open Scope Z_scope.")

SAFE = "abcXYZ019 .#!%|~^@?$*+-<>_"
TRICKY = "&=,{}\":/W w[]'();\t"
WEIGHTS = [None, None, ["num", 0.25], ["num", 1.0], ["num", 3], ["num", 1e-05], ["num", 2.5e+20], ["num", 0.1 + 0.2],
           ["frac", 1, 2], ["frac", 3, 7], ["frac", 22, 7], ["frac", 1, 1000000], ["frac", 5, 1]]


def gen_comment(rng, safe):
    n = rng.randint(0, 6)
    if safe:
        s = "".join(rng.choice(SAFE) for _ in range(n))
        return s
    kind = rng.random()
    if kind < 0.15:
        return rng.choice(["&R", " &r ", "&U", "&u", "&W 3", "&w 1/4", " &W 2/0", "&W 1/2/3", "&W x", "&W ", "&W\t2", "&R x"])
    if kind < 0.45:
        return gen_md_text(rng)
    return "".join(rng.choice(SAFE + TRICKY) for _ in range(n))


def gen_md_text(rng):
    """text that looks like a metadata comment (admissible or not)"""
    parts = []
    for _ in range(rng.randint(1, 3)):
        key = "".join(rng.choice("abk_ .=") if rng.random() < 0.9 else rng.choice(",{&") for _ in range(rng.randint(1, 3)))
        r = rng.random()
        if r < 0.5:
            val = "".join(rng.choice("xy1 .") if rng.random() < 0.85 else rng.choice(",={}\"") for _ in range(rng.randint(0, 4)))
        elif r < 0.65:
            val = rng.choice(["true", "True", "FALSE", "false", "\"q\"", "\"", "\"a,b\"", "{", "{}", "{a}", "{a,b}", "{a,b,c}", "{,}"])
        else:
            val = "{" + ",".join("".join(rng.choice("pq2}") for _ in range(rng.randint(0, 2))) for _ in range(rng.randint(1, 3))) + "}"
        parts.append(key + "=" + val)
    sep = rng.choice([",", ",", ",", ":", ", "])
    pre = rng.choice(["&", "&", "&", "&&", "&&NHX:", "& ", ""])
    return pre + sep.join(parts) + rng.choice(["", "", "", ",", "\n"])


def gen_annots(rng, admissible):
    out = []
    for _ in range(rng.choice([0, 0, 1, 1, 2, 3])):
        if admissible:
            key = "".join(rng.choice("abck_.") for _ in range(rng.randint(1, 3)))
            r = rng.random()
            if r < 0.4:
                val = "".join(rng.choice("xyz12. -") for _ in range(rng.randint(1, 4))).strip() or "v"
                if val.lower() in ("true", "false"):
                    val = "v"
            elif r < 0.6:
                val = rng.randint(-50, 5000)
            elif r < 0.75:
                val = rng.random() < 0.5
            else:
                val = [rng.choice(["p", "q r", 7, "x.y", 12, "-"]) for _ in range(rng.randint(2, 4))]
        else:
            key = "".join(rng.choice("abk =,&W {") for _ in range(rng.randint(1, 3)))
            r = rng.random()
            if r < 0.5:
                val = "".join(rng.choice("xy ,={}\"t") for _ in range(rng.randint(0, 4)))
            elif r < 0.7:
                val = rng.choice(["true", "False", "{a", "\"q\"", "a,b", "", " x", "}"])
            elif r < 0.8:
                val = rng.randint(-5, 5)
            else:
                val = [rng.choice(["p", "", "a,b", "}", 3, True]) for _ in range(rng.randint(0, 3))]
        out.append([key, val])
    return out


def decorate(case, rng):
    """add weights, comments and annotations to a c02 round-trip case"""
    safe = rng.random() < 0.7
    with_ann = rng.random() < 0.4
    case["safe"] = safe
    metas = []
    for rooted, sp in case["trees"]:
        tm = {"weight": rng.choice(WEIGHTS), "comments": [gen_comment(rng, safe) for _ in range(rng.choice([0, 0, 1, 2]))],
              "ann": gen_annots(rng, safe) if with_ann else []}
        for nd in c02.spec_nodes(sp):
            nd["ncom"] = [gen_comment(rng, safe) for _ in range(rng.choice([0, 0, 0, 1, 2]))]
            nd["ecom"] = [gen_comment(rng, safe) for _ in range(rng.choice([0, 0, 0, 1]))]
            nd["nann"] = gen_annots(rng, safe) if with_ann and rng.random() < 0.4 else []
            nd["eann"] = gen_annots(rng, safe) if with_ann and rng.random() < 0.2 else []
        metas.append(tm)
    case["meta"] = metas
    wkw = case["wkw"]
    sw = rng.random() < 0.6
    if sw:
        wkw["store_tree_weights"] = True
    if rng.random() < 0.85:
        wkw["suppress_item_comments"] = False
    if with_ann and rng.random() < 0.85:
        wkw["suppress_annotations"] = False
    case["r_store"] = sw if rng.random() < 0.9 else (not sw)
    case["r_extract"] = rng.random() < 0.6
    return case


def gen_case(rng, maxleaves):
    if rng.random() < 0.3:
        return gen_reader_case(rng)
    for _ in range(50):
        case = c02.gen_roundtrip_case(rng, maxleaves)
        # label-suppressing / TRANSLATE variants belong to the main stage
        if any(case["wkw"].get(f) for f in c02.LABEL_FLAGS) or case["wkw"].get("suppress_edge_lengths"):
            continue
        case["kind"] = "meta"
        case.pop("create", None)
        case.pop("hist", None)
        return decorate(case, rng)
    raise RuntimeError("no case")


def gen_reader_case(rng):
    def cm():
        return "[" + gen_comment(rng, False).replace("[", "").replace("]", "") + "]" if rng.random() < 0.9 else "[x[y]z]"

    def node(d):
        s = ""
        if d < 2 and rng.random() < 0.5:
            s = "(" + ",".join(node(d + 1) for _ in range(rng.randint(1, 3))) + ")"
        if rng.random() < 0.7 or not s:
            s += rng.choice(["a", "b", "c", "d", "e", "'x y'", "f_g"])
        if rng.random() < 0.4:
            s += ":" + rng.choice(["1", "2.5", "1e-05"])
        while rng.random() < 0.4:
            s += cm()
        return s
    text = ""
    for _ in range(rng.randint(1, 2)):
        pro = ""
        while rng.random() < 0.6:
            pro += cm() + rng.choice(["", "", " "])
        text += pro + node(0) + ";" + rng.choice(["", "\n"])
    rkw = {}
    if rng.random() < 0.3:
        rkw["rooting"] = rng.choice(["force-unrooted", "force-rooted", "default-unrooted", "default-rooted"])
    return {"kind": "meta-reader", "text": text, "rkw": rkw, "r_store": rng.random() < 0.7, "r_extract": rng.random() < 0.8}


# ----------------------------------------------------------------------------------------------
# implementation side
# ----------------------------------------------------------------------------------------------

def to_weight(w):
    if w is None:
        return None
    if w[0] == "num":
        return w[1]
    return fractions.Fraction(w[1], w[2])


def add_annots(target, anns):
    for k, v in anns:
        target.annotations.add_new(k, list(v) if isinstance(v, list) else v)


def build(case):
    tl = c02.build_treelist(case)
    for tree, (rooted, sp), tm in zip(tl, case["trees"], case["meta"]):
        tree.weight = to_weight(tm["weight"])
        tree.comments = list(tm["comments"])
        add_annots(tree, tm["ann"])
        specs = c02.spec_nodes(sp)
        nodes = list(tree.preorder_node_iter())
        if len(specs) != len(nodes):
            raise RuntimeError("harness: node count")
        for nd, s in zip(nodes, specs):
            nd.comments = list(s["ncom"])
            nd.edge.comments = list(s["ecom"])
            add_annots(nd, s["nann"])
            add_annots(nd.edge, s["eann"])
    return tl


def dump_val(v):
    if isinstance(v, bool):
        return ["b", v]
    if isinstance(v, str):
        return ["s", v]
    if isinstance(v, list) and all(isinstance(x, str) for x in v):
        return ["l", v]
    return ["?", repr(v)]


def dump_anns(item, mark=""):
    return [[mark + a.name, dump_val(a.value)] for a in item.annotations]


def dump_read(tl):
    ns = list(tl.taxon_namespace)
    idx = {id(t): i for i, t in enumerate(ns)}

    def f(n):
        return [None if n.taxon is None else idx.get(id(n.taxon), -1), n.label,
                None if n.edge.length is None else repr(n.edge.length),
                dump_anns(n) + dump_anns(n.edge, "<edge>"),
                list(n.comments) + ["<edge>" + c for c in n.edge.comments],
                [f(c) for c in n.child_nodes()]]
    return {"ok": [[t.is_rooted, None if t.weight is None else repr(t.weight), dump_anns(t), list(t.comments), f(t.seed_node)]
                   for t in tl],
            "ns": [t.label for t in ns]}


def read_impl(text, rkw, store, extract):
    import dendropy
    try:
        with core.alarm(10):
            tl = dendropy.TreeList.get(data=text, schema="newick", store_tree_weights=store,
                                       extract_comment_metadata=extract, **rkw)
        return dump_read(tl)
    except Exception as e:
        return {"err": core.exc_enum(e), "msg": "%s: %s" % (type(e).__name__, str(e)[:120])}


def comments_of(text, preserve_underscores):
    """every comment the real tokenizer captures in the text"""
    from dendropy.dataio import nexusprocessing
    tk = nexusprocessing.NexusTokenizer(io.StringIO(text), preserve_unquoted_underscores=preserve_underscores)
    out = []
    try:
        for _t in tk:
            cs = tk.pull_captured_comments()
            if cs:
                out.extend(cs)
    except Exception:
        pass
    cs = tk.pull_captured_comments()
    if cs:
        out.extend(cs)
    return out


def weight_tables(text, preserve_underscores):
    floats, divs = {}, {}
    for c in comments_of(text, preserve_underscores):
        s = c.strip()
        if s.startswith("&W ") or s.startswith("&w "):
            parts = s[2:].split("/")
            vals = []
            for p in parts:
                try:
                    floats[p] = repr(float(p))
                    vals.append(float(p))
                except ValueError:
                    floats[p] = None
                    vals.append(None)
            if len(parts) == 2 and None not in vals:
                try:
                    divs[(repr(vals[0]), repr(vals[1]))] = repr(vals[0] / vals[1])
                except ZeroDivisionError:
                    divs[(repr(vals[0]), repr(vals[1]))] = None
    return floats, divs


def observe(case):
    if case["kind"] == "meta-reader":
        text, rkw = case["text"], case["rkw"]
        written = None
    else:
        tl = build(case)
        rkw = c02.reader_kwargs(case)
        text = tl.as_string("newick", **case["wkw"])
        written = text
    pu = rkw.get("preserve_underscores", False)
    floats = dict(c02.float_table(text, pu))
    wf, divs = weight_tables(text, pu)
    for k, v in wf.items():
        if k in floats and floats[k] != v:
            raise RuntimeError("harness: float table clash on %r" % k)
        floats[k] = v
    return {"written": written, "text": text, "rkw": rkw, "read": read_impl(text, rkw, case["r_store"], case["r_extract"]),
            "floats": sorted(floats.items()), "divs": sorted(divs.items())}


# ----------------------------------------------------------------------------------------------
# oracle: newick_meta_roundtrip stated naively on the implementation's behaviour
# ----------------------------------------------------------------------------------------------

def text_ok(c):
    return "[" not in c and "]" not in c


def tree_text_ok(c, store):
    s = c.strip()
    return text_ok(c) and s not in ("&u", "&U", "&r", "&R") and not (store and (s.startswith("&W ") or s.startswith("&w ")))


def fmt(v):
    return "{}".format(v)


def ann_text(anns):
    parts = []
    for k, v in anns:
        if isinstance(v, list):
            parts.append("%s={%s}" % (k, ",".join(fmt(x) for x in v)))
        else:
            parts.append("%s=%s" % (k, fmt(v)))
    return "&" + ",".join(parts)


def atom_ok(s, in_list):
    return (s != "" and "\n" not in s and "," not in s and s == s.strip() and text_ok(s)
            and (("}" not in s) if in_list else (not s.startswith("{") and not (s.startswith('"') and s.endswith('"'))
                                                 and s.lower() not in ("true", "false"))))


def ann_ok(k, v, first):
    if not (k != "" and "=" not in k and "\n" not in k and k == k.strip() and text_ok(k)):
        return False
    if first and (k.startswith("&") or k.startswith("W ") or k.startswith("w ")):
        return False
    if isinstance(v, list):
        return len(v) >= 2 and all(not isinstance(x, bool) and atom_ok(fmt(x), True) for x in v)
    if isinstance(v, bool):
        return True
    return atom_ok(fmt(v), False)


def expected_anns(anns):
    out = []
    for k, v in anns:
        if isinstance(v, list):
            out.append([k, ["l", [fmt(x) for x in v]]])
        elif isinstance(v, bool):
            out.append([k, ["b", v]])
        else:
            out.append([k, ["s", fmt(v)]])
    return out


def item_expect(anns_groups, comments, wkw, extract):
    """(annotations, comments) expected on an item, or None when outside the admissible domain.
    anns_groups: the annotation lists written as one comment each, in order"""
    texts = []
    exp_anns = []
    for anns in anns_groups:
        if not wkw.get("suppress_annotations", True) and anns:
            if not all(ann_ok(k, v, i == 0) for i, (k, v) in enumerate(anns)):
                return None
            if extract:
                exp_anns.extend(expected_anns(anns))
            else:
                texts.append(ann_text(anns))
    if not wkw.get("suppress_item_comments", True):
        for c in comments:
            if not text_ok(c) or (extract and c.startswith("&")):
                return None
            texts.append(c)
    return exp_anns, texts


def oracle(case, obs):
    if case["kind"] != "meta":
        return None
    if case.get("probe"):
        return None                         # a `_refuted` witness: silent probe, tied by the correspondence only
    wkw = case["wkw"]
    store, extract = case["r_store"], case["r_extract"]
    if bool(wkw.get("store_tree_weights")) != store:
        return None
    # the structural domain of newick_roundtrip: leave its known findings to the main stage
    if c02.classify(case, "newick") != "roundtrip-newick":
        return None
    rd = obs["read"]
    expects = []
    for (rooted, sp), tm in zip(case["trees"], case["meta"]):
        te = item_expect([tm["ann"]], tm["comments"], wkw, extract)
        if te is None or not all(tree_text_ok(c, store) for c in te[1]):
            return None
        nodes = []
        for nd in c02.spec_nodes(sp):
            ne = item_expect([nd["nann"], nd["eann"]], nd["ncom"] + nd["ecom"], wkw, extract)
            if ne is None:
                return None
            nodes.append(ne)
        if not sp["kids"] and (te[0] or te[1] or nodes[0][0] or nodes[0][1]):
            return None                     # root_ok
        if any(not nd["kids"] and nd["taxon"] is None and nd["len"] is None for nd in c02.spec_nodes(sp)):
            return None                     # blank leaves are outside wf_tree
        expects.append((te, nodes))
    if "err" in rd:
        return ("newick metadata round trip raised %s (options %s)" % (rd["msg"], wkw), "meta-roundtrip-raises")
    if len(rd["ok"]) != len(case["trees"]):
        return ("newick metadata round trip returned %d trees for %d" % (len(rd["ok"]), len(case["trees"])), "meta-roundtrip-count")
    for k, ((rooted, sp), tm, (te, nodes), got) in enumerate(zip(case["trees"], case["meta"], expects, rd["ok"])):
        r2, w2, a2, c2, t2 = got
        want_r = rooted
        if wkw.get("suppress_rooting"):
            want_r = rooted
        if r2 != want_r:
            return ("tree %d: rooting %r came back as %r" % (k, rooted, r2), "meta-rooting")
        if store:
            w = to_weight(tm["weight"])
            want_w = repr(1.0) if w is None else repr(float(w.numerator) / float(w.denominator)) if isinstance(w, fractions.Fraction) else repr(float(w))
        else:
            want_w = None
        if w2 != want_w:
            return ("tree %d: weight %r came back as %s (expected %s)" % (k, tm["weight"], w2, want_w), "meta-weight")
        if sorted(map(repr, a2)) != sorted(map(repr, te[0])) or c2 != te[1]:
            return ("tree %d: tree annotations/comments %r %r came back as %r %r" % (k, te[0], te[1], a2, c2), "meta-tree-comments")
        flat = []

        def walk(n):
            flat.append(n)
            for ch in n[5]:
                walk(ch)
        walk(t2)
        if len(flat) != len(nodes):
            return ("tree %d: %d nodes came back as %d" % (k, len(nodes), len(flat)), "meta-topology")
        for i, (ne, g) in enumerate(zip(nodes, flat)):
            if sorted(map(repr, g[3])) != sorted(map(repr, ne[0])) or g[4] != ne[1]:
                return ("tree %d node %d: annotations/comments %r %r came back as %r %r" % (k, i, ne[0], ne[1], g[3], g[4]),
                        "meta-node-comments")
    return None


# ----------------------------------------------------------------------------------------------
# Coq terms
# ----------------------------------------------------------------------------------------------

zs, copt, cb = c02.zs, c02.copt, c02.cb


def clist(xs):
    return "[" + ";".join(xs) + "]"


def c_atom(x):
    if isinstance(x, bool):
        return "(ABool %s)" % cb(x)
    if isinstance(x, int):
        return "(AInt (%d))" % x
    return "(AStr %s)" % zs(x)


def c_annot(kv):
    k, v = kv
    if isinstance(v, list):
        return "(%s, VList %s)" % (zs(k), clist(c_atom(x) for x in v))
    return "(%s, VAtom %s)" % (zs(k), c_atom(v))


def c_ctree(sp):
    return "(CNd %s %s %s (mkNmeta %s %s %s %s) %s)" % (
        copt(sp["taxon"], zs), copt(sp["label"], zs), copt(sp["len"], lambda x: zs(c02.fmt_len(x))),
        clist(map(c_annot, sp["nann"])), clist(map(c_annot, sp["eann"])), clist(map(zs, sp["ncom"])), clist(map(zs, sp["ecom"])),
        clist(c_ctree(k) for k in sp["kids"]))


def c_weight(w):
    if w is None:
        return "None"
    if w[0] == "num":
        return "(Some (WNum %s))" % zs(fmt(w[1]))
    f = fractions.Fraction(w[1], w[2])
    if f.denominator == 1:
        return "(Some (WNum %s))" % zs(str(f.numerator))
    return "(Some (WFrac %s %s))" % (zs(str(f.numerator)), zs(str(f.denominator)))


def c_rval(v):
    tag, x = v
    if tag == "s":
        return "(RStr %s)" % zs(x)
    if tag == "b":
        return "(RBool %s)" % cb(x)
    if tag == "l":
        return "(RList %s)" % clist(map(zs, x))
    raise RuntimeError("harness: annotation value of unexpected type %r" % (v,))


def c_rannots(anns):
    return clist("(%s, %s)" % (zs(k), c_rval(v)) for k, v in anns)


def c_mptree(n):
    tx, lb, ln, an, cm, kids = n
    return "(MPN %s %s %s %s %s %s)" % (copt(tx, lambda i: "%d%%nat" % i), copt(lb, zs), copt(ln, zs), c_rannots(an),
                                         clist(map(zs, cm)), clist(map(c_mptree, kids)))


def c_read(rd):
    if "err" in rd:
        return "(Err %s)" % rd["err"]
    trees = clist("(mkMR %s %s %s %s %s)" % (copt(r, cb), copt(w, zs), c_rannots(a), clist(map(zs, c)), c_mptree(t))
                  for r, w, a, c, t in rd["ok"])
    return "(Ok (%s, %s))" % (trees, clist(map(zs, rd["ns"])))


def to_coq(case, obs):
    strings = [obs["text"]]
    if "ok" in obs["read"]:
        strings.extend(obs["read"]["ns"])
    if case["kind"] == "meta":
        strings.extend(case["ns"])
    lower = clist("(%d,%d)" % p for p in c02.lower_table(strings))
    floats = clist("(%s,%s)" % (zs(k), copt(v, zs)) for k, v in obs["floats"])
    divs = clist("((%s,%s),%s)" % (zs(k[0]), zs(k[1]), copt(v, zs)) for k, v in obs["divs"])
    tail = "%s %s %s %s %s %s" % (c02.c_ropts(obs["rkw"]), cb(case["r_store"]), cb(case["r_extract"]), zs(repr(1.0)),
                                  zs(obs["text"]), c_read(obs["read"]))
    if case["kind"] == "meta-reader":
        return "(mkMcase %s %s %s [] [] [] %s)" % (lower, floats, divs, tail)
    wkw = case["wkw"]
    flags = [wkw.get(n, d) for n, d in zip(c02.WFLAG_NAMES, c02.WFLAG_DEFAULTS)]
    flags += [wkw.get("store_tree_weights", False), wkw.get("suppress_annotations", True), wkw.get("suppress_item_comments", True)]
    trees = clist("(mkMtree %s %s %s %s %s)" % (copt(r, cb), c_weight(tm["weight"]), clist(map(c_annot, tm["ann"])),
                                                clist(map(zs, tm["comments"])), c_ctree(sp))
                  for (r, sp), tm in zip(case["trees"], case["meta"]))
    return "(mkMcase %s %s %s %s %s %s %s)" % (lower, floats, divs, clist(map(cb, flags)), trees, zs(obs["written"]), tail)


def nontrivial(case, obs):
    if case["kind"] == "meta-reader":
        return "[" in case["text"]
    n = sum(len(c02.spec_nodes(sp)) for _r, sp in case["trees"])
    has = any(tm["comments"] or tm["ann"] or tm["weight"] for tm in case["meta"]) or \
        any(nd["ncom"] or nd["ecom"] or nd["nann"] or nd["eann"] for _r, sp in case["trees"] for nd in c02.spec_nodes(sp))
    return n >= 2 and has


def sample_fn(case, obs):
    return {"kind": case["kind"], "text": obs["text"][:200], "read": str(obs["read"])[:300]}


def witness_cases():
    """the Coq `_refuted` witnesses of the metadata theorems, replayed on the implementation by the correspondence, and fixed
    in-domain cases"""
    def leaf(l, ln=None, ncom=(), ecom=()):
        return {"taxon": l, "label": None, "len": ln, "kids": [], "ncom": list(ncom), "ecom": list(ecom), "nann": [], "eann": []}

    def inner(kids, label=None, ncom=(), ecom=()):
        return {"taxon": None, "label": label, "len": None, "kids": kids, "ncom": list(ncom), "ecom": list(ecom), "nann": [], "eann": []}

    def case(rooted, sp, tm, wkw, store=True, extract=True):
        ns = [nd["taxon"] for nd in c02.spec_nodes(sp) if nd["taxon"] is not None]
        return {"kind": "meta", "ns": ns, "trees": [[rooted, sp]], "meta": [tm], "wkw": dict(wkw), "internal_taxa": False,
                "r_store": store, "r_extract": extract, "safe": True}
    w = {"store_tree_weights": True, "suppress_item_comments": False}
    out = []
    # ex_mtree
    out.append(case(True, inner([dict(inner([leaf("a (", 1, ["n2"]), leaf("b", None, [], ["e3"])], "x", ["n1"], ["e1"]), len=3),
                                 leaf("d", None, ["n4"])], "r", ["n0"], ["e0"]),
                    {"weight": ["frac", 1, 2], "comments": ["tc", "t d"], "ann": []}, w))
    # comment_bracket_refuted, single_node_comments_refuted, single_node_quoted_refuted, tree_comment_directive_refuted
    out.append(case(None, inner([leaf("a"), leaf("b")]), {"weight": None, "comments": ["x[y]z"], "ann": []}, w))
    out.append(dict(case(None, leaf("a", None, ["nc"]), {"weight": None, "comments": ["tc"], "ann": []}, w),
                    probe="single_node_comments_refuted"))
    out.append(dict(case(None, leaf("a("), {"weight": None, "comments": ["tc"], "ann": []}, w),
                    probe="single_node_quoted_refuted"))
    out.append(case(False, inner([leaf("a"), leaf("b")]), {"weight": None, "comments": [" &R", "&w 3"], "ann": []}, w))
    # the enumerated options alone: single-node trees with quoted / unquoted labels, every rooting state, float and Fraction
    # weights, store_tree_weights=True, default comment options: rooting and weight tokens end in a blank (in the oracle's domain)
    for lab in ("a(", "a b", "x_y", "it's", "[c]", "plain"):
        for rooted, wt in ((True, ["frac", 1, 2]), (False, ["num", 0.25]), (None, ["frac", 3, 7]), (True, None)):
            out.append(case(rooted, leaf(lab), {"weight": wt, "comments": ["ignored"], "ann": [["k", "v"]]},
                            {"store_tree_weights": True}))
            out.append(case(rooted, leaf(lab, 1.5), {"weight": wt, "comments": [], "ann": []}, {"store_tree_weights": True}))
    # annotations: admissible, and the refuted classes (comma in a value, one-element list before another annotation)
    wa = dict(w, suppress_annotations=False)
    out.append(case(True, inner([leaf("a"), leaf("b")]),
                    {"weight": ["num", 0.25], "comments": ["c"], "ann": [["k", "v w"], ["n", 12], ["b", True], ["l", ["p", 3, "q r"]]]}, wa))
    out.append(dict(case(True, inner([leaf("a"), leaf("b")]), {"weight": None, "comments": [], "ann": [["k", "a,b"], ["j", "z"]]}, wa),
                    probe="metadata_value_comma_refuted"))
    out.append(dict(case(True, inner([leaf("a"), leaf("b")]), {"weight": None, "comments": [], "ann": [["k", ["a"]], ["j", ["x", "y"]]]}, wa),
                    probe="metadata_single_item_list_refuted"))
    return out
