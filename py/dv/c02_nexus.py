"""C02, NEXUS layer: correspondence of Model/C02Nexus.v (TAXA block + TREES block with/without TRANSLATE)
with NexusWriter / NexusReader: the exact text of tree_list.as_string("nexus", ...) and the parsed
result of DataSet.get(data=text, schema="nexus") (namespaces, tree lists)."""
from dv import core
from dv import c02

HEADER = ("From DV Require Import Model.PyPrims Model.Tokenizer Model.Newick Model.C02Model Model.C02Nexus Model.C02NexusModel.\n"
          "From Coq Require Import ZArith. Open Scope Z_scope.")

NUMERIC = ["1", "2", "3", "4", "01", "10", "0", "12"]


def gen_case(rng, maxleaves):
    """a round-trip case (as c02.gen_roundtrip_case) + translate flag; half of the time with labels that
    look like taxon numbers, placed so that a label equals ANOTHER taxon's 1-based position"""
    case = c02.gen_roundtrip_case(rng, maxleaves)
    case["kind"] = "nexus"
    for f in c02.LABEL_FLAGS:          # label-suppressing writer options are exercised on the Newick pipelines only
        case["wkw"].pop(f, None)
    case["translate"] = rng.random() < 0.5
    if rng.random() < 0.5 and case["ns"]:
        # rename some taxa to numeric strings (distinct), keep the rest
        n = len(case["ns"])
        k = rng.randint(1, min(n, len(NUMERIC)))
        nums = rng.sample(NUMERIC, k)
        if rng.random() < 0.5:
            # positions-as-labels, permuted: label of taxon i is the position of another taxon
            perm = list(range(1, n + 1))
            rng.shuffle(perm)
            nums = [str(p) for p in perm][:k]
        victims = rng.sample(range(n), k)
        ren = {}
        for v, num in zip(victims, nums):
            if num.lower() in (x.lower() for x in case["ns"]) or num in ren.values():
                continue
            ren[case["ns"][v]] = num
        case["ns"] = [ren.get(l, l) for l in case["ns"]]
        for _r, sp in case["trees"]:
            for nd in c02.spec_nodes(sp):
                if nd["taxon"] in ren:
                    nd["taxon"] = ren[nd["taxon"]]
    # extra members of the namespace that no tree uses
    if rng.random() < 0.3:
        extra = c02.gen_pool(rng, rng.randint(1, 3), False, no_space=bool(case["wkw"].get("unquoted_underscores") and not case["wkw"].get("preserve_spaces")))
        for e in extra:
            if e.lower() not in (x.lower() for x in case["ns"]):
                case["ns"].insert(rng.randrange(len(case["ns"]) + 1), e)
    # the labels changed: give the namespace a (new) creation order and re-ordering history
    return c02.add_history(case, rng)


def upper_table(strings):
    tbl = {}
    for s in strings:
        for ch in s:
            if ord(ch) > 127 and len(ch.upper()) == 1 and ch.upper() != ch:
                tbl[ord(ch)] = ord(ch.upper())
    return sorted(tbl.items())


def dump_dataset(ds):
    nss = list(ds.taxon_namespaces)
    out_ns = [[t.label for t in ns] for ns in nss]
    out_tl = []
    for tl in ds.tree_lists:
        idx = {id(t): i for i, t in enumerate(tl.taxon_namespace)}
        ti = [i for i, ns in enumerate(nss) if ns is tl.taxon_namespace]

        def f(n):
            return [None if n.taxon is None else idx.get(id(n.taxon), -1), n.label,
                    None if n.edge.length is None else repr(n.edge.length),
                    list(n.comments) + ["<edge>" + c for c in n.edge.comments],
                    [f(c) for c in n.child_nodes()]]
        out_tl.append([ti[0] if ti else -1, [[t.is_rooted, list(t.comments), f(t.seed_node)] for t in tl]])
    return {"ok": [out_ns, out_tl]}


def read_impl(text, rkw):
    import dendropy
    try:
        with core.alarm(10):
            ds = dendropy.DataSet.get(data=text, schema="nexus", extract_comment_metadata=False, **rkw)
        return dump_dataset(ds)
    except Exception as e:
        return {"err": core.exc_enum(e), "msg": "%s: %s" % (type(e).__name__, str(e)[:120])}


def observe(case):
    tl = c02.build_treelist(case)
    wkw = dict(case["wkw"])
    if case["translate"]:
        wkw["translate_tree_taxa"] = True
    rkw = c02.reader_kwargs(case)
    text = tl.as_string("nexus", **wkw)
    accs = [tl.taxon_namespace.accession_index(t) for t in tl.taxon_namespace]
    return {"accs": accs, "written": text, "read": read_impl(text, rkw), "rkw": rkw,
            "floats": c02.float_table(text, rkw.get("preserve_underscores", False))}


def oracle(case, obs):
    """the NEXUS pipeline against the property (same naive statement as c02.oracle, DataSet route)"""
    rd = obs["read"]
    wkw = case["wkw"]
    pipe = "nexus-translate" if case["translate"] else "nexus"
    if "err" in rd:
        return ("%s (DataSet) round trip raised %s (labels %s, options %s)" % (pipe, rd["msg"], case["ns"][:6], wkw), c02.classify(case, pipe))
    nss, tls = rd["ok"]
    if len(nss) != 1 or len(tls) != 1 or nss[0] != case["ns"]:
        return ("%s round trip: namespaces %s, expected one with %s" % (pipe, nss, case["ns"]), c02.classify(case, pipe))
    trees = tls[0][1]
    if len(trees) != len(case["trees"]):
        return ("%s round trip returned %d trees for %d" % (pipe, len(trees), len(case["trees"])), c02.classify(case, pipe))
    labels = nss[0]

    def plain(n):
        tx, lb, ln, _cm, kids = n
        return {"taxon": None if tx is None else labels[tx], "label": lb if kids else None,
                "len": None if ln is None else repr(float(ln)), "kids": [plain(k) for k in kids]}
    for k, ((rooted, sp), (r2, _cm, t2)) in enumerate(zip(case["trees"], trees)):
        if r2 != rooted:
            key = c02.classify(case, pipe)
            return ("%s round trip: tree %d rooting %r came back as %r" % (pipe, k, rooted, r2), key if not key.startswith("roundtrip-") else "rooting-" + pipe)
        want = c02.expected_tree(sp, "nexus", wkw)
        if plain(t2) != want:
            return ("%s round trip: tree %d differs: wrote %s, read %s" % (pipe, k, str(want)[:300], str(plain(t2))[:300]), c02.classify(case, pipe))
    return None


def c_nread(rd):
    if "err" in rd:
        return "(NErr %s)" % rd["err"]
    nss, tls = rd["ok"]
    ns = "[" + ";".join("[" + ";".join(c02.zs(l) for l in n) + "]" for n in nss) + "]"
    tl = "[" + ";".join("(%d%%nat, [%s])" % (ti, ";".join("(mkPR %s [%s] %s)" % (c02.copt(r, c02.cb), ";".join(c02.zs(c) for c in cm), c02.c_ptree(t))
                                                         for r, cm, t in trees)) for ti, trees in tls) + "]"
    return "(NOk (%s, %s))" % (ns, tl)


def to_coq(case, obs):
    strings = list(case["ns"]) + [obs["written"]]
    low = c02.lower_table(strings)
    lower = "[" + ";".join("(%d,%d)" % p for p in low) + "]"
    upper = "[" + ";".join("(%d,%d)" % p for p in upper_table(strings)) + "]"
    floats = "[" + ";".join("(%s,%s)" % (c02.zs(k), c02.copt(v, c02.zs)) for k, v in obs["floats"]) + "]"
    wkw = case["wkw"]
    flags = "[" + ";".join(c02.cb(wkw.get(n, d)) for n, d in zip(c02.WFLAG_NAMES, c02.WFLAG_DEFAULTS)) + "]"
    trees = "[" + ";".join("(%s,%s)" % (c02.copt(r, c02.cb), c02.c_ntree(sp)) for r, sp in case["trees"]) + "]"
    ns = "[" + ";".join(c02.zs(l) for l in case["ns"]) + "]"
    accs = "[" + ";".join("%d%%nat" % a for a in obs["accs"]) + "]"
    return "(mkNCase %s %s %s %s %s %s %s %s %s %s %s %s)" % (
        lower, upper, floats, flags, c02.cb(case["translate"]), ns, accs, trees, c02.zs(obs["written"]),
        c02.c_ropts(obs["rkw"]), c02.zs(obs["written"]), c_nread(obs["read"]))


def nontrivial(case, obs):
    return len(case["ns"]) >= 2 and sum(len(c02.spec_nodes(sp)) for _r, sp in case["trees"]) >= 3


def sample_fn(case, obs):
    return {"ns": case["ns"][:8], "translate": case["translate"], "wkw": case["wkw"], "written": obs["written"][:300]}
