"""Object-level translator for Tree.encode_bipartitions (property C01)  ->  coq/Gen/BipartitionObj.v

Reads, with `ast`, the CURRENT text of datamodel/treemodel/_tree.py and compiles the statements of
encode_bipartitions that create, bind, write to and return Bipartition OBJECTS into operations on the object heap of
coq/Model/C01ObjModel.v (run-time library coq/Model/C01ObjPrims.v):

  * the object statements of the loop body (non-unifurcation branch)       -> ogen_first_pass_edge
        X = edge._bipartition | X = [_bipartition.]Bipartition(kw) | edge.bipartition = <obj> | edge._bipartition = <obj>
        <obj>.<attr> = leafset_bitmask | self._is_rooted | True | False | None
        if X is None: ... else: ...          (<obj> ::= X | edge.bipartition | [_bipartition.]Bipartition(kw))
  * _compile_mutable_bipartition_for_edge / _compile_immutable_bipartition_for_edge -> ogen_compile_*_edge
        <obj>.compile_split_bitmask(...) ; return <obj>          (the VALUE of the call is Gen/Bipartition.v's subject)
  * the tail: which list is stored, when the lazy map(...) is consumed       -> ogen_tail
        X = map(_compile_bipartition, tree_edges) | self.bipartition_encoding = None | = list(<it>)
        for x in <it>: pass | if suppress_storage: ... else: ... | return self.bipartition_encoding
  * the assembly ogen_encode_bipartitions (which masks: Model/C01Model.v encode_f, to which Gen/Bipartition.v is
    proved equal)

WHICH object is created / reused / written in place is therefore what the source says; Proofs/C01ObjGen.v proves the
generated functions equal to the hand model (every encoding creates fresh objects, every edge compiled whatever the
storage keyword).  Anything else raises Unsupported (fail closed).
"""
import ast
import os

OUTPUT = "BipartitionObj.v"


class Unsupported(Exception):
    pass


def D(e):
    return ast.dump(e).replace("ctx=Store()", "ctx=Load()")


def same(e, txt):
    return D(e) == D(ast.parse(txt, mode="eval").body)


def is_doc(s):
    return isinstance(s, ast.Expr) and isinstance(s.value, ast.Constant) and isinstance(s.value.value, str)


def find_def(nodes, name):
    for n in nodes:
        if isinstance(n, ast.FunctionDef) and n.name == name:
            return n
    raise Unsupported("function %s not found" % name)


ATTRS = {"_split_bitmask": ("set_b_split", "oZ"), "_leafset_bitmask": ("set_b_leafset", "oZ"),
         "_tree_leafset_bitmask": ("set_b_tree_leafset", "oZ"), "_lowest_relevant_bit": ("set_b_lrb", "oZ"),
         "_is_rooted": ("set_b_rooted", "obool"), "is_mutable": ("set_b_mutable", "obool")}


class ObjC:
    """object statements over the heap `h` and the edge `nid`; locals hold a cell (kind cell), a cell or None
    (kind ocell) or None (kind none)"""

    def __init__(self):
        self.n = 0

    def fresh(self):
        self.n += 1
        return "c%d" % self.n

    def is_ctor(self, e):
        return isinstance(e, ast.Call) and (same(e.func, "_bipartition.Bipartition") or same(e.func, "Bipartition"))

    def ctor_value(self, e):
        if e.args:
            raise Unsupported("positional argument of Bipartition()")
        kws = {"compile_bipartition": "None", "is_mutable": "None"}
        for kw in e.keywords:
            if kw.arg == "edge":
                continue
            if kw.arg not in kws:
                raise Unsupported("keyword %s of Bipartition() at the object level" % kw.arg)
            if not (isinstance(kw.value, ast.Constant) and (kw.value.value is None or isinstance(kw.value.value, bool))):
                raise Unsupported("non-constant keyword of Bipartition()")
            v = kw.value.value
            kws[kw.arg] = "(Some None)" if v is None else "(Some (Some %s))" % ("true" if v else "false")
        return "(prim_bip_new %s %s)" % (kws["compile_bipartition"], kws["is_mutable"])

    def obj(self, e, env):
        """-> (prefix lets, code, kind)"""
        if self.is_ctor(e):
            c = self.fresh()
            return ["let '(%s, h) := oh_alloc %s h in" % (c, self.ctor_value(e))], c, "cell"
        if same(e, "edge.bipartition"):
            c = self.fresh()
            return ["let '(%s, h) := oh_getter nid h in" % c], c, "cell"
        if same(e, "edge._bipartition"):
            return [], "(oh_slot h nid)", "ocell"
        if isinstance(e, ast.Name) and e.id in env:
            return [], env[e.id][1], env[e.id][0]
        if isinstance(e, ast.Constant) and e.value is None:
            return [], "None", "none"
        raise Unsupported("object expression %s" % ast.unparse(e)[:60])

    def value(self, e, ty):
        if isinstance(e, ast.Name) and e.id == "leafset_bitmask" and ty == "oZ":
            return "(Some leafset_bitmask)"
        if same(e, "self._is_rooted") and ty == "obool":
            return "self_is_rooted"
        if isinstance(e, ast.Constant) and e.value is None:
            return "None"
        if isinstance(e, ast.Constant) and isinstance(e.value, bool) and ty == "obool":
            return "(Some %s)" % ("true" if e.value else "false")
        raise Unsupported("value %s assigned to a Bipartition attribute" % ast.unparse(e)[:60])

    def assigned(self, stmts):
        out = []
        for s in stmts:
            if isinstance(s, ast.Assign) and isinstance(s.targets[0], ast.Name) and s.targets[0].id not in out:
                out.append(s.targets[0].id)
            elif isinstance(s, ast.If):
                for v in self.assigned(s.body) + self.assigned(s.orelse):
                    if v not in out:
                        out.append(v)
        return out

    def block(self, stmts, env, k):
        if not stmts:
            return k(env)
        s, rest = stmts[0], stmts[1:]
        if is_doc(s):
            return self.block(rest, env, k)
        if isinstance(s, ast.Assign) and len(s.targets) == 1:
            t = s.targets[0]
            if isinstance(t, ast.Name):
                pre, code, kind = self.obj(s.value, env)
                env2 = dict(env)
                env2[t.id] = (kind, t.id)
                return "\n  ".join(pre + ["let %s := %s in" % (t.id, code), self.block(rest, env2, k)])
            if same(t, "edge.bipartition") or same(t, "edge._bipartition"):
                pre, code, kind = self.obj(s.value, env)
                if kind != "cell":
                    raise Unsupported("edge bipartition assigned something that may be None")
                return "\n  ".join(pre + ["let h := oh_bind nid %s h in" % code, self.block(rest, env, k)])
            if isinstance(t, ast.Attribute) and t.attr in ATTRS:
                pre, code, kind = self.obj(t.value, env)
                if kind != "cell":
                    raise Unsupported("attribute of something that may be None is assigned")
                f, ty = ATTRS[t.attr]
                return "\n  ".join(pre + ["let h := oh_write %s (%s %s) h in" % (code, f, self.value(s.value, ty)),
                                          self.block(rest, env, k)])
            raise Unsupported("assignment to %s" % ast.unparse(t)[:60])
        if isinstance(s, ast.If):
            t = s.test
            if not (isinstance(t, ast.Compare) and len(t.ops) == 1 and isinstance(t.ops[0], (ast.Is, ast.IsNot))
                    and isinstance(t.comparators[0], ast.Constant) and t.comparators[0].value is None
                    and isinstance(t.left, ast.Name) and env.get(t.left.id, (None,))[0] == "ocell"):
                raise Unsupported("test %s" % ast.unparse(t)[:60])
            x = t.left.id
            none_b, some_b = (s.body, s.orelse) if isinstance(t.ops[0], ast.Is) else (s.orelse, s.body)
            vs = self.assigned(s.body) + [v for v in self.assigned(s.orelse) if v not in self.assigned(s.body)]
            vs = sorted(set(vs) | ({x} if x in env else set()))
            kinds = {}

            def tail(e2):
                for v in vs:
                    kd = e2.get(v, (None,))[0]
                    if kd != "cell":
                        raise Unsupported("after the branch %s may be None" % v)
                    kinds[v] = kd
                return "(%s)" % ", ".join(["h"] + [e2[v][1] for v in vs])
            env_n = dict(env)
            env_n[x] = ("none", "None")
            env_s = dict(env)
            env_s[x] = ("cell", x + "_c")
            a = self.block(list(none_b), env_n, tail)
            b = self.block(list(some_b), env_s, tail)
            env2 = dict(env)
            for v in vs:
                env2[v] = ("cell", v)
            return "let '(%s) := (match %s with\n  | None => %s\n  | Some %s_c => %s\n  end) in\n  %s" % (
                ", ".join(["h"] + vs), env[x][1], a, x, b, self.block(rest, env2, k))
        raise Unsupported("statement `%s` among the object statements" % ast.unparse(s)[:60])


def gen_first_pass(enc):
    loop = None
    for s in enc.body:
        if isinstance(s, ast.For) and same(s.iter, "self.postorder_edge_iter()") and isinstance(s.target, ast.Name) \
                and s.target.id == "edge":
            loop = s
    if loop is None:
        raise Unsupported("the loop over the edges")
    branch = None
    for s in loop.body:
        if isinstance(s, ast.If) and same(s.test, "num_children == 1 and suppress_unifurcations"):
            branch = s.orelse
            # the unifurcation branch must not touch Bipartition objects
            for n in ast.walk(ast.Module(body=s.body, type_ignores=[])):
                if (isinstance(n, ast.Attribute) and n.attr in ("bipartition", "_bipartition")) or \
                        (isinstance(n, ast.Name) and n.id in ("Bipartition", "_bipartition")):
                    raise Unsupported("the unifurcation branch touches a Bipartition")
        else:
            for n in ast.walk(s):
                if isinstance(n, ast.Attribute) and n.attr in ("bipartition", "_bipartition") and \
                        isinstance(n.ctx, ast.Store):
                    raise Unsupported("a Bipartition is assigned outside the recognised branch")
    if branch is None:
        raise Unsupported("the branch of the loop body that encodes an edge")
    stmts = []
    for s in branch:
        if isinstance(s, ast.If) and same(s.test, "num_children == 0"):
            # value computation of leafset_bitmask (Gen/Bipartition.v); it must only READ bipartitions
            for n in ast.walk(s):
                if isinstance(n, (ast.Attribute, ast.Name)) and isinstance(n.ctx, ast.Store) and \
                        (getattr(n, "attr", None) in ("bipartition", "_bipartition") or
                         (isinstance(n, ast.Attribute) and n.attr in ATTRS)):
                    raise Unsupported("the leafset computation writes to a Bipartition")
            continue
        stmts.append(s)
    c = ObjC()
    body = c.block(stmts, {}, lambda e2: "h")
    return ("(* the object statements of one iteration of the loop of encode_bipartitions (an edge that is kept) *)\n"
            "Definition ogen_first_pass_edge (self_is_rooted : option bool) (leafset_bitmask : Z) (nid : Z) (h : oheap) : oheap :=\n  "
            + body + ".\n")


def gen_compile_edge(cls_body, name):
    fn = find_def(cls_body, name)
    if [a.arg for a in fn.args.args] != ["self", "edge"]:
        raise Unsupported("%s parameters" % name)
    body = [s for s in fn.body if not is_doc(s)]
    if not (len(body) == 2 and isinstance(body[0], ast.Expr) and isinstance(body[0].value, ast.Call)
            and isinstance(body[0].value.func, ast.Attribute) and body[0].value.func.attr == "compile_split_bitmask"
            and isinstance(body[1], ast.Return) and body[1].value is not None):
        raise Unsupported("%s: shape" % name)
    c = ObjC()
    pre1, code1, k1 = c.obj(body[0].value.func.value, {})
    pre2, code2, k2 = c.obj(body[1].value, {})
    if k1 != "cell" or k2 != "cell":
        raise Unsupported("%s: object that may be None" % name)
    lines = pre1 + ["do h <- oh_update %s compile h;;" % code1] + pre2 + ["Ok (h, %s)" % code2]
    return ("(* Tree.%s: compile = the call of compile_split_bitmask with this method's arguments (Gen/Bipartition.v) *)\n"
            "Definition ogen%s (compile : bip -> res bip) (nid : Z) (h : oheap) : res (oheap * Z) :=\n  %s.\n"
            % (name, name, "\n  ".join(lines)))


class TailC:
    def __init__(self):
        self.n = 0

    def lazy(self, e, env):
        """-> code of type oheap -> res (oheap * list Z); a lazy iterator may be consumed once"""
        if same(e, "map(_compile_bipartition, tree_edges)"):
            return "run_map"
        if isinstance(e, ast.Name) and env.get(e.id, (None,))[0] == "lazy":
            if env[e.id][1] is None:
                raise Unsupported("iterator %s consumed twice" % e.id)
            return env[e.id][1]
        raise Unsupported("iterator %s" % ast.unparse(e)[:60])

    def consume(self, e, env):
        env2 = dict(env)
        if isinstance(e, ast.Name):
            env2[e.id] = ("lazy", None)
        return env2

    def block(self, stmts, env, k):
        if not stmts:
            return k(env)
        s, rest = stmts[0], stmts[1:]
        if is_doc(s):
            return self.block(rest, env, k)
        if isinstance(s, ast.Assign) and len(s.targets) == 1:
            t = s.targets[0]
            if isinstance(t, ast.Name):
                code = self.lazy(s.value, env)
                env2 = self.consume(s.value, env)
                env2[t.id] = ("lazy", t.id)
                return "let %s := %s in\n  %s" % (t.id, code, self.block(rest, env2, k))
            if same(t, "self.bipartition_encoding"):
                if isinstance(s.value, ast.Constant) and s.value.value is None:
                    return "let stored := None in\n  %s" % self.block(rest, env, k)
                if isinstance(s.value, ast.Call) and isinstance(s.value.func, ast.Name) and s.value.func.id == "list" \
                        and len(s.value.args) == 1 and not s.value.keywords:
                    code = self.lazy(s.value.args[0], env)
                    env2 = self.consume(s.value.args[0], env)
                    self.n += 1
                    return "do (h, l%d) <- %s h;;\n  let stored := Some l%d in\n  %s" % (
                        self.n, code, self.n, self.block(rest, env2, k))
            raise Unsupported("tail assignment %s" % ast.unparse(s)[:60])
        if isinstance(s, ast.For) and not s.orelse and len(s.body) == 1 and isinstance(s.body[0], ast.Pass):
            code = self.lazy(s.iter, env)
            env2 = self.consume(s.iter, env)
            return "do (h, _) <- %s h;;\n  %s" % (code, self.block(rest, env2, k))
        if isinstance(s, ast.If) and isinstance(s.test, ast.Name) and s.test.id == "suppress_storage":
            tail = lambda e2: "Ok (h, stored)"
            a = self.block(list(s.body), env, tail)
            b = self.block(list(s.orelse), env, tail)
            # an iterator consumed in one branch only cannot be used afterwards
            env2 = dict(env)
            for n in ast.walk(s):
                if isinstance(n, ast.Name) and env.get(n.id, (None,))[0] == "lazy":
                    env2[n.id] = ("lazy", None)
            return "do (h, stored) <- (if suppress_storage then (%s)\n  else (%s));;\n  %s" % (a, b, self.block(rest, env2, k))
        if isinstance(s, ast.Return) and same(s.value, "self.bipartition_encoding"):
            if rest:
                raise Unsupported("statements after the return")
            return "Ok (h, stored)"
        raise Unsupported("tail statement `%s`" % ast.unparse(s)[:60])


def gen_tail(enc):
    body = [s for s in enc.body if not is_doc(s)]
    idx = None
    for i, s in enumerate(body):
        if isinstance(s, ast.If) and isinstance(s.test, ast.Name) and s.test.id == "is_bipartitions_mutable":
            idx = i
    if idx is None:
        raise Unsupported("the choice of the compile function")
    s = body[idx]
    if not (len(s.body) == 1 and len(s.orelse) == 1 and
            D(s.body[0]) == D(ast.parse("_compile_bipartition = self._compile_mutable_bipartition_for_edge").body[0]) and
            D(s.orelse[0]) == D(ast.parse("_compile_bipartition = self._compile_immutable_bipartition_for_edge").body[0])):
        raise Unsupported("the choice of the compile function")
    for s2 in body[:idx]:
        for n in ast.walk(s2):
            if (isinstance(n, ast.Name) and n.id in ("map", "_compile_bipartition")) or \
                    (isinstance(n, ast.Attribute) and n.attr == "bipartition_encoding"):
                raise Unsupported("the encoding list / the compile function is touched before the tail")
    t = TailC()
    code = t.block(body[idx + 1:], {}, lambda e2: (_ for _ in ()).throw(Unsupported("encode_bipartitions ends without return")))
    return ("(* the tail of encode_bipartitions: run_map = map(_compile_bipartition, tree_edges) when it is consumed;\n"
            "   stored = self.bipartition_encoding *)\n"
            "Definition ogen_tail (suppress_storage : bool) (run_map : oheap -> res (oheap * list Z))\n"
            "  (stored : option (list Z)) (h : oheap) : res (oheap * option (list Z)) :=\n  " + code + ".\n")


HEADER = """(* GENERATED by py/dv/gen_bipartition_obj.py from datamodel/treemodel/_tree.py -- do not edit *)
From Coq Require Import ZArith List Bool.
From DV Require Import Model.PyPrims Model.Tree Model.C01Model Model.C01GenPrims Model.C01ObjModel Model.C01ObjPrims.
Import ListNotations.
Open Scope Z_scope.
"""

ASSEMBLY = """(* Tree.encode_bipartitions at the object level.  Which masks: Model/C01Model.v encode_f (Gen/Bipartition.v is
   proved equal to it); compile_mutable / compile_immutable: the compile_split_bitmask calls of the two helpers,
   given self.seed_node.edge.bipartition._leafset_bitmask *)
Definition ogen_encode_bipartitions (suppress_unifurcations collapse_unrooted_basal_bifurcation suppress_storage
  is_bipartitions_mutable : bool) (acc : Z -> Z) (compile_mutable compile_immutable : option Z -> bip -> res bip)
  (s : otree) : res otree :=
  let R := encode_f suppress_unifurcations collapse_unrooted_basal_bifurcation acc (ot_rooted s) (ot_tree s) in
  let tree_edges := r_edges R in
  let h := fold_left (fun h e => ogen_first_pass_edge (r_rooted R) (fst (snd e)) (fst e) h) tree_edges (ot_heap s) in
  let seed_leafset := Some (fst (snd (last tree_edges (0, (0, 0))))) in
  let _compile_bipartition :=
    if is_bipartitions_mutable then ogen_compile_mutable_bipartition_for_edge (compile_mutable seed_leafset)
    else ogen_compile_immutable_bipartition_for_edge (compile_immutable seed_leafset) in
  do (h, stored) <- ogen_tail suppress_storage (oh_map_edges _compile_bipartition (map fst tree_edges)) (ot_stored s) h;;
  Ok (mkOT h (r_tree R) (r_rooted R) stored (ot_saved s ++ [edge_cells h (map fst tree_edges)])).
"""


def generate(repo):
    src = os.path.join(repo, "src", "dendropy")
    with open(os.path.join(src, "datamodel", "treemodel", "_tree.py")) as f:
        tr = ast.parse(f.read())
    cls = [n for n in tr.body if isinstance(n, ast.ClassDef) and n.name == "Tree"]
    if not cls:
        raise Unsupported("class Tree not found")
    enc = find_def(cls[0].body, "encode_bipartitions")
    want = ["self", "suppress_unifurcations", "collapse_unrooted_basal_bifurcation", "suppress_storage",
            "is_bipartitions_mutable"]
    if [a.arg for a in enc.args.args] != want:
        raise Unsupported("encode_bipartitions parameters")
    upd = find_def(cls[0].body, "update_bipartitions")
    ub = [s for s in upd.body if not is_doc(s)]
    if not (len(ub) == 1 and D(ub[0]) == D(ast.parse("self.encode_bipartitions(*args, **kwargs)").body[0])):
        raise Unsupported("update_bipartitions does not just pass its arguments to encode_bipartitions")
    out = [HEADER, gen_first_pass(enc),
           gen_compile_edge(cls[0].body, "_compile_mutable_bipartition_for_edge"),
           gen_compile_edge(cls[0].body, "_compile_immutable_bipartition_for_edge"),
           gen_tail(enc), ASSEMBLY]
    return "\n".join(out)


if __name__ == "__main__":
    import sys
    print(generate(sys.argv[1] if len(sys.argv) > 1 else "/repo"))
