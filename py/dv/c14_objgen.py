"""Object-graph part of the C14 translator (used by gen_pdm.py): the main loops of
PhylogeneticDistanceMatrix.nj_tree / upgma_tree -> Gallina over coq/Model/C14GenObj.v.

Everything from `node_pool = []` to `return tree` is compiled statement by statement (a whitelist of the
shapes these functions use; anything else raises Unsupported).  The statements before it only choose the
table (`original_dmatrix`, a parameter of the generated function) and create the Tree object (its node
factory is the heap's allocator); the iteration order of the set `self._mapped_taxa` is a parameter.
State threaded through the code: the object heap and the rebindable locals; every loop body becomes its own
definition whose parameters are the variables it reads, and whose state is the variables it updates.
"""
import ast
import re
from fractions import Fraction


class Unsupported(Exception):
    pass


COQ_TY = {"obj": "Z", "q": "Q", "oq": "(option Q)", "int": "Z", "opair": "(option (Z * Z))", "lobj": "(list Z)",
          "ltax": "(list Z)", "tax": "Z", "otax": "(option Z)", "tblq": "(tbl Q)", "rowq": "(dict Q)", "dictq": "(dict Q)",
          "setobj": "(list Z)", "heap": "oheap", "bool": "bool", "eint": "(Z * Z)"}

# private attributes of Node objects -> field of the heap record
FIELDS = {"_upgma_cluster": ("cluster", "setobj"), "_upgma_distance_from_tip": ("num", "q"), "_upgma_distances": ("dists", "dictq"),
          "_nj_distances": ("dists", "dictq"), "_nj_xsub": ("num", "q")}
RESERVED = {"node", "heap", "tree", "dict", "tbl", "pdm", "res", "list", "bool", "unit", "option", "fst", "snd"}


def tup_pat(names):
    s = names[0]
    for x in names[1:]:
        s = "(%s, %s)" % (s, x)
    return s


def tup_ty(tys):
    s = COQ_TY[tys[0]]
    for x in tys[1:]:
        s = "(%s * %s)" % (s, COQ_TY[x])
    return s


class Env:
    def __init__(self):
        self.vars = {}      # python name -> (coq name, type)
        self.order = []     # (coq name, type) in binding order

    def copy(self):
        e = Env()
        e.vars, e.order = dict(self.vars), list(self.order)
        return e

    def bind(self, name, ty):
        e = self.copy()
        coq = name + "_" if name in RESERVED else name
        e.vars[name] = (coq, ty)
        e.order = [(c, t) for c, t in e.order if c != coq] + [(coq, ty)]
        return e


def with_binds(binds, body):
    for name, text in reversed(binds):
        body = "do %s <- %s ;;\n%s" % (name, text, body)
    return body


def attr_key(e):
    """x.edge.length / x.taxon / x._private  ->  (base expression, field)"""
    if isinstance(e, ast.Attribute):
        if e.attr == "length" and isinstance(e.value, ast.Attribute) and e.value.attr == "edge":
            return e.value.value, "len"
        if e.attr == "taxon":
            return e.value, "taxon"
        if e.attr in FIELDS:
            return e.value, FIELDS[e.attr][0]
    return None, None


class OC:
    def __init__(self, prefix):
        self.prefix = prefix
        self.defs = []
        self.nloop = 0
        self.tmp = 0
        self.fins = []       # continuation of the innermost enclosing loop body (for `continue`)

    def fresh(self, base):
        self.tmp += 1
        return "%s_%d" % (base, self.tmp)

    def snapshot(self):
        return (len(self.defs), self.nloop, self.tmp)

    def restore(self, s):
        del self.defs[s[0]:]
        self.nloop, self.tmp = s[1], s[2]

    # ------------------------------------------------------------------ expressions
    def heap(self, env):
        return env.vars["heap"][0]

    def expr(self, e, env):
        """-> (binds, text, type)"""
        if isinstance(e, ast.Name):
            if e.id not in env.vars:
                raise Unsupported("unbound variable %s" % e.id)
            return [], env.vars[e.id][0], env.vars[e.id][1]
        if isinstance(e, ast.Constant):
            v = e.value
            if isinstance(v, bool) or v is None:
                raise Unsupported("constant %r here" % (v,))
            if isinstance(v, int):
                return [], ("%d" % v if v >= 0 else "(%d)" % v), "int"
            if isinstance(v, float):
                f = Fraction(v)
                return [], "(%d # %d)%%Q" % (f.numerator, f.denominator), "q"
            raise Unsupported("constant %r" % (v,))
        if isinstance(e, ast.Attribute):
            if isinstance(e.value, ast.Name) and e.value.id == "self" and e.attr == "_mapped_taxa":
                return [], env.vars["mapped_taxa"][0], "ltax"
            if isinstance(e.value, ast.Name) and e.value.id == "tree" and e.attr == "seed_node":
                return self.expr(ast.Name(id="seed_node"), env)
            base, field = attr_key(e)
            if field is None:
                raise Unsupported("attribute %s" % ast.unparse(e))
            b, t, ty = self.expr(base, env)
            if ty != "obj":
                raise Unsupported("attribute of %s" % ty)
            v = self.fresh(field)
            rty = {"len": "q", "taxon": "otax", "cluster": "setobj", "num": "q", "dists": "dictq"}[field]
            return b + [(v, "o_get_%s %s %s" % (field, t, self.heap(env)))], v, rty
        if isinstance(e, ast.Subscript):
            return self.subscript(e, env)
        if isinstance(e, ast.BinOp):
            return self.binop(e, env)
        if isinstance(e, ast.Compare):
            return self.compare(e, env)
        if isinstance(e, ast.BoolOp):
            return self.boolop(e, env)
        if isinstance(e, ast.Tuple) and len(e.elts) == 2:
            b1, t1, y1 = self.expr(e.elts[0], env)
            b2, t2, y2 = self.expr(e.elts[1], env)
            if (y1, y2) != ("obj", "obj"):
                raise Unsupported("tuple of %s, %s" % (y1, y2))
            return b1 + b2, "(%s, %s)" % (t1, t2), "pair"
        if isinstance(e, ast.Dict) and not e.keys:
            return [], "[]", "dictq"
        if isinstance(e, ast.Call):
            return self.call(e, env)
        raise Unsupported("expression %s" % ast.unparse(e)[:60])

    def num(self, b, t, ty):
        """a value used as a float operand"""
        if ty == "q":
            return b, t
        if ty == "int":
            return b, "(inject_Z %s)" % t
        if ty == "oq":
            v = self.fresh("num")
            return b + [(v, "py_num %s" % t)], v
        raise Unsupported("%s used as a number" % ty)

    def binop(self, e, env):
        lb, lt, ly = self.expr(e.left, env)
        rb, rt, ry = self.expr(e.right, env)
        op = type(e.op).__name__
        if ly == ry == "int" and op in ("Add", "Sub", "Mult"):
            return lb + rb, "(%s %s %s)" % (lt, {"Add": "+", "Sub": "-", "Mult": "*"}[op], rt), "int"
        lb, lt = self.num(lb, lt, ly)
        rb, rt = self.num(rb, rt, ry)
        if op in ("Add", "Sub", "Mult"):
            return lb + rb, "(%s %s %s)" % ({"Add": "qadd", "Sub": "qsub", "Mult": "qmul"}[op], lt, rt), "q"
        if op == "Div":
            v = self.fresh("quo")
            return lb + rb + [(v, "qdiv %s %s" % (lt, rt))], v, "q"
        raise Unsupported("operator %s" % op)

    def compare(self, e, env):
        if len(e.ops) != 1:
            raise Unsupported("chained comparison")
        op = type(e.ops[0]).__name__
        lb, lt, ly = self.expr(e.left, env)
        if isinstance(e.comparators[0], ast.Constant) and e.comparators[0].value is None:
            if ly not in ("oq", "opair") or op not in ("Is", "IsNot"):
                raise Unsupported("None test on %s" % ly)
            t = "(match %s with None => true | Some _ => false end)" % lt
            return lb, (t if op == "Is" else "(negb %s)" % t), "bool"
        rb, rt, ry = self.expr(e.comparators[0], env)
        if ly == ry == "obj" and op in ("Is", "IsNot"):
            t = "(Z.eqb %s %s)" % (lt, rt)
            return lb + rb, (t if op == "Is" else "(negb %s)" % t), "bool"
        if ly == ry == "int" and op in ("Lt", "Gt", "LtE", "GtE", "Eq", "NotEq"):
            sym = {"Lt": "<?", "Gt": ">?", "LtE": "<=?", "GtE": ">=?", "Eq": "=?"}.get(op)
            if sym is None:
                return lb + rb, "(negb (%s =? %s))" % (lt, rt), "bool"
            return lb + rb, "(%s %s %s)" % (lt, sym, rt), "bool"
        if op == "Lt" and ly in ("q", "int", "oq") and ry in ("q", "int", "oq"):
            lb, lt = self.num(lb, lt, ly)
            rb, rt = self.num(rb, rt, ry)
            return lb + rb, "(qlt %s %s)" % (lt, rt), "bool"
        raise Unsupported("comparison %s of %s, %s" % (op, ly, ry))

    def boolop(self, e, env):
        # `x is None or <test using x as a number>`: the second operand is evaluated only when x is not None
        if isinstance(e.op, ast.Or) and len(e.values) == 2:
            a, b = e.values
            if isinstance(a, ast.Compare) and isinstance(a.left, ast.Name) and len(a.ops) == 1 and isinstance(a.ops[0], ast.Is) \
                    and isinstance(a.comparators[0], ast.Constant) and a.comparators[0].value is None \
                    and a.left.id in env.vars and env.vars[a.left.id][1] == "oq":
                x = env.vars[a.left.id][0]
                v = self.fresh(a.left.id + "_v")
                env2 = env.copy()
                env2.vars[a.left.id] = (v, "q")
                bb, bt, by = self.expr(b, env2)
                if by != "bool":
                    raise Unsupported("or-operand of type %s" % by)
                # binds of the second operand that do not mention the narrowed value can be hoisted
                if any(re.search(r"\b%s\b" % re.escape(v), txt) for _, txt in bb):
                    raise Unsupported("raising sub-expression under `or`")
                return bb, "(match %s with None => true | Some %s => %s end)" % (x, v, bt), "bool"
        raise Unsupported("boolean operator shape %s" % ast.unparse(e)[:60])

    def subscript(self, e, env):
        sl = e.slice
        vb, vt, vy = self.expr(e.value, env)
        if isinstance(sl, ast.Slice):
            if vy != "lobj" or sl.step is not None:
                raise Unsupported("slice of %s" % vy)
            if sl.lower is None and isinstance(sl.upper, ast.UnaryOp) and isinstance(sl.upper.op, ast.USub) \
                    and isinstance(sl.upper.operand, ast.Constant) and sl.upper.operand.value == 1:
                return vb, "(py_drop_last %s)" % vt, "lobj"
            if sl.upper is None and sl.lower is not None:
                lb, lt, ly = self.expr(sl.lower, env)
                if ly != "int":
                    raise Unsupported("slice bound")
                return vb + lb, "(py_slice_from %s %s)" % (vt, lt), "lobj"
            raise Unsupported("slice shape")
        if vy == "opair":
            if not (isinstance(sl, ast.Constant) and sl.value in (0, 1)):
                raise Unsupported("pair index")
            v = self.fresh("item")
            return vb + [(v, "py_pair_item %s %d" % (vt, sl.value))], v, "obj"
        if vy == "lobj":
            if not (isinstance(sl, ast.Constant) and isinstance(sl.value, int) and sl.value >= 0):
                raise Unsupported("list index")
            v = self.fresh("item")
            return vb + [(v, "py_index %s %d" % (vt, sl.value))], v, "obj"
        kb, kt, ky = self.expr(sl, env)
        if vy == "dictq" and ky == "obj":
            v = self.fresh("ent")
            return vb + kb + [(v, "qget %s %s" % (vt, kt))], v, "q"
        if vy in ("tblq", "rowq") and ky in ("otax", "tax"):
            key = "(tax_key none_key %s)" % kt if ky == "otax" else kt
            v = self.fresh("row" if vy == "tblq" else "ent")
            return (vb + kb + [(v, "(match dget %s %s with Some r => Ok r | None => Err KeyErr end)" % (key, vt))], v,
                    "rowq" if vy == "tblq" else "q")
        raise Unsupported("subscript %s[%s]" % (vy, ky))

    def call(self, e, env):
        f = e.func
        if isinstance(f, ast.Name) and f.id == "len" and len(e.args) == 1:
            b, t, y = self.expr(e.args[0], env)
            if y not in ("lobj", "ltax", "setobj"):
                raise Unsupported("len of %s" % y)
            return b, "(py_len %s)" % t, "int"
        if isinstance(f, ast.Name) and f.id == "set" and len(e.args) <= 1:
            if not e.args:
                return [], "(@nil Z)", "setobj"
            a = e.args[0]
            if isinstance(a, ast.List) and len(a.elts) == 1:
                b, t, y = self.expr(a.elts[0], env)
                if y == "obj":
                    return b, "[%s]" % t, "setobj"
            raise Unsupported("set(...) shape")
        if isinstance(f, ast.Name) and f.id == "enumerate" and len(e.args) == 1:
            b, t, y = self.expr(e.args[0], env)
            if y != "lobj":
                raise Unsupported("enumerate of %s" % y)
            return b, "(py_enumerate %s)" % t, "lenum"
        raise Unsupported("call %s" % ast.unparse(e)[:60])

    # ------------------------------------------------------------------ statements
    def st_pat(self, env, svars):
        return tup_pat([env.vars[v][0] for v in svars])

    def st_ty(self, env, svars):
        return tup_ty([env.vars[v][1] for v in svars])

    def stmts(self, ss, env, svars, kont):
        if not ss:
            return kont(env)
        s, rest = ss[0], ss[1:]
        nxt = lambda e2: self.stmts(rest, e2, svars, kont)
        H = self.heap(env) if "heap" in env.vars else None

        if isinstance(s, ast.Continue):
            return self.fins[-1](env)
        if isinstance(s, ast.Return):
            if not (isinstance(s.value, ast.Name) and s.value.id == "tree") or rest:
                raise Unsupported("return shape")
            return "Ok (%s, %s)" % (env.vars["seed_node"][0], H)
        if isinstance(s, ast.Assign) and len(s.targets) == 1:
            return self.assign(s.targets[0], s.value, env, nxt)
        if isinstance(s, ast.AugAssign):
            return self.aug(s, env, nxt)
        if isinstance(s, ast.Delete):
            code = None
            binds = []
            hs = H
            for t in s.targets:
                base, field = attr_key(t)
                if field not in ("cluster", "num", "dists"):
                    raise Unsupported("del %s" % ast.unparse(t))
                b, bt, by = self.expr(base, env)
                if by != "obj":
                    raise Unsupported("del on %s" % by)
                binds += b + [(H, "o_del_%s %s %s" % (field, bt, H))]
            return with_binds(binds, nxt(env))
        if isinstance(s, ast.Expr) and isinstance(s.value, ast.Call):
            return self.callstmt(s.value, env, nxt)
        if isinstance(s, ast.If):
            return self.if_(s, rest, env, svars, kont)
        if isinstance(s, ast.For):
            return self.for_(s, env, svars, nxt)
        if isinstance(s, ast.While):
            return self.while_(s, env, svars, nxt)
        raise Unsupported("statement %s" % type(s).__name__)

    def assign(self, tgt, val, env, nxt):
        H = self.heap(env)
        if isinstance(tgt, ast.Name):
            name = tgt.id
            # x = tree.node_factory()
            if isinstance(val, ast.Call) and isinstance(val.func, ast.Attribute) and val.func.attr == "node_factory" \
                    and isinstance(val.func.value, ast.Name) and val.func.value.id == "tree" and not val.args:
                env2 = env.bind(name, "obj")
                return "let '(%s, %s) := py_node_factory %s in\n%s" % (env2.vars[name][0], H, H, nxt(env2))
            # x = None: the type is the one for which the rest type-checks
            if isinstance(val, ast.Constant) and val.value is None:
                last = None
                for cand in ("oq", "opair"):
                    snap = self.snapshot()
                    try:
                        env2 = env.bind(name, cand)
                        return "let %s := (@None %s) in\n%s" % (env2.vars[name][0], COQ_TY[cand][8:-1], nxt(env2))
                    except Unsupported as ex:
                        self.restore(snap)
                        last = ex
                raise Unsupported("no type fits %s = None (%s)" % (name, last))
            if isinstance(val, ast.List) and not val.elts:
                env2 = env.bind(name, "lobj")
                return "let %s := (@nil Z) in\n%s" % (env2.vars[name][0], nxt(env2))
            b, t, y = self.expr(val, env)
            if name in env.vars and env.vars[name][1] in ("oq", "opair"):
                # re-binding a variable that started as None
                want = {"oq": "q", "opair": "pair"}[env.vars[name][1]]
                if y != want:
                    raise Unsupported("%s := %s" % (env.vars[name][1], y))
                return with_binds(b, "let %s := Some %s in\n%s" % (env.vars[name][0], t, nxt(env)))
            if y == "pair":
                raise Unsupported("pair bound to a fresh variable")
            env2 = env.bind(name, y)
            return with_binds(b, "let %s := %s in\n%s" % (env2.vars[name][0], t, nxt(env2)))
        if isinstance(tgt, ast.Attribute) and isinstance(tgt.value, ast.Name) and tgt.value.id == "tree" and tgt.attr == "seed_node":
            b, t, y = self.expr(val, env)
            if y != "obj":
                raise Unsupported("seed_node := %s" % y)
            env2 = env.bind("seed_node", "obj")
            return with_binds(b, "let %s := %s in\n%s" % (env2.vars["seed_node"][0], t, nxt(env2)))
        base, field = attr_key(tgt)
        if field is not None:
            bb, bt, by = self.expr(base, env)
            vb, vt, vy = self.expr(val, env)
            if by != "obj":
                raise Unsupported("attribute store on %s" % by)
            if field == "taxon" and vy == "tax":
                vt = "(Some %s)" % vt
            elif field in ("len", "num"):
                vb, vt = self.num(vb, vt, vy)
            elif (field, vy) not in (("cluster", "setobj"), ("dists", "dictq")):
                raise Unsupported("%s := %s" % (field, vy))
            return with_binds(bb + vb + [(H, "o_set_%s %s %s %s" % (field, bt, vt, H))], nxt(env))
        if isinstance(tgt, ast.Subscript):
            base, field = attr_key(tgt.value)
            if field == "dists":
                bb, bt, by = self.expr(base, env)
                kb, kt, ky = self.expr(tgt.slice, env)
                vb, vt, vy = self.expr(val, env)
                vb, vt = self.num(vb, vt, vy)
                if (by, ky) != ("obj", "obj"):
                    raise Unsupported("dict store %s[%s]" % (by, ky))
                d = self.fresh("dists")
                return with_binds(bb + kb + vb + [(d, "o_get_dists %s %s" % (bt, H)),
                                                   (H, "o_set_dists %s (dset %s %s %s) %s" % (bt, kt, vt, d, H))], nxt(env))
        raise Unsupported("assignment to %s" % ast.unparse(tgt)[:60])

    def aug(self, s, env, nxt):
        op = {"Add": "qadd", "Sub": "qsub"}.get(type(s.op).__name__)
        if op is None:
            raise Unsupported("augmented operator")
        H = self.heap(env)
        vb, vt, vy = self.expr(s.value, env)
        if isinstance(s.target, ast.Name):
            name = s.target.id
            cur, cy = env.vars[name]
            if cy == "int" and vy == "int":
                return with_binds(vb, "let %s := (%s %s %s) in\n%s" % (cur, cur, "+" if op == "qadd" else "-", vt, nxt(env)))
            if cy != "q":
                raise Unsupported("augmented assignment to %s" % cy)
            vb, vt = self.num(vb, vt, vy)
            return with_binds(vb, "let %s := (%s %s %s) in\n%s" % (cur, op, cur, vt, nxt(env)))
        base, field = attr_key(s.target)
        if field != "num":
            raise Unsupported("augmented target %s" % ast.unparse(s.target))
        bb, bt, by = self.expr(base, env)
        vb, vt = self.num(vb, vt, vy)
        old = self.fresh("num")
        # Python evaluates the target's old value, then the right-hand side
        return with_binds(bb + [(old, "o_get_num %s %s" % (bt, H))] + vb +
                          [(H, "o_set_num %s (%s %s %s) %s" % (bt, op, old, vt, H))], nxt(env))

    def callstmt(self, c, env, nxt):
        f = c.func
        H = self.heap(env)
        if not isinstance(f, ast.Attribute) or len(c.args) != 1 or c.keywords:
            raise Unsupported("call statement %s" % ast.unparse(c)[:60])
        if isinstance(f.value, ast.Name) and f.value.id in env.vars and env.vars[f.value.id][1] == "lobj":
            lst = env.vars[f.value.id][0]
            b, t, y = self.expr(c.args[0], env)
            if y != "obj":
                raise Unsupported("%s of %s" % (f.attr, y))
            if f.attr == "append":
                return with_binds(b, "let %s := %s ++ [%s] in\n%s" % (lst, lst, t, nxt(env)))
            if f.attr == "remove":
                return with_binds(b + [(lst, "py_list_remove %s %s" % (t, lst))], nxt(env))
        if f.attr == "add_child":
            pb, pt, py_ = self.expr(f.value, env)
            b, t, y = self.expr(c.args[0], env)
            if (py_, y) != ("obj", "obj"):
                raise Unsupported("add_child types")
            return with_binds(pb + b + [(H, "o_add_child %s %s %s" % (pt, t, H))], nxt(env))
        if f.attr == "update":
            base, field = attr_key(f.value)
            if field == "cluster":
                pb, pt, py_ = self.expr(base, env)
                cur = self.fresh("cluster")
                b, t, y = self.expr(c.args[0], env)
                if py_ != "obj" or y != "setobj":
                    raise Unsupported("update types")
                return with_binds(pb + [(cur, "o_get_cluster %s %s" % (pt, H))] + b +
                                  [(H, "o_set_cluster %s (py_set_union %s %s) %s" % (pt, cur, t, H))], nxt(env))
        raise Unsupported("call statement %s" % ast.unparse(c)[:60])

    # ---- control
    def assigned(self, ss):
        out = []
        for s in ss:
            for n in ast.walk(s):
                if isinstance(n, (ast.Assign, ast.AugAssign)):
                    for t in (n.targets if isinstance(n, ast.Assign) else [n.target]):
                        if isinstance(t, ast.Name) and t.id not in out:
                            out.append(t.id)
                if isinstance(n, ast.Call) and isinstance(n.func, ast.Attribute) and n.func.attr in ("append", "remove") \
                        and isinstance(n.func.value, ast.Name) and n.func.value.id not in out:
                    out.append(n.func.value.id)
        return out

    def touches_heap(self, ss):
        for s in ss:
            for n in ast.walk(s):
                if isinstance(n, (ast.Assign, ast.AugAssign, ast.Delete)):
                    for t in (n.targets if isinstance(n, (ast.Assign, ast.Delete)) else [n.target]):
                        if isinstance(t, (ast.Attribute, ast.Subscript)):
                            return True
                if isinstance(n, ast.Call) and isinstance(n.func, ast.Attribute) and n.func.attr in ("add_child", "update", "node_factory"):
                    return True
        return False

    def carried(self, body, env, exclude=()):
        out = ["heap"] if self.touches_heap(body) else []
        for name in self.assigned(body):
            if name in env.vars and name not in out and name not in exclude:
                out.append(name)
        return out

    def lift(self, kind, body_code, env, carried, arg=None):
        """emit a definition for a loop body; returns the applied head `name p1 .. pk`"""
        self.nloop += 1
        name = "%s_%s%d" % (self.prefix, kind, self.nloop)
        state_coq = [env.vars[v][0] for v in carried]
        arg_names = set(re.findall(r"[A-Za-z_][A-Za-z_0-9']*", arg[0])) if arg else set()
        params = [(c, t) for c, t in env.order
                  if c not in state_coq and c not in arg_names
                  and re.search(r"(?<![A-Za-z_0-9'])%s(?![A-Za-z_0-9'])" % re.escape(c), body_code)]
        sty = self.st_ty(env, carried)
        head = "Definition %s %s" % (name, "".join("(%s : %s) " % (c, COQ_TY[t]) for c, t in params))
        if arg:
            head += "(x_ : %s) " % arg[1]
        text = "%s(s_ : %s) : res %s :=\n" % (head, sty, sty)
        if arg:
            text += "let '%s := x_ in\n" % arg[0]
        text += "let '%s := s_ in\n%s." % (self.st_pat(env, carried), body_code)
        self.defs.append(text)
        return "%s%s" % (name, "".join(" " + c for c, _ in params))

    def for_(self, s, env, svars, nxt):
        if s.orelse:
            raise Unsupported("for-else")
        b, t, y = self.expr(s.iter, env)
        if y == "opair":
            v = self.fresh("items")
            b, t, y = b + [(v, "py_iter_pair %s" % t)], v, "lobj"
        env_b = env
        if y == "lenum":
            if not (isinstance(s.target, ast.Tuple) and len(s.target.elts) == 2 and all(isinstance(x, ast.Name) for x in s.target.elts)):
                raise Unsupported("enumerate target")
            env_b = env_b.bind(s.target.elts[0].id, "int").bind(s.target.elts[1].id, "obj")
            arg = ("(%s, %s)" % (env_b.vars[s.target.elts[0].id][0], env_b.vars[s.target.elts[1].id][0]), "(Z * Z)")
            tnames = [x.id for x in s.target.elts]
        elif y in ("lobj", "ltax"):
            if not isinstance(s.target, ast.Name):
                raise Unsupported("for target")
            env_b = env_b.bind(s.target.id, "obj" if y == "lobj" else "tax")
            arg = (env_b.vars[s.target.id][0], "Z")
            tnames = [s.target.id]
        else:
            raise Unsupported("for over %s" % y)
        carried = self.carried(s.body, env, exclude=tnames)
        if not carried:
            raise Unsupported("loop without effect")
        fin = lambda e: "Ok %s" % self.st_pat(e, carried)
        self.fins.append(fin)
        body = self.stmts(list(s.body), env_b, carried, fin)
        self.fins.pop()
        head = self.lift("for", body, env, carried, arg)
        r = self.fresh("st")
        pat = self.st_pat(env, carried)
        return with_binds(b, "do %s <- py_for %s (%s) %s ;;\nlet '%s := %s in\n%s" % (r, t, head, pat, pat, r, nxt(env)))

    def while_(self, s, env, svars, nxt):
        if s.orelse:
            raise Unsupported("while-else")
        carried = self.carried(s.body, env)
        cb, ct, cy = self.expr(s.test, env)
        if cb or cy != "bool":
            raise Unsupported("while test")
        fin = lambda e: "Ok %s" % self.st_pat(e, carried)
        self.fins.append(fin)
        body = self.stmts(list(s.body), env, carried, fin)
        self.fins.pop()
        head = self.lift("while", body, env, carried)
        pat = self.st_pat(env, carried)
        r = self.fresh("st")
        return "do %s <- py_while fuel (fun s_ => let '%s := s_ in %s) (%s) %s ;;\nlet '%s := %s in\n%s" % (
            r, pat, ct, head, pat, pat, r, nxt(env))

    def ends(self, ss):
        return bool(ss) and isinstance(ss[-1], (ast.Continue, ast.Return))

    def if_(self, s, rest, env, svars, kont):
        b, c, y = self.expr(s.test, env)
        if y != "bool":
            raise Unsupported("if on %s" % y)
        nxt = lambda e2: self.stmts(rest, e2, svars, kont)
        # a single re-binding of variables that are already bound, no else: conditional values
        if self.ends(s.body) and not s.orelse:
            return with_binds(b, "if %s\nthen %s\nelse %s" % (c, self.stmts(list(s.body), env, svars, kont), nxt(env)))
        names = self.assigned(list(s.body) + list(s.orelse))
        if not rest:
            ka = self.stmts(list(s.body), env, svars, kont)
            kb = self.stmts(list(s.orelse), env, svars, kont)
            return with_binds(b, "if %s\nthen %s\nelse %s" % (c, ka, kb))
        # state that flows out of the branches: the enclosing state + locals both (re)bound
        out = list(svars) + [n for n in names if n in env.vars and n not in svars]
        if "heap" not in out and self.touches_heap(list(s.body) + list(s.orelse)):
            out.append("heap")
        fin = lambda e: "Ok %s" % self.st_pat(e, out)
        ka = self.stmts(list(s.body), env, svars, fin)
        kb = self.stmts(list(s.orelse), env, svars, fin)
        r = self.fresh("st")
        pat = self.st_pat(env, out)
        return with_binds(b, "do %s <- (if %s\nthen %s\nelse %s) ;;\nlet '%s := %s in\n%s" % (r, c, ka, kb, pat, r, nxt(env)))


def compile_tree_builder(fdef, prefix):
    """the statements of nj_tree / upgma_tree from `node_pool = []` on"""
    body = [s for s in fdef.body if not (isinstance(s, ast.Expr) and isinstance(s.value, ast.Constant))]
    start = None
    for i, s in enumerate(body):
        if isinstance(s, ast.Assign) and len(s.targets) == 1 and isinstance(s.targets[0], ast.Name) and s.targets[0].id == "node_pool":
            start = i
            break
    if start is None:
        raise Unsupported("%s: no `node_pool = []`" % fdef.name)
    # the preamble may only choose the table and create the tree
    for s in body[:start]:
        txt = ast.unparse(s)
        if not (isinstance(s, (ast.If, ast.Assign)) and re.search(r"original_dmatrix|tree_factory|tree\b", txt)):
            raise Unsupported("%s: unexpected statement before the node pool: %s" % (fdef.name, txt[:60]))
    oc = OC(prefix)
    env = Env().bind("original_dmatrix", "tblq").bind("mapped_taxa", "ltax").bind("heap", "heap")
    code = oc.stmts(body[start:], env, ["heap"], lambda e: (_ for _ in ()).throw(Unsupported("no return")))
    main = ("Definition %s (fuel : nat) (original_dmatrix : tbl Q) (mapped_taxa : list Z) : res (Z * oheap) :=\n"
            "let heap_ := oheap_empty in\n%s." % (prefix, code))
    return "\n\n".join(oc.defs + [main])
