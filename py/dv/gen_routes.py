"""Translator: the NEXUS / Newick reading-route code of DendroPy -> coq/Gen/Routes.v  (property C13).

generate(repo) parses, with `ast`, the CURRENT text of
  src/dendropy/dataio/nexusreader.py    (class NexusReader: the methods in PLAN)
  src/dendropy/dataio/nexusyielder.py   (class NexusTreeDataYielder: its own two block loops)
  src/dendropy/dataio/newickreader.py / newickyielder.py (the statement loops)
  src/dendropy/datamodel/treemodel/_tree.py, treecollectionmodel.py (offset selection of the entry points)
and compiles every function statement by statement into Gallina over the run-time library
coq/Model/C13GenPrims.v (interface operations: the tokenizer object's methods, namespace / tree-list
objects, the reader methods that are not translated).  It is a compiler for a whitelisted subset, not
a table of known bodies: statement order, branch structure, comparison operators and directions,
string literals, callee names, positional / keyword arguments, which variable or attribute is
assigned, loop conditions, break / return / raise / yield are all read off the AST; anything outside
the subset raises Unsupported (py2coq then writes a stub, so every dependent proof breaks).

Shapes
  * a method becomes   g_<name> (fuel : nat) (s : gst) <params> : res (<ret> * <in-out params> * gst)
    a generator        g_<name> (fuel : nat) (s : gst) <params> : yres T (<ret> * gst)
    (the trees handed out so far and how the generator ended: a prefix is delivered before an error)
  * statements are compiled in continuation-passing style; every operation that can raise or that
    changes the reader / tokenizer is bound (`do r <- op ;; ..` / `ybind`), in Python's order
  * `while c: body` -> one Fixpoint on explicit fuel per loop, its arguments are the variables
    that are assigned in the body and defined before the loop (plus the variables it only reads);
    `break` returns them; inner calls get the current fuel, the recursion the predecessor - the
    equalities proved in Proofs/C13Gen*.v carry over the fuel-sufficiency theorems of the model
  * `if X is None: raise ..` on an optional tree refines X to a tree in the rest of the function
  * `raise self._nexus_error(..)` etc. -> Err <class of PyPrims.err> (table RAISES: every error
    constructor used here builds a subclass of DataParseError)
  * reader configuration that is constant for every tree route is folded (table CONFIG): the
    branch for characters being read (`if not self.exclude_chars`), `store_ignored_blocks` and the
    automatically_*_missing_taxa_blocks options are not compiled
  * the two entry points (table ENTRY) are compiled without a reader state (`s : unit`): the objects their
    plumbing statements create (reader, label keyword, target list) are parameters, the plumbing
    statements themselves must be present verbatim (table `setup`), `reader.attached_taxon_namespace = ..`
    and which factories are passed to read_tree_lists ARE compiled
  * locals not in a function's declared table get the type of the assignment that determines one, so a
    renamed local keeps compiling; declared names fix the order of loop-carried variables

Translated (27 functions: 27 Definitions + 16 loop Fixpoints): NexusReader._new_taxon_namespace, _get_taxon_namespace, _get_taxon_symbol_mapper, _new_tree_list,
_parse_taxlabels_statement, _parse_translate_statement, _consume_to_end_of_block, _parse_title_statement,
_parse_link_statement, _parse_dimensions_statement, _parse_tree_statement, _parse_characters_data_block (exclude_chars),
_parse_trees_block, _parse_taxa_block, _parse_nexus_stream, _read; NexusTreeDataYielder._yield_from_trees_block,
_yield_items_from_stream; NewickTreeDataYielder._yield_items_from_stream; NewickReader.tree_iter, _read;
DataReader.read_tree_lists, read_dataset; Tree._parse_and_create_from_stream, TreeList._parse_and_create_from_stream,
DataSet._parse_and_create_from_stream, TreeArray.read_from_files.
Further shapes
  * `for x in <finite list>` / `enumerate(..)` / an iterator value -> for_res (a monadic fold; the body may raise)
  * `try: x = ns.require_taxon(label=..) except ImmutableTaxonNamespaceError: <raise an error built by a constructor>`
    -> one atomic operation whose result None is the exception; <namespace>.is_mutable is followed as a local
    (a call of a compiled method that constructs a NexusTaxonSymbolMapper over its argument sets it False)
  * reader-level methods (_read, read_tree_lists, read_dataset): the reader attributes they assign are followed as
    locals `v_self__<attr>` and become the configuration (nscfg, tl_factory, exclude_trees) of the compiled
    _parse_nexus_stream; `self._read` (dispatched on the reader's class) is a function parameter
  * factory expressions are values: lambda label: <namespace> -> fac_const, dataset.new_taxon_namespace -> FacNew,
    dataset.new_tree_list -> Some TLNew, tree_list._tree_list_pseudofactory -> TLFixed, TreeList / lambda -> TLNew
Symbol mapper (wave 6): class NexusTaxonSymbolMapper is compiled by py/dv/gen_routes_mapper.py (Gen/RoutesMapper.v); here its
construction (ifc_new_mapper), <mapper>.add_translate_token (ifc_mapper_add_token) and <mapper>.lookup_taxon_symbol(symbol,
create_taxon_if_not_found=b) (ifc_mapper_lookup; followed by `if taxon is None:`) are operations proved to BE the compiled methods
(Proofs/C13MapperTie.v).  The default of a bool parameter of a compiled method (enable_lookup_by_taxon_number) is read off the AST:
a caller that omits the argument gets the current default, so a change of the default changes the callers' compiled code.
Interface operations (not translated): tokenizer methods (token record model), NewickReader._parse_tree_statement (abstract;
property C02 compiles it), atomic operations on TaxonNamespace / Taxon / TreeList objects and label sets, comment
processing, construction of the fresh reader state, which class get_reader / get_tree_yielder instantiate.
"""
import ast
import os


class Unsupported(Exception):
    pass


OUTPUT = "Routes.v"

# configuration attributes with a fixed value on every route of the property
CONFIG = {"exclude_chars": True, "store_ignored_blocks": False, "assume_newick_if_not_nexus": False,
          "automatically_substitute_missing_taxa_blocks": False, "automatically_create_missing_taxa_blocks": False,
          "unconstrained_taxa_accumulation_mode": False,
          "_ignored_blocks": False}      # (truthiness) nothing is stored with store_ignored_blocks = False
# attributes of the objects the routes create that are constant: <TaxonNamespace>.is_case_sensitive
OBJ_CONFIG = {("ons", "is_case_sensitive"): False}
# configuration attributes kept as parameters of the generated section
CONFIG_VARS = {"exclude_trees": "et"}

# error constructors -> class in PyPrims.err
RAISES = {"_nexus_error": "ParseErr", "_too_many_taxa_error": "ParseErr", "_undefined_taxon_error": "ParseErr"}

COQ_TYPES = {
    "ostr": "option str", "str": "str", "bool": "bool", "ons": "option nat", "omap": "option (gmap)",
    "otl": "option nat", "factory": "option nat", "comments": "list str", "otree": "option T", "tree": "T",
    "links": "links", "unit": "unit", "int": "Z", "olist": "list (list T)", "tlist": "list T", "oint": "option Z",
    "reader": "reader_obj T", "doc": "doc", "ns": "nat", "nslist": "list nat",
    "otaxon": "otaxon", "sset": "sset", "otaxonlist": "list otaxon",
    "nsfac": "tns_factory", "otlfac": "option tl_factory", "ounit": "option unit", "product": "gst", "tllist": "list nat",
    "reader_read": "reader_read_t T", "odataset": "option nat", "dsval": "dsval T", "yielder": "yielder_t T",
}

# attributes of the reader object that the reader-level methods (_read, read_tree_lists, read_dataset) assign and
# hand on: they are followed as locals `v_self__<attr>`; the ones a method reads before assigning are its inputs
SELF_ATTRS = {"_taxon_namespace_factory": "nsfac", "_tree_list_factory": "otlfac", "exclude_trees": "bool",
              "_char_matrix_factory": "ounit", "exclude_chars": "bool", "_state_alphabet_factory": "ounit",
              "_global_annotations_target": "ounit", "_product": "product", "attached_taxon_namespace": "ons"}
SELF_IN = ["attached_taxon_namespace", "exclude_trees", "exclude_chars"]

# builtin exception classes -> class in PyPrims.err
BUILTIN_RAISES = {"ValueError": "ValueErr", "IndexError": "IndexErr", "TypeError": "TypeErr"}

# tokenizer methods: name -> (primitive, needs fuel, result type, exact argument shape or None)
TOKENIZER = {
    "next_token": ("tk_next_token", False, "ostr"),
    "require_next_token": ("tk_require_next_token", False, "ostr"),
    "next_token_ucase": ("tk_next_token_ucase", False, "ostr"),
    "require_next_token_ucase": ("tk_require_next_token_ucase", False, "ostr"),
    "skip_to_semicolon": ("tk_skip_to_semicolon", True, "unit"),
    "cast_current_token_to_ucase": ("tk_cast_ucase", False, "ostr"),
    "pull_captured_comments": ("tk_pull_comments", False, "comments"),
    "process_and_clear_comments_for_item": ("tk_process_and_clear", False, "unit"),
}

# reader methods that are interface operations: name -> (primitive, fuel?, [(kw or position, type)], result type, in-out argument index or None)
INTERFACE = {
    "_get_taxon_namespace": ("ifc_get_taxon_namespace", False, [("0|title", "ostr")], "ons", None),
    "_get_taxon_symbol_mapper": ("ifc_get_taxon_symbol_mapper", False, [("taxon_namespace", "ons")], "omap", None),
    "_parse_translate_statement": ("ifc_parse_translate", True, [("0|taxon_namespace", "ons")], "omap", None),
    "_parse_taxa_block": ("ifc_parse_taxa_block", True, [], "unit", None),
    "_new_taxon_namespace": ("ifc_new_taxon_namespace", False, [("0|title", "ostr", "None")], "ons", None),
    "_taxon_namespace_factory": ("ifc_ns_factory", False, [("label", "ostr")], "ons", None),
    "_tree_list_factory": ("ifc_tree_list_factory", False, [("taxon_namespace", "ons"), ("label", "ostr")], "otl", None),
    "_parse_taxlabels_statement": ("ifc_parse_taxlabels", True, [("0|taxon_namespace", "ons")], "unit", None),
    "_new_tree_list": ("ifc_new_tree_list", False, [("taxon_namespace", "ons"), ("title", "ostr")], "otl", None),
    "_build_tree_from_newick_tree_string": ("ifc_build_tree", False, [("0|tree_factory", "factory"), ("1|taxon_symbol_mapper", "omap")], "otree", 1),
}

# (file key, class, function) -> spec
PLAN = [
    ("nr", "NexusReader", "_new_taxon_namespace",
     dict(params=[("title", "ostr", "None")], locals={"taxon_namespace": "ons"}, ret="ons")),
    ("nr", "NexusReader", "_get_taxon_namespace",
     dict(params=[("title", "ostr", "None")], locals={"found": "nslist", "tns": "ns"}, ret="ons")),
    ("nr", "NexusReader", "_get_taxon_symbol_mapper",
     dict(params=[("taxon_namespace", "ons"), ("enable_lookup_by_taxon_number", "bool", "true")],
          locals={"taxon_symbol_mapper": "omap"}, ret="omap")),
    ("nr", "NexusReader", "_new_tree_list",
     dict(params=[("taxon_namespace", "ons"), ("title", "ostr", "None")], locals={"tree_list": "otl"}, ret="otl")),
    ("nr", "NexusReader", "_parse_taxlabels_statement",
     dict(params=[("taxon_namespace", "ons", "None")],
          locals={"token": "ostr", "label_set": "sset", "taxon": "otaxon", "label": "ostr", "check_label": "ostr"}, ret="unit")),
    ("nr", "NexusReader", "_parse_translate_statement",
     dict(params=[("taxon_namespace", "ons")], const_params={"taxon_symbol_mapper": "None"},
          locals={"token": "ostr", "taxon_symbol_mapper": "omap", "translation_token": "ostr", "translation_label": "ostr",
                  "taxon": "otaxon"}, ret="omap")),
    ("nr", "NexusReader", "_consume_to_end_of_block",
     dict(params=[("token", "ostr")], locals={}, ret="ostr")),
    ("nr", "NexusReader", "_parse_title_statement",
     dict(params=[], locals={"title": "ostr", "sc": "ostr"}, ret="ostr")),
    ("nr", "NexusReader", "_parse_link_statement",
     dict(params=[], locals={"links": "links", "token": "ostr"}, ret="links")),
    ("nr", "NexusReader", "_parse_dimensions_statement",
     dict(params=[], locals={"token": "ostr"}, ret="unit")),
    ("nr", "NexusReader", "_parse_tree_statement",
     dict(params=[("tree_factory", "factory"), ("taxon_symbol_mapper", "omap")], inout=["taxon_symbol_mapper"],
          locals={"token": "ostr", "tree_name": "ostr", "pre_tree_comments": "comments", "tree_comments": "comments",
                  "tree": "otree"}, ret="tree")),
    ("nr", "NexusReader", "_parse_characters_data_block",
     dict(params=[], locals={"token": "ostr"}, ret="unit")),
    ("nr", "NexusReader", "_parse_trees_block",
     dict(params=[], locals={"token": "ostr", "link_title": "ostr", "taxon_namespace": "ons", "taxon_symbol_mapper": "omap",
                             "trees_block": "otl", "block_title": "ostr", "pre_tree_comments": "comments",
                             "tree_factory": "factory", "tree": "tree"}, ret="unit")),
    ("nr", "NexusReader", "_parse_taxa_block",
     dict(params=[], locals={"token": "ostr", "title": "ostr", "taxon_namespace": "ons"}, ret="unit")),
    ("nr", "NexusReader", "_parse_nexus_stream",
     dict(params=[("stream", "unit")], locals={"token": "ostr"}, ret="unit")),
    ("ny", "NexusTreeDataYielder", "_yield_from_trees_block",
     dict(params=[], generator=True,
          locals={"token": "ostr", "link_title": "ostr", "taxon_namespace": "ons", "taxon_symbol_mapper": "omap",
                  "trees_block": "otl", "block_title": "ostr", "pre_tree_comments": "comments",
                  "tree_factory": "factory", "tree": "tree"}, ret="unit")),
    ("ny", "NexusTreeDataYielder", "_yield_items_from_stream",
     dict(params=[("stream", "unit")], generator=True, locals={"token": "ostr", "tree": "tree"}, ret="unit")),
]

# NEWICK: the statement loops.  `nexus_tokenizer = nexusprocessing.NexusTokenizer(stream, ..)` opens the
# tokenizer of the state; `<NewickReader>._parse_tree_statement(nexus_tokenizer=.., tree_factory=..,
# taxon_symbol_map_fn=<mapper>.require_taxon_for_symbol)` is the interface operation ifc_build_tree.
NEWICK = [
    ("nwy", "NewickTreeDataYielder", "_yield_items_from_stream",
     dict(name="newick_yield_items_from_stream", params=[("stream", "unit")], generator=True, attached_const=True,
          locals={"taxon_symbol_mapper": "omap", "tree": "otree"}, ret="unit")),
    ("nwr", "NewickReader", "tree_iter",
     dict(name="newick_tree_iter", params=[("stream", "unit"), ("taxon_symbol_mapper", "omap"), ("tree_factory", "factory")],
          inout=["taxon_symbol_mapper"], generator=True, yields="otree", own_parse=True,
          locals={"tree": "otree"}, ret="unit")),
]

# Reader-level methods (the glue between the entry points and the block loops): self attributes are followed as
# locals; `self._read` (dispatched on the reader's class) is a function parameter of the DataReader methods.
SELF_IN_PARAMS = [("self__attached_taxon_namespace", "ons"), ("self__exclude_trees", "bool"), ("self__exclude_chars", "bool")]
READ_PARAMS = [("stream", "unit"), ("taxon_namespace_factory", "nsfac", "None"), ("tree_list_factory", "otlfac", "None"),
               ("char_matrix_factory", "ounit", "None"), ("state_alphabet_factory", "ounit", "None"),
               ("global_annotations_target", "ounit", "None")]
READERS = [
    ("nr", "NexusReader", "_read",
     dict(name="nexus_read", self_attrs=True, params=READ_PARAMS, locals={}, ret="product")),
    ("nwr", "NewickReader", "_read",
     dict(name="newick_read", self_attrs=True, params=READ_PARAMS,
          locals={"taxon_namespace": "ons", "tree_list": "otl", "taxon_symbol_mapper": "omap", "tree_factory": "factory",
                  "product": "product"}, ret="product")),
    ("ios", "DataReader", "read_tree_lists",
     dict(name="read_tree_lists", self_attrs=True, fn_params=[("self___read", "reader_read")],
          params=[("stream", "unit"), ("taxon_namespace_factory", "nsfac"), ("tree_list_factory", "otlfac"),
                  ("global_annotations_target", "ounit", "None")],
          locals={"product": "product"}, ret="olist")),
    ("ios", "DataReader", "read_dataset",
     dict(name="read_dataset", self_attrs=True, fn_params=[("self___read", "reader_read")],
          params=[("stream", "unit"), ("dataset", "odataset"), ("taxon_namespace", "ons", "None"),
                  ("exclude_trees", "bool", "false"), ("exclude_chars", "bool", "false"),
                  ("state_alphabet_factory", "ounit", "None")],
          locals={"taxon_namespace_factory": "nsfac", "tree_list_factory": "otlfac", "char_matrix_factory": "ounit",
                  "product": "product"}, ret="product")),
]

# The two entry points with offsets.  Their Python parameters are (cls, stream, schema, collection_offset,
# tree_offset, **kwargs); the statements in `setup` (object plumbing: keyword extraction, creation of the
# namespace / target list / factories / reader) are required to be present verbatim and are not compiled -
# the objects they create are parameters of the generated function:
#   reader     the object dataio.get_reader(schema, **kwargs) returns (not yet attached to a namespace)
#   label      kwargs.pop("label", None)
#   tree_list  the target TreeList (its trees)
ENTRY = [
    ("tm", "Tree", "_parse_and_create_from_stream",
     dict(name="tree_parse_and_create_from_stream", entry=True,
          pyargs=["cls", "stream", "schema", "collection_offset", "tree_offset"],
          params=[("reader", "reader"), ("stream", "doc"), ("collection_offset", "oint"), ("tree_offset", "oint"), ("label", "ostr")],
          locals={"tree_lists": "olist", "tree_list": "tlist", "tree": "tree"}, ret="tree",
          tl_factories={"tree_list_factory": "TLNew"}, ns_factories=["tns_factory"],
          setup=[
              "from dendropy.datamodel.treecollectionmodel import TreeList",
              "taxon_namespace = taxonmodel.process_kwargs_dict_for_taxon_namespace(kwargs, None)",
              "if taxon_namespace is None:\n    taxon_namespace = taxonmodel.TaxonNamespace(is_case_sensitive=kwargs.get('case_sensitive_taxon_labels', False))",
              "def tns_factory(label):\n    if label is not None and taxon_namespace.label is None:\n        taxon_namespace.label = label\n    return taxon_namespace",
              "tree_list_factory = lambda label, taxon_namespace: TreeList(label=label, taxon_namespace=taxon_namespace, tree_type=cls)",
              "label = kwargs.pop('label', None)",
              "reader = dataio.get_reader(schema, **kwargs)",
          ])),
    ("tc", "TreeList", "_parse_and_create_from_stream",
     dict(name="treelist_parse_and_create_from_stream", entry=True,
          pyargs=["cls", "stream", "schema", "collection_offset", "tree_offset"],
          params=[("reader", "reader"), ("stream", "doc"), ("collection_offset", "oint"), ("tree_offset", "oint"), ("tree_list", "tlist")],
          locals={"tree_lists": "olist", "target_tree_list": "tlist"}, ret="tlist", target_list="tree_list",
          tl_factories={}, ns_factories=[],
          setup=[
              "tree_list = kwargs.pop('tree_list', None)",
              "taxon_namespace = taxonmodel.process_kwargs_dict_for_taxon_namespace(kwargs, None)",
              "label = kwargs.pop('label', None)",
              "reader = dataio.get_reader(schema, **kwargs)",
              "if tree_list is None:\n    tree_list = cls(label=label, taxon_namespace=taxon_namespace)",
          ])),
]

ENTRY.append(
    ("ds", "DataSet", "_parse_and_create_from_stream",
     dict(name="dataset_parse_and_create_from_stream", entry=True, pyargs=["cls", "stream", "schema"],
          params=[("reader", "reader"), ("stream", "doc"), ("taxon_namespace", "ons"), ("exclude_trees", "bool"),
                  ("exclude_chars", "bool")],
          locals={"dataset": "dsval"}, ret="dsval", tl_factories={}, ns_factories=[],
          setup=[
              "exclude_trees = kwargs.pop('exclude_trees', False)",
              "exclude_chars = kwargs.pop('exclude_chars', False)",
              "taxon_namespace = taxonmodel.process_kwargs_dict_for_taxon_namespace(kwargs, None)",
              "label = kwargs.pop('label', None)",
              "reader = dataio.get_reader(schema, **kwargs)",
          ])))

# TreeArray.read_from_files (the path of TreeArray.read): `self` is followed through the trees passed to add_tree
# (in-out parameter `added`); the iterator Tree.yield_from_files returns is a parameter: what it hands out and how it ends
ENTRY.append(
    ("tc", "TreeArray", "read_from_files",
     dict(name="treearray_read_from_files", entry=True, pyargs=["self", "files", "schema"],
          params=[("tree_yielder", "yielder"), ("target_tree_offset", "int"), ("added", "tlist")], inout=["added"],
          adds_to="added",
          locals={"current_source_index": "oint", "current_tree_offset": "oint", "current_yielder_index": "int"}, ret="unit",
          tl_factories={}, ns_factories=[],
          setup=[
              "if 'taxon_namespace' in kwargs:\n    if kwargs['taxon_namespace'] is not self.taxon_namespace:\n        raise ValueError(\"TaxonNamespace object passed as keyword argument is not the same as self's TaxonNamespace reference\")\n    kwargs.pop('taxon_namespace')",
              "target_tree_offset = kwargs.pop('tree_offset', 0)",
              "tree_yielder = self.tree_type.yield_from_files(files=files, schema=schema, taxon_namespace=self.taxon_namespace, **kwargs)",
          ])))

FILES = {
    "ds": "src/dendropy/datamodel/datasetmodel.py",
    "nr": "src/dendropy/dataio/nexusreader.py",
    "ny": "src/dendropy/dataio/nexusyielder.py",
    "ios": "src/dendropy/dataio/ioservice.py",
    "nwy": "src/dendropy/dataio/newickyielder.py",
    "nwr": "src/dendropy/dataio/newickreader.py",
    "tm": "src/dendropy/datamodel/treemodel/_tree.py",
    "tc": "src/dendropy/datamodel/treecollectionmodel.py",
}


def coq_str(s):
    if s == "":
        return "[]"
    if all(32 <= ord(ch) < 127 and ch != '"' for ch in s):
        return '(s2z "%s")' % s
    return "[" + ";".join("%d%%Z" % ord(ch) for ch in s) + "]"


def gname(fn):
    return "g_" + fn.lstrip("_")


class Fn:
    """compiler state for one function"""

    def __init__(self, name, node, spec, translated):
        self.name = name
        self.node = node
        self.spec = spec
        self.types = dict(spec.get("locals", {}))
        for item in spec["params"]:
            self.types[item[0]] = item[1]
        self.inout = list(spec.get("inout", []))
        self.gen = bool(spec.get("generator"))
        self.entry = bool(spec.get("entry"))
        self.yT = "(option T)" if spec.get("yields") == "otree" else "T"
        self.tokenizer_local = None     # name of a local NexusTokenizer (Newick functions)
        self.tail_loops = set()
        self.state_ty = "unit" if self.entry else "gst"
        self.translated = translated
        self.setup_left = [ast.dump(ast.parse(t).body[0]) for t in spec.get("setup", [])]
        self.loops = []          # emitted Fixpoints
        self.nloops = 0
        self.tmp = 0

    # ---------------------------------------------------------------- helpers
    def fresh(self, base="r"):
        self.tmp += 1
        return "%s%d__" % (base, self.tmp)

    def ctype(self, t):
        if t not in COQ_TYPES:
            raise Unsupported("%s: unknown type %s" % (self.name, t))
        return COQ_TYPES[t]

    def ret_tuple_type(self):
        parts = [self.ctype(self.spec["ret"])] + [self.ctype(self.types[v]) for v in self.inout] + [self.state_ty]
        return "(" + " * ".join(parts) + ")"

    def result_type(self, inner):
        return "yres %s %s" % (self.yT, inner) if self.gen else "res %s" % inner

    def bind(self, op, pat, body, lifted=True):
        """sequence an operation returning a tuple ending in the state"""
        r = self.fresh()
        if self.gen:
            opx = "(ylift %s (%s))" % (self.yT, op) if lifted else "(%s)" % op
            return "ybind %s %s (fun %s => let '%s := %s in\n%s)" % (self.yT, opx, r, pat, r, body)
        return "do %s <- %s ;; let '%s := %s in\n%s" % (r, op, pat, r, body)

    def ok(self, val):
        return "(@nil %s, Ok %s)" % (self.yT, val) if self.gen else "Ok %s" % val

    def err(self, e):
        return "(@nil %s, Err %s)" % (self.yT, e) if self.gen else "Err %s" % e

    def out_of_fuel(self):
        return "(@nil %s, OutOfFuel)" % self.yT if self.gen else "OutOfFuel"

    # ---------------------------------------------------------------- recognisers
    @staticmethod
    def is_self_attr(n, attr=None):
        return isinstance(n, ast.Attribute) and isinstance(n.value, ast.Name) and n.value.id == "self" \
            and (attr is None or n.attr == attr)

    def tokenizer_call(self, n):
        """self._nexus_tokenizer.<m>(...) -> method name or None"""
        if isinstance(n, ast.Call) and isinstance(n.func, ast.Attribute) and self.is_self_attr(n.func.value, "_nexus_tokenizer"):
            return n.func.attr
        return None

    def tokenizer_attr(self, n):
        if isinstance(n, ast.Attribute) and self.is_self_attr(n.value, "_nexus_tokenizer"):
            return n.attr
        return None

    def self_call(self, n):
        if isinstance(n, ast.Call) and self.is_self_attr(n.func):
            return n.func.attr
        return None

    # ---------------------------------------------------------------- pure expressions
    def config_const(self, n):
        """constant value of a folded configuration attribute, or None"""
        if self.spec.get("self_attrs") and self.is_self_attr(n) and n.attr in SELF_ATTRS:
            return None
        if self.is_self_attr(n) and n.attr in CONFIG:
            return CONFIG[n.attr]
        if isinstance(n, ast.Attribute) and isinstance(n.value, ast.Name) and (self.types.get(n.value.id), n.attr) in OBJ_CONFIG:
            return OBJ_CONFIG[(self.types.get(n.value.id), n.attr)]
        return None

    def pure(self, n, want=None):
        """(text, type) of a side-effect free expression"""
        if isinstance(n, ast.Constant):
            if n.value is None:
                if want in ("ostr", "ons", "omap", "otl", "otree", "factory", "oint", "otlfac", "ounit", "odataset", None):
                    return "None", want or "ostr"
                raise Unsupported("None for %s" % want)
            if n.value is True or n.value is False:
                return ("true" if n.value else "false"), "bool"
            if isinstance(n.value, str):
                if want == "str":
                    return coq_str(n.value), "str"
                return "(Some %s)" % coq_str(n.value), "ostr"
            if isinstance(n.value, int):
                if want == "oint":
                    return "(Some %d%%Z)" % n.value, "oint"
                return "%d%%Z" % n.value, "int"
            raise Unsupported("constant %r" % (n.value,))
        if isinstance(n, ast.Name):
            if n.id not in self.types:
                raise Unsupported("%s: undeclared variable %s" % (self.name, n.id))
            return "v_" + n.id, self.types[n.id]
        a = self.tokenizer_attr(n)
        if a == "current_token":
            return "(tk_current_token s)", "ostr"
        if a == "is_token_quoted":
            return "(tk_is_token_quoted s)", "bool"
        if self.spec.get("self_attrs") and self.is_self_attr(n) and n.attr in SELF_ATTRS:
            a = "self__" + n.attr
            if a not in self.types:
                raise Unsupported("%s: self.%s read before it is known" % (self.name, n.attr))
            return "v_" + a, SELF_ATTRS[n.attr]
        if isinstance(n, ast.Attribute) and n.attr == "tree_lists" and isinstance(n.value, ast.Name) and self.types.get(n.value.id) == "product":
            return "(rs_blocks T v_%s)" % n.value.id, "olist"
        if self.is_self_attr(n):
            if n.attr in CONFIG:
                return ("true" if CONFIG[n.attr] else "false"), "bool"
            if n.attr in CONFIG_VARS:
                return CONFIG_VARS[n.attr], "bool"
            if n.attr == "tree_factory":
                return "None", "factory"          # the yielder's own factory: accessions nothing
            if n.attr == "_file_specified_ntax":
                return "(rd_ntax s)", "oint"
            if n.attr == "attached_taxon_namespace":
                if self.spec.get("attached_const"):
                    return "rd_attached_namespace", "ons"    # the iterator's namespace: namespace 0
                return "rd_reader_attached", "ons"       # None unless the route attached its namespace (then namespace 0)
            raise Unsupported("%s: attribute self.%s" % (self.name, n.attr))
        if isinstance(n, ast.Attribute) and isinstance(n.value, ast.Name) and n.attr == "new_tree" \
                and self.types.get(n.value.id) == "otl":
            return "v_" + n.value.id, "factory"   # <TreeList>.new_tree
        if isinstance(n, ast.Call):
            # self.Product(taxon_namespaces=.., tree_lists=.., char_matrices=..)
            if self.is_self_attr(n.func, "Product") and not n.args and sorted(k.arg for k in n.keywords) == ["char_matrices", "taxon_namespaces", "tree_lists"]:
                kws = {k.arg: k.value for k in n.keywords}
                for key, attr in (("taxon_namespaces", "_taxon_namespaces"), ("char_matrices", "_char_matrices")):
                    v = kws[key]
                    if not (self.is_self_attr(v, attr) or (isinstance(v, ast.Constant) and v.value is None)):
                        raise Unsupported("%s: Product(%s=..)" % (self.name, key))
                tl = kws["tree_lists"]
                if self.is_self_attr(tl, "_tree_lists"):
                    lst = "(rd_tree_lists s)"
                elif isinstance(tl, ast.List) and all(isinstance(e, ast.Name) and self.types.get(e.id) == "otl" for e in tl.elts):
                    lst = "[" + "; ".join("on_get v_%s" % e.id for e in tl.elts) + "]"
                else:
                    raise Unsupported("%s: Product(tree_lists=..)" % self.name)
                return "(ifc_product s %s)" % lst, "product"
            if isinstance(n.func, ast.Name) and n.func.id == "set" and len(n.args) == 1 \
                    and isinstance(n.args[0], ast.List) and not n.args[0].elts and not n.keywords:
                return "sset_empty", "sset"
            m = self.tokenizer_call(n)
            if m == "is_eof" and not n.args and not n.keywords:
                return "(tk_is_eof s)", "bool"
            if isinstance(n.func, ast.Attribute) and not n.args and not n.keywords:
                recv, rt = self.pure(n.func.value)
                if n.func.attr == "upper" and rt == "ostr":
                    return "(o_upper %s)" % recv, "ostr"
                if n.func.attr == "isdecimal" and rt == "ostr":
                    # str.isdecimal(): every character a decimal digit, so int() accepts the token (repair
                    # a4724307; the former str.isdigit() also accepted characters int() rejects and is no
                    # longer translated: a return to it fails closed).  On the model's tokens: is_digit_str.
                    return "(o_isdigit %s)" % recv, "bool"
                if n.func.attr == "lower" and rt == "ostr":
                    return "(o_lower %s)" % recv, "ostr"
            if isinstance(n.func, ast.Attribute) and n.func.attr == "get" and len(n.args) == 1 and not n.keywords \
                    and isinstance(n.args[0], ast.Constant) and n.args[0].value in ("taxa", "characters"):
                recv, rt = self.pure(n.func.value)
                if rt == "links":
                    return "(links_get_%s %s)" % (n.args[0].value, recv), "ostr"
            if isinstance(n.func, ast.Name) and n.func.id == "len" and len(n.args) == 1 and not n.keywords \
                    and self.is_self_attr(n.args[0], "_taxon_namespaces"):
                return "(rd_ns_count s)", "int"
            if isinstance(n.func, ast.Name) and n.func.id == "len" and len(n.args) == 1 and not n.keywords \
                    and isinstance(n.args[0], ast.Name) and self.types.get(n.args[0].id) == "ons":
                return "(rd_ns_len s v_%s)" % n.args[0].id, "int"
            # <TaxonNamespace>.get_taxon(label=e)
            if isinstance(n.func, ast.Attribute) and n.func.attr == "get_taxon" and isinstance(n.func.value, ast.Name) \
                    and self.types.get(n.func.value.id) == "ons" and not n.args and [k.arg for k in n.keywords] == ["label"]:
                e, ety = self.pure(n.keywords[0].value)
                if ety != "ostr":
                    raise Unsupported("%s: get_taxon(label=%s)" % (self.name, ety))
                return "(rd_ns_get_taxon s v_%s %s)" % (n.func.value.id, e), "otaxon"
            if isinstance(n.func, ast.Name) and n.func.id == "len" and len(n.args) == 1 and not n.keywords:
                recv, rt = self.pure(n.args[0])
                if rt in ("tlist", "olist", "nslist"):
                    return "(len_z %s)" % recv, "int"
            if isinstance(n.func, ast.Name) and n.func.id == "int" and len(n.args) == 1:
                recv, rt = self.pure(n.args[0])
                if rt == "ostr":
                    return "(o_int %s)" % recv, "int"
            raise Unsupported("%s: call %s" % (self.name, ast.dump(n)[:120]))
        if isinstance(n, ast.Dict) and not n.keys:
            return "links_empty", "links"
        if isinstance(n, ast.Attribute) and n.attr == "current_file_index" and isinstance(n.value, ast.Name) \
                and self.types.get(n.value.id) == "yielder":
            return "(yl_file_index v_%s)" % n.value.id, "int"
        # <DataSet>.attached_taxon_namespace ; the DataSet's bound factory methods
        if isinstance(n, ast.Attribute) and isinstance(n.value, ast.Name) and self.types.get(n.value.id) == "odataset":
            if n.attr == "attached_taxon_namespace":
                return "v_" + n.value.id, "ons"
            if n.attr == "new_taxon_namespace":
                return "FacNew", "nsfac"
            if n.attr == "new_tree_list":
                return "(Some TLNew)", "otlfac"
            if n.attr == "new_char_matrix":
                return "(Some tt)", "ounit"
        if isinstance(n, ast.Attribute) and isinstance(n.value, ast.Name) and self.types.get(n.value.id) == "dsval" \
                and n.attr == "attached_taxon_namespace":
            return "(fst v_%s)" % n.value.id, "ons"
        # lambda label : <a namespace object>   (a factory that returns the namespace it closes over, whatever the label)
        if isinstance(n, ast.Lambda) and [a.arg for a in n.args.args] == ["label"] and not n.args.defaults \
                and n.args.vararg is None and n.args.kwarg is None:
            b, bty = self.pure(n.body)
            if bty != "ons":
                raise Unsupported("%s: lambda returning %s" % (self.name, bty))
            return "(fac_const %s)" % b, "nsfac"
        if isinstance(n, ast.List) and not n.elts and want == "nslist":
            return "[]", "nslist"
        # set([])
        if isinstance(n, ast.Call) and isinstance(n.func, ast.Name) and n.func.id == "set" and len(n.args) == 1 \
                and isinstance(n.args[0], ast.List) and not n.args[0].elts and not n.keywords:
            return "sset_empty", "sset"
        # <Taxon>.label / .lower_cased_label ;  <TaxonNamespace>._taxa / .is_mutable
        if isinstance(n, ast.Attribute) and isinstance(n.value, ast.Name):
            vt = self.types.get(n.value.id)
            if vt == "otaxon" and n.attr == "label":
                return "(tx_label v_%s)" % n.value.id, "ostr"
            if vt == "otaxon" and n.attr == "lower_cased_label":
                return "(tx_lower_label v_%s)" % n.value.id, "ostr"
            if vt == "ons" and n.attr == "_taxa":
                return "(rd_ns_members s v_%s)" % n.value.id, "otaxonlist"
            if vt == "ons" and n.attr == "is_mutable":
                a = "%s__is_mutable" % n.value.id
                if a not in self.types:
                    raise Unsupported("%s: %s.is_mutable read before it is known" % (self.name, n.value.id))
                return "v_" + a, "bool"
        # <namespace>.label
        if isinstance(n, ast.Attribute) and n.attr == "label" and isinstance(n.value, ast.Name) and self.types.get(n.value.id) == "ns":
            return "(rd_ns_label s v_%s)" % n.value.id, "ostr"
        # self._taxon_namespaces[<int>]  /  <list of namespaces>[<int>]
        if isinstance(n, ast.Subscript) and isinstance(n.slice, ast.Constant) and isinstance(n.slice.value, int):
            if self.is_self_attr(n.value, "_taxon_namespaces"):
                return "(rd_ns_at s %d%%Z)" % n.slice.value, "ons"
            if isinstance(n.value, ast.Name) and self.types.get(n.value.id) == "nslist":
                return "(nth_error v_%s (Z.to_nat %d%%Z))" % (n.value.id, n.slice.value), "ons"
        raise Unsupported("%s: expression %s" % (self.name, ast.dump(n)[:120]))

    def cond(self, n):
        """boolean text of a test (side-effect free); returns (text, constant or None)"""
        cv = self.config_const(n)
        if cv is not None:
            return ("true" if cv else "false"), cv
        if isinstance(n, ast.Constant) and n.value in (True, False):
            return ("true" if n.value else "false"), n.value
        if isinstance(n, ast.BoolOp):
            parts = [self.cond(v) for v in n.values]
            if isinstance(n.op, ast.And):
                if any(c is False for _t, c in parts):
                    return "false", False
                live = [t for t, c in parts if c is not True]
                if not live:
                    return "true", True
                return "(" + " && ".join(live) + ")", None
            if any(c is True for _t, c in parts):
                return "true", True
            live = [t for t, c in parts if c is not False]
            if not live:
                return "false", False
            return "(" + " || ".join(live) + ")", None
        if isinstance(n, ast.UnaryOp) and isinstance(n.op, ast.Not):
            t, c = self.cond(n.operand)
            if c is not None:
                return ("false" if c else "true"), (not c)
            return "(negb %s)" % t, None
        if isinstance(n, ast.Compare) and len(n.ops) == 1:
            op = n.ops[0]
            left, right = n.left, n.comparators[0]
            lt, ltype = self.pure(left)
            neg = isinstance(op, (ast.NotEq, ast.IsNot))
            if isinstance(op, ast.In) and isinstance(right, ast.List) and all(isinstance(e, ast.Constant) and isinstance(e.value, str) for e in right.elts) \
                    and ltype == "ostr":
                return "(" + " || ".join("o_eq %s %s" % (lt, coq_str(e.value)) for e in right.elts) + ")", None
            if isinstance(op, (ast.In, ast.NotIn)) and isinstance(right, ast.Name) and self.types.get(right.id) == "sset" and ltype == "ostr":
                t = "(sset_mem %s v_%s)" % (lt, right.id)
                return ("(negb %s)" % t if isinstance(op, ast.NotIn) else t), None
            if isinstance(op, (ast.GtE, ast.Gt, ast.LtE, ast.Lt)):
                rt_, rtype = self.pure(right)

                def as_z(txt, ty):
                    if ty == "int":
                        return txt
                    if ty == "oint":
                        return "(oz_get %s)" % txt      # an int here: None would be a TypeError (Python 3)
                    raise Unsupported("%s: ordering comparison on %s" % (self.name, ty))
                sym = {ast.GtE: ">=?", ast.Gt: ">?", ast.LtE: "<=?", ast.Lt: "<?"}[type(op)]
                return "(%s %s %s)%%Z" % (as_z(lt, ltype), sym, as_z(rt_, rtype)), None
            if not isinstance(op, (ast.Eq, ast.NotEq, ast.Is, ast.IsNot)):
                raise Unsupported("%s: comparison operator %s" % (self.name, type(op).__name__))
            if isinstance(right, ast.Constant) and right.value is None:
                fn = {"ostr": "o_is_none", "ons": "on_is_none", "otl": "on_is_none", "omap": "om_is_none", "otree": "ot_is_none",
                      "oint": "oz_is_none", "otlfac": "opt_is_none", "ounit": "opt_is_none", "odataset": "on_is_none",
                      "otaxon": "otx_is_none"}.get(ltype)
                if fn is None:
                    raise Unsupported("%s: None test on %s" % (self.name, ltype))
                t = "(%s %s)" % (fn, lt)
            elif isinstance(right, ast.Constant) and isinstance(right.value, str) and ltype == "ostr" \
                    and isinstance(op, (ast.Eq, ast.NotEq)):
                t = "(o_eq %s %s)" % (lt, coq_str(right.value))
            elif ltype == "ons" and isinstance(op, (ast.Is, ast.IsNot)) and not isinstance(right, ast.Constant):
                rt_, rtype = self.pure(right)
                if rtype != "ons":
                    raise Unsupported("%s: identity test with %s" % (self.name, rtype))
                t = "(on_same %s %s)" % (lt, rt_)
            elif ltype == "oint" and isinstance(op, (ast.Eq, ast.NotEq)) and not isinstance(right, ast.Constant):
                rt_, rtype = self.pure(right)
                if rtype != "int":
                    raise Unsupported("%s: optional int == %s" % (self.name, rtype))
                t = "(oz_eqb %s %s)" % (lt, rt_)
            elif ltype == "int" and isinstance(op, (ast.Eq, ast.NotEq)):
                rt_, rtype = self.pure(right)
                if rtype != "int":
                    raise Unsupported("%s: int == %s" % (self.name, rtype))
                t = "(%s =? %s)%%Z" % (lt, rt_)
            elif ltype == "ostr" and isinstance(op, (ast.Eq, ast.NotEq)):
                rt_, rtype = self.pure(right)
                if rtype != "ostr":
                    raise Unsupported("%s: str == %s" % (self.name, rtype))
                t = "(o_eqb %s %s)" % (lt, rt_)
            else:
                raise Unsupported("%s: comparison %s" % (self.name, ast.dump(n)[:120]))
            return ("(negb %s)" % t if neg else t), None
        # truthiness
        t, ty = self.pure(n)
        if ty == "bool":
            return t, None
        if ty == "ostr":
            return "(o_truthy %s)" % t, None
        if ty in ("tlist", "olist"):
            return "(negb (is_nil %s))" % t, None
        if ty == "ons":
            return "(rd_ns_truthy s %s)" % t, None      # a TaxonNamespace is falsy when it has no members
        raise Unsupported("%s: truthiness of %s" % (self.name, ty))

    # ---------------------------------------------------------------- effects
    def args_of(self, call, shape):
        """match positional / keyword arguments against [(\"pos|kw\" or \"kw\", type)]"""
        out = []
        used_kw = set()
        for i, item in enumerate(shape):
            key, ty = item[0], item[1]
            default = item[2] if len(item) > 2 else None
            pos, kw = (key.split("|") + [None])[:2] if "|" in key else (None, key)
            node = None
            if pos is not None and int(pos) < len(call.args):
                node = call.args[int(pos)]
            else:
                for k in call.keywords:
                    if k.arg == kw:
                        node = k.value
                        used_kw.add(k.arg)
            if node is None:
                if default is not None:
                    out.append((default, None))
                    continue
                raise Unsupported("%s: missing argument %s of %s" % (self.name, key, ast.dump(call.func)[:60]))
            t, aty = self.pure(node, want=ty)
            if aty != ty:
                raise Unsupported("%s: argument %s has type %s, expected %s" % (self.name, key, aty, ty))
            out.append((t, node))
        n_pos = sum(1 for item in shape if "|" in item[0] and int(item[0].split("|")[0]) < len(call.args))
        if len(call.args) != n_pos or any(k.arg not in used_kw for k in call.keywords):
            raise Unsupported("%s: unexpected arguments in call %s" % (self.name, ast.dump(call)[:160]))
        return out

    def self_in_args(self):
        out = []
        for a in SELF_IN:
            if ("self__" + a) not in self.types:
                raise Unsupported("%s: self.%s is not known at the call" % (self.name, a))
            out.append("v_self__" + a)
        return " ".join(out)

    def reader_level_effect(self, call):
        """calls in _read / read_tree_lists / read_dataset: the reader's main routine with the configuration the
        followed attributes hold, the dynamically dispatched self._read, the factories received as parameters"""
        if not self.spec.get("self_attrs"):
            return None
        f = call.func
        if self.is_self_attr(f, "_parse_nexus_stream"):
            if len(call.args) != 1 or call.keywords:
                raise Unsupported("%s: _parse_nexus_stream arguments" % self.name)
            st, sty = self.pure(call.args[0])
            need = ["self__exclude_chars", "self__exclude_trees", "self__attached_taxon_namespace",
                    "self___taxon_namespace_factory", "self___tree_list_factory"]
            for a in need:
                if a not in self.types:
                    raise Unsupported("%s: %s is not known at the call of _parse_nexus_stream" % (self.name, a))
            op = ("(if v_self__exclude_chars then g_parse_nexus_stream T lower upper parse_tree set_label add_comments "
                  "(mkNsCfg (negb (on_is_none v_self__attached_taxon_namespace)) v_self___taxon_namespace_factory) "
                  "(otlf_get v_self___tree_list_factory) v_self__exclude_trees fuel s %s "
                  "else Err OtherErr (* characters are read: not compiled *))" % st)
            return op, "unit", [], None
        if self.is_self_attr(f, "_read"):
            order = ["stream", "taxon_namespace_factory", "tree_list_factory", "char_matrix_factory",
                     "state_alphabet_factory", "global_annotations_target"]
            tys = ["unit", "nsfac", "otlfac", "ounit", "ounit", "ounit"]
            kws = {k.arg: k.value for k in call.keywords}
            if call.args or sorted(kws) != sorted(order):
                raise Unsupported("%s: arguments of self._read" % self.name)
            args = []
            for key, ty in zip(order, tys):
                t, aty = self.pure(kws[key], want=ty)
                if key == "global_annotations_target" and aty == "odataset":
                    t, aty = "(Some tt)", "ounit"          # a DataSet object: not None
                if aty != ty:
                    raise Unsupported("%s: self._read(%s=%s)" % (self.name, key, aty))
                args.append(t)
            return "v_self___read fuel s %s %s" % (self.self_in_args(), " ".join(args)), "product", [], None
        if isinstance(f, ast.Name) and self.types.get(f.id) == "nsfac":
            kws = {k.arg: k.value for k in call.keywords}
            if call.args or sorted(kws) != ["label"]:
                raise Unsupported("%s: arguments of the namespace factory" % self.name)
            lab, lty = self.pure(kws["label"], want="ostr")
            return "ifc_ns_factory_of v_%s s %s" % (f.id, lab), "ons", [], None
        if isinstance(f, ast.Name) and self.types.get(f.id) == "otlfac":
            kws = {k.arg: k.value for k in call.keywords}
            if call.args or sorted(kws) != ["label", "taxon_namespace"]:
                raise Unsupported("%s: arguments of the tree list factory" % self.name)
            lab, lty = self.pure(kws["label"], want="ostr")
            ns, nty = self.pure(kws["taxon_namespace"], want="ons")
            if nty != "ons":
                raise Unsupported("%s: tree list factory namespace %s" % (self.name, nty))
            return "ifc_tree_list_factory_of v_%s s %s %s" % (f.id, ns, lab), "otl", [], None
        return None

    def effect(self, call):
        """an effectful call -> (operation text, value type, [in-out variable names in result order], accession factory text or None)"""
        rl = self.reader_level_effect(call)
        if rl is not None:
            return rl
        m = self.tokenizer_call(call)
        if m is not None:
            if m not in TOKENIZER:
                raise Unsupported("%s: tokenizer method %s" % (self.name, m))
            prim, fuel, ty = TOKENIZER[m]
            if m == "process_and_clear_comments_for_item":
                first_ok = len(call.args) == 2 and (self.is_self_attr(call.args[0], "_global_annotations_target") or
                                                    (isinstance(call.args[0], ast.Name) and self.types.get(call.args[0].id) == "otaxon"))
                ok = first_ok and self.is_self_attr(call.args[1], "extract_comment_metadata") and not call.keywords
                if not ok:
                    raise Unsupported("%s: arguments of process_and_clear_comments_for_item" % self.name)
            elif call.args or call.keywords:
                raise Unsupported("%s: arguments of tokenizer.%s" % (self.name, m))
            return "%s %ss" % (prim, "fuel " if fuel else ""), ty, [], None
        np = self.newick_parse_call(call)
        if np is not None:
            return np
        if isinstance(call.func, ast.Attribute) and call.func.attr == "new_taxon" and isinstance(call.func.value, ast.Name) \
                and self.types.get(call.func.value.id) == "ons" and not call.args and [k.arg for k in call.keywords] == ["label"]:
            e, ety = self.pure(call.keywords[0].value)
            if ety != "ostr":
                raise Unsupported("%s: new_taxon(label=%s)" % (self.name, ety))
            return "ifc_ns_new_taxon s v_%s %s" % (call.func.value.id, e), "otaxon", [], None
        ml = self.mapper_lookup_call(call)
        if ml is not None:
            return ml
        sm = self.self_call(call)
        if sm is not None:
            if sm in self.translated:
                spec = self.translated[sm]
                args = self.args_of(call, [("%d|%s" % (i, it[0]),) + tuple(it[1:]) for i, it in enumerate(spec["params"])])
                inout = []
                for v in spec.get("inout", []):
                    idx = [it[0] for it in spec["params"]].index(v)
                    node = args[idx][1]
                    if not isinstance(node, ast.Name):
                        raise Unsupported("%s: in-out argument must be a variable" % self.name)
                    inout.append(node.id)
                factory = None
                for it, (txt, _n) in zip(spec["params"], args):
                    if it[1] == "factory":
                        factory = txt
                op = "%s fuel s %s" % (gname(sm), " ".join(a for a, _ in args))
                return op.rstrip(), spec["ret"], inout, factory
            if sm in INTERFACE:
                prim, fuel, shape, ty, io = INTERFACE[sm]
                args = self.args_of(call, shape)
                inout = []
                if io is not None:
                    node = args[io][1]
                    if not isinstance(node, ast.Name):
                        raise Unsupported("%s: in-out argument must be a variable" % self.name)
                    inout.append(node.id)
                op = "%s %ss %s" % (prim, "fuel " if fuel else "", " ".join(a for a, _ in args))
                return op.rstrip(), ty, inout, None
            raise Unsupported("%s: call of self.%s" % (self.name, sm))
        return None

    def is_mapper_lookup(self, n):
        return isinstance(n, ast.Call) and isinstance(n.func, ast.Attribute) and n.func.attr == "lookup_taxon_symbol" \
            and isinstance(n.func.value, ast.Name) and self.types.get(n.func.value.id) == "omap"

    def mapper_lookup_call(self, call):
        """<mapper>.lookup_taxon_symbol(symbol, create_taxon_if_not_found=b) -> ifc_mapper_lookup (the compiled method of
        Gen/RoutesMapper.v on the mapper object and the namespace it manages; Proofs/C13GenMapper.v)"""
        if not self.is_mapper_lookup(call):
            return None
        shape = [("0|symbol", "ostr"), ("1|create_taxon_if_not_found", "bool", "true")]
        args = self.args_of(call, shape)
        m = call.func.value.id
        return "ifc_mapper_lookup s v_%s %s %s" % (m, args[0][0], args[1][0]), "otaxon", [m], None

    def newick_parse_call(self, call):
        """<NewickReader>._parse_tree_statement(nexus_tokenizer=<the local tokenizer>, tree_factory=F,
        taxon_symbol_map_fn=<mapper>.require_taxon_for_symbol) -> ifc_build_tree"""
        f = call.func
        if not (isinstance(f, ast.Attribute) and f.attr == "_parse_tree_statement"):
            return None
        recv_ok = self.is_self_attr(f.value, "newick_reader") or \
            (self.spec.get("own_parse") and isinstance(f.value, ast.Name) and f.value.id == "self")
        if not recv_ok:
            return None
        kws = {k.arg: k.value for k in call.keywords}
        if call.args or sorted(kws) != ["nexus_tokenizer", "taxon_symbol_map_fn", "tree_factory"]:
            raise Unsupported("%s: arguments of _parse_tree_statement" % self.name)
        tk = kws["nexus_tokenizer"]
        if not (isinstance(tk, ast.Name) and tk.id == self.tokenizer_local):
            raise Unsupported("%s: nexus_tokenizer argument" % self.name)
        fac, fty = self.pure(kws["tree_factory"])
        if fty != "factory":
            raise Unsupported("%s: tree_factory argument" % self.name)
        m = kws["taxon_symbol_map_fn"]
        if not (isinstance(m, ast.Attribute) and m.attr == "require_taxon_for_symbol" and isinstance(m.value, ast.Name)
                and self.types.get(m.value.id) == "omap"):
            raise Unsupported("%s: taxon_symbol_map_fn argument" % self.name)
        return "ifc_build_tree s %s v_%s" % (fac, m.value.id), "otree", [m.value.id], ("opt", fac)

    def is_effect(self, n):
        if not isinstance(n, ast.Call):
            return False
        if self.is_self_attr(n.func, "Product"):
            return False
        if self.spec.get("self_attrs"):
            if self.is_self_attr(n.func, "_parse_nexus_stream") or self.is_self_attr(n.func, "_read"):
                return True
            if isinstance(n.func, ast.Name) and self.types.get(n.func.id) in ("nsfac", "otlfac"):
                return True
        if isinstance(n.func, ast.Attribute) and n.func.attr == "new_taxon" and isinstance(n.func.value, ast.Name) \
                and self.types.get(n.func.value.id) == "ons":
            return True
        if self.is_mapper_lookup(n):
            return True
        if isinstance(n.func, ast.Attribute) and n.func.attr == "_parse_tree_statement" and \
                (self.is_self_attr(n.func.value, "newick_reader") or self.spec.get("own_parse")):
            return True
        if self.entry and isinstance(n.func, ast.Attribute) and n.func.attr in ("read_tree_lists", "read_dataset"):
            return True
        m = self.tokenizer_call(n)
        if m is not None:
            return m != "is_eof"
        return self.self_call(n) is not None

    # ---------------------------------------------------------------- statements
    def assigned(self, stmts):
        """variables assigned (or updated in place through an in-out argument) in a statement list"""
        out = []

        def add(v):
            if v not in out:
                out.append(v)

        for st in stmts:
            for n in ast.walk(st):
                if isinstance(n, ast.Assign):
                    for t in n.targets:
                        if isinstance(t, ast.Name):
                            add(t.id)
                        elif isinstance(t, ast.Subscript) and isinstance(t.value, ast.Name):
                            add(t.value.id)
                        elif isinstance(t, ast.Attribute) and isinstance(t.value, ast.Name) and t.value.id == "self" \
                                and self.spec.get("self_attrs") and t.attr in SELF_ATTRS:
                            add("self__" + t.attr)
                        elif isinstance(t, ast.Attribute) and isinstance(t.value, ast.Name) and t.value.id != "self":
                            if t.attr == "is_mutable":
                                add(t.value.id + "__is_mutable")
                            else:
                                add(t.value.id)
                elif isinstance(n, ast.For) and isinstance(n.target, ast.Name):
                    add(n.target.id)
                elif isinstance(n, ast.Call):
                    if self.entry and isinstance(n.func, ast.Attribute) and n.func.attr == "read_tree_lists" and self.spec.get("target_list"):
                        add(self.spec["target_list"])
                    if self.entry and isinstance(n.func, ast.Attribute) and n.func.attr == "read_dataset":
                        for k in n.keywords:
                            if k.arg == "dataset" and isinstance(k.value, ast.Name):
                                add(k.value.id)
                    if isinstance(n.func, ast.Attribute) and n.func.attr == "append" and isinstance(n.func.value, ast.Name) \
                            and self.types.get(n.func.value.id) == "nslist":
                        add(n.func.value.id)
                    if isinstance(n.func, ast.Attribute) and isinstance(n.func.value, ast.Name) and \
                            (n.func.attr, self.types.get(n.func.value.id)) in (("add", "sset"), ("add_translate_token", "omap"),
                                                                              ("lookup_taxon_symbol", "omap")):
                        add(n.func.value.id)
                    if self.spec.get("adds_to") and self.is_self_attr(n.func, "add_tree"):
                        add(self.spec["adds_to"])
                    if self.entry and isinstance(n.func, ast.Attribute) and n.func.attr == "append" and isinstance(n.func.value, ast.Attribute) \
                            and n.func.value.attr == "_trees" and isinstance(n.func.value.value, ast.Name):
                        add(n.func.value.value.id)
                    if isinstance(n.func, ast.Attribute) and n.func.attr == "_parse_tree_statement":
                        for k in n.keywords:
                            if k.arg == "taxon_symbol_map_fn" and isinstance(k.value, ast.Attribute) and isinstance(k.value.value, ast.Name):
                                add(k.value.value.id)
                    for lv in self.locked_by(n):
                        add(lv + "__is_mutable")
                    sm = self.self_call(n)
                    io = None
                    if sm in self.translated:
                        spec = self.translated[sm]
                        for v in spec.get("inout", []):
                            idx = [it[0] for it in spec["params"]].index(v)
                            cand = n.args[idx] if idx < len(n.args) else next((k.value for k in n.keywords if k.arg == v), None)
                            if isinstance(cand, ast.Name):
                                add(cand.id)
                    elif sm in INTERFACE and INTERFACE[sm][4] is not None:
                        key = INTERFACE[sm][2][INTERFACE[sm][4]][0]
                        pos, kw = key.split("|")
                        cand = n.args[int(pos)] if int(pos) < len(n.args) else next((k.value for k in n.keywords if k.arg == kw), None)
                        if isinstance(cand, ast.Name):
                            add(cand.id)
                    if isinstance(n.func, ast.Attribute) and self.is_self_attr(n.func.value) is False and isinstance(n.func.value, ast.Name) \
                            and n.func.value.id == "nexusprocessing" and n.func.attr == "process_comments_for_item" \
                            and n.args and isinstance(n.args[0], ast.Name) and self.types.get(n.args[0].id) in ("tree", "otree"):
                        add(n.args[0].id)
        return out

    def read_vars(self, stmts):
        out = []
        for st in stmts:
            for n in ast.walk(st):
                if isinstance(n, ast.Name) and n.id in self.types and n.id not in out:
                    out.append(n.id)
                if isinstance(n, ast.Name) and (n.id + "__is_mutable") in self.types and (n.id + "__is_mutable") not in out:
                    out.append(n.id + "__is_mutable")
        return out

    def block(self, stmts, k, env):
        """compile a statement list; k(env) gives the text of what follows; env: set of defined variables,
        plus env['break'] (text producer) inside loops"""
        if not stmts:
            return k(env)
        st, rest = stmts[0], stmts[1:]

        def after(e):
            return self.block(rest, k, e)

        # docstrings
        if isinstance(st, ast.Expr) and isinstance(st.value, ast.Constant) and isinstance(st.value.value, str):
            return after(env)
        # object plumbing of an entry point: must be one of the expected statements, each at most once
        if self.entry and ast.dump(st) in self.setup_left:
            self.setup_left.remove(ast.dump(st))
            return after(env)
        if isinstance(st, ast.Pass):
            return after(env)
        if isinstance(st, ast.Expr) and isinstance(st.value, ast.Yield):
            if not self.gen or st.value.value is None:
                raise Unsupported("%s: yield" % self.name)
            t, ty = self.pure(st.value.value)
            if ty != self.spec.get("yields", "tree"):
                raise Unsupported("%s: yield of %s" % (self.name, ty))
            r = self.fresh()
            return "ybind %s ([%s], Ok tt) (fun %s =>\n%s)" % (self.yT, t, r, after(env))
        if isinstance(st, ast.Expr) and isinstance(st.value, ast.Call):
            return self.call_stmt(st.value, None, after, env)
        if isinstance(st, ast.Assign) and len(st.targets) == 1:
            return self.assign(st.targets[0], st.value, after, env)
        if isinstance(st, ast.If):
            # a parameter the routes never pass (declared constant None): `if p is None:` before p is assigned
            t = st.test
            if isinstance(t, ast.Compare) and len(t.ops) == 1 and isinstance(t.ops[0], (ast.Is, ast.IsNot)) \
                    and isinstance(t.left, ast.Name) and t.left.id in self.spec.get("const_params", {}) \
                    and t.left.id not in env["defined"] and isinstance(t.comparators[0], ast.Constant) and t.comparators[0].value is None:
                taken = st.body if isinstance(t.ops[0], ast.Is) else st.orelse
                return self.block(list(taken) + list(rest), k, env)
            return self.if_stmt(st, after, env)
        if isinstance(st, ast.Try):
            return self.try_stmt(st, after, env)
        if isinstance(st, ast.AugAssign) and isinstance(st.target, ast.Name) and isinstance(st.op, (ast.Add, ast.Sub)):
            name = st.target.id
            v, ty = self.pure(st.value)
            if self.types.get(name) != "oint" or ty != "int" or name not in env["defined"]:
                raise Unsupported("%s: %s += %s" % (self.name, name, ty))
            sign = "" if isinstance(st.op, ast.Add) else "-"
            return "let v_%s : option Z := oz_add v_%s (%s%s)%%Z in\n%s" % (name, name, sign, v, after(env))
        if isinstance(st, ast.While):
            return self.while_stmt(st, after, env)
        if isinstance(st, ast.For):
            return self.for_stmt(st, after, env)
        if isinstance(st, ast.Raise):
            return self.raise_stmt(st)
        if isinstance(st, ast.Break):
            if "break" not in env:
                raise Unsupported("%s: break outside a loop" % self.name)
            if rest:
                raise Unsupported("%s: statements after break" % self.name)
            return env["break"](env)
        if isinstance(st, ast.Return):
            if env.get("in_for"):
                raise Unsupported("%s: return inside a for loop" % self.name)
            if "break" in env:
                if env.get("ret_break") and st.value is None and not rest:
                    return env["break"](env)
                raise Unsupported("%s: return inside a loop" % self.name)
            return self.return_stmt(st, env)
        raise Unsupported("%s: statement %s" % (self.name, type(st).__name__))

    def try_stmt(self, st, after, env):
        """try: x = <ns>.require_taxon(label=e)
           except error.ImmutableTaxonNamespaceError: exc = self.<error constructor>(..); exc.__context__ = None; ..; raise exc"""
        ok = len(st.body) == 1 and isinstance(st.body[0], ast.Assign) and len(st.body[0].targets) == 1 \
            and isinstance(st.body[0].targets[0], ast.Name) and len(st.handlers) == 1 and not st.orelse and not st.finalbody
        if not ok:
            raise Unsupported("%s: try statement shape" % self.name)
        target = st.body[0].targets[0].id
        call = st.body[0].value
        h = st.handlers[0]
        ok = isinstance(call, ast.Call) and isinstance(call.func, ast.Attribute) and call.func.attr == "require_taxon" \
            and isinstance(call.func.value, ast.Name) and self.types.get(call.func.value.id) == "ons" \
            and not call.args and [k.arg for k in call.keywords] == ["label"] \
            and isinstance(h.type, ast.Attribute) and h.type.attr == "ImmutableTaxonNamespaceError" and h.name is None
        if not ok or self.types.get(target) != "otaxon":
            raise Unsupported("%s: try statement: only require_taxon / ImmutableTaxonNamespaceError" % self.name)
        ns = call.func.value.id
        e, ety = self.pure(call.keywords[0].value)
        if ety != "ostr":
            raise Unsupported("%s: require_taxon(label=%s)" % (self.name, ety))
        a = ns + "__is_mutable"
        if a not in env["defined"]:
            raise Unsupported("%s: %s.is_mutable is not known at require_taxon" % (self.name, ns))
        # handler: local exception object built by an error constructor, its dunder attributes cleared, raised
        exc_src = {}
        raised = None
        for hs in h.body:
            if isinstance(hs, ast.Assign) and len(hs.targets) == 1 and isinstance(hs.targets[0], ast.Name) \
                    and isinstance(hs.value, ast.Call) and self.is_self_attr(hs.value.func) and hs.value.func.attr in RAISES:
                exc_src[hs.targets[0].id] = RAISES[hs.value.func.attr]
            elif isinstance(hs, ast.Assign) and len(hs.targets) == 1 and isinstance(hs.targets[0], ast.Attribute) \
                    and isinstance(hs.targets[0].value, ast.Name) and hs.targets[0].value.id in exc_src \
                    and hs.targets[0].attr in ("__context__", "__cause__") and isinstance(hs.value, ast.Constant) and hs.value.value is None:
                pass
            elif isinstance(hs, ast.Raise) and isinstance(hs.exc, ast.Name) and hs.exc.id in exc_src and hs is h.body[-1]:
                raised = exc_src[hs.exc.id]
            elif isinstance(hs, ast.Raise) and hs is h.body[-1] and isinstance(hs.exc, ast.Call) and self.is_self_attr(hs.exc.func) \
                    and hs.exc.func.attr in RAISES:
                raised = RAISES[hs.exc.func.attr]
            else:
                raise Unsupported("%s: statement in except handler" % self.name)
        if raised is None:
            raise Unsupported("%s: except handler does not raise" % self.name)
        r = self.fresh()
        rest = after(self.define(env, target))
        return self.bind("ifc_ns_require_taxon s v_%s v_%s %s" % (ns, a, e), "(%s, s)" % r,
                         "match %s with\n| None => %s\n| Some v_%s =>\n%s\nend" % (r, self.err(raised), target, rest))

    def raise_stmt(self, st):
        e = st.exc
        if isinstance(e, ast.Call) and self.is_self_attr(e.func) and e.func.attr in RAISES:
            return self.err(RAISES[e.func.attr])
        if isinstance(e, ast.Call) and isinstance(e.func, ast.Name) and e.func.id in BUILTIN_RAISES and st.cause is None:
            return self.err(BUILTIN_RAISES[e.func.id])
        raise Unsupported("%s: raise %s" % (self.name, ast.dump(st)[:120]))

    def return_stmt(self, st, env):
        rt = self.spec["ret"]
        if st.value is not None and self.is_effect(st.value):
            eff = self.effect(st.value)
            op, ty, inout, _f = eff
            if ty != rt or inout:
                raise Unsupported("%s: returns a call of type %s, declared %s" % (self.name, ty, rt))
            parts = ["v_ret__"] + ["v_" + v for v in self.inout] + ["s"]
            return self.bind(op, "(v_ret__, s)", self.ok("(" + ", ".join(parts) + ")"))
        if st.value is None:
            if rt != "unit":
                raise Unsupported("%s: bare return" % self.name)
            val = "tt"
        else:
            val, ty = self.pure(st.value, want=rt)
            if ty != rt:
                raise Unsupported("%s: returns %s, declared %s" % (self.name, ty, rt))
        parts = [val] + ["v_" + v for v in self.inout] + ["s"]
        return self.ok("(" + ", ".join(parts) + ")")

    def fall_off(self, env):
        if self.spec["ret"] != "unit":
            raise Unsupported("%s: falls off the end but returns %s" % (self.name, self.spec["ret"]))
        parts = ["tt"] + ["v_" + v for v in self.inout] + ["s"]
        return self.ok("(" + ", ".join(parts) + ")")

    def define(self, env, v):
        e = dict(env)
        e["defined"] = env["defined"] | {v}
        return e

    def call_stmt(self, call, target, after, env):
        """an effectful call as a statement or as the right-hand side of `target = call`"""
        # nexusprocessing.process_comments_for_item(x, comments, self.extract_comment_metadata)
        if isinstance(call.func, ast.Attribute) and isinstance(call.func.value, ast.Name) and call.func.value.id == "nexusprocessing" \
                and call.func.attr == "process_comments_for_item":
            if target is not None or len(call.args) != 3 or call.keywords or not self.is_self_attr(call.args[2], "extract_comment_metadata"):
                raise Unsupported("%s: process_comments_for_item shape" % self.name)
            x, xt = self.pure(call.args[0])
            cs, ct = self.pure(call.args[1])
            if ct != "comments" or not isinstance(call.args[0], ast.Name):
                raise Unsupported("%s: process_comments_for_item arguments" % self.name)
            if xt == "otl":
                return "let s := ifc_comments_for_treelist s %s %s in\n%s" % (x, cs, after(env))
            if xt == "tree":
                return "let %s := ifc_comments_for_tree %s %s in\n%s" % (x, x, cs, after(env))
            raise Unsupported("%s: process_comments_for_item on %s" % (self.name, xt))
        # self.add_tree(tree=x, is_bipartitions_updated=False)   (TreeArray: followed through the trees it is given)
        if self.entry and target is None and self.spec.get("adds_to") and self.is_self_attr(call.func, "add_tree") and not call.args \
                and sorted(k.arg for k in call.keywords) == ["is_bipartitions_updated", "tree"]:
            kws = {k.arg: k.value for k in call.keywords}
            t, tty = self.pure(kws["tree"])
            b = kws["is_bipartitions_updated"]
            if tty != "tree" or not (isinstance(b, ast.Constant) and b.value is False):
                raise Unsupported("%s: add_tree arguments" % self.name)
            x = "v_" + self.spec["adds_to"]
            return "let %s : list T := %s ++ [%s] in\n%s" % (x, x, t, after(env))
        # <set>.add(e)
        if target is None and isinstance(call.func, ast.Attribute) and call.func.attr == "add" and isinstance(call.func.value, ast.Name) \
                and self.types.get(call.func.value.id) == "sset" and len(call.args) == 1 and not call.keywords:
            e, ety = self.pure(call.args[0])
            if ety != "ostr":
                raise Unsupported("%s: set.add(%s)" % (self.name, ety))
            x = "v_" + call.func.value.id
            return "let %s : sset := sset_add %s %s in\n%s" % (x, x, e, after(env))
        # <mapper>.add_translate_token(token, taxon)
        if target is None and isinstance(call.func, ast.Attribute) and call.func.attr == "add_translate_token" \
                and isinstance(call.func.value, ast.Name) and self.types.get(call.func.value.id) == "omap" \
                and len(call.args) == 2 and not call.keywords:
            a, aty = self.pure(call.args[0])
            b, bty = self.pure(call.args[1])
            if aty != "ostr" or bty != "otaxon":
                raise Unsupported("%s: add_translate_token(%s, %s)" % (self.name, aty, bty))
            x = "v_" + call.func.value.id
            return "let %s : option (gmap) := ifc_mapper_add_token s %s %s %s in\n%s" % (x, x, a, b, after(env))
        # self._taxon_namespaces.append(ns) / self._tree_lists.append(tl)
        if target is None and isinstance(call.func, ast.Attribute) and call.func.attr == "append" and self.is_self_attr(call.func.value) \
                and call.func.value.attr in ("_taxon_namespaces", "_tree_lists") and len(call.args) == 1 and not call.keywords:
            x, xt = self.pure(call.args[0])
            if call.func.value.attr == "_taxon_namespaces" and xt == "ons":
                return "let s := rd_register_ns s %s in\n%s" % (x, after(env))
            if call.func.value.attr == "_tree_lists" and xt == "otl":
                return "let s := rd_register_tree_list s %s in\n%s" % (x, after(env))
            raise Unsupported("%s: append of %s to self.%s" % (self.name, xt, call.func.value.attr))
        # <TreeList>.copy_annotations_from(<TreeList>): annotations are not part of a list's trees
        if self.entry and target is None and isinstance(call.func, ast.Attribute) and call.func.attr == "copy_annotations_from" \
                and isinstance(call.func.value, ast.Name) and self.types.get(call.func.value.id) == "tlist" \
                and len(call.args) == 1 and isinstance(call.args[0], ast.Name) and self.types.get(call.args[0].id) == "tlist" and not call.keywords:
            return after(env)
        eff = self.reader_call(call) if self.entry else None
        if eff is None:
            eff = self.effect(call)
        if eff is None:
            raise Unsupported("%s: call statement %s" % (self.name, ast.dump(call)[:140]))
        op, ty, inout, factory = eff
        if target is None:
            tv = "_"
        else:
            if target not in self.types:
                raise Unsupported("%s: undeclared target %s" % (self.name, target))
            want = self.types[target]
            if ty != want and not (ty == "tree" and want == "tree"):
                raise Unsupported("%s: %s := call of type %s, declared %s" % (self.name, target, ty, want))
            tv = "v_" + target
        pat = "(" + ", ".join([tv] + [("_" if v == "_" else "v_" + v) for v in inout] + ["s"]) + ")"
        e2 = env
        if target is not None:
            e2 = self.define(e2, target)
        locked = []
        for lv in self.locked_by(call):
            a = lv + "__is_mutable"
            self.types[a] = "bool"
            e2 = self.define(e2, a)
            locked.append(a)
        body = after(e2)
        for a in locked:
            body = "let v_%s : bool := false in\n%s" % (a, body)
        if isinstance(factory, tuple) and target is not None:
            if factory[1] != "None":
                body = "let s := ifc_accession_opt s %s %s in\n%s" % (factory[1], tv, body)
        elif factory is not None and target is not None:
            body = "let s := ifc_accession s %s %s in\n%s" % (factory, tv, body)
        if op.split(" ")[0].startswith("g_") and self.translated_is_generator(call):
            raise Unsupported("%s: generator called as a function" % self.name)
        return self.bind(op, pat, body)

    def reader_call(self, call):
        """reader.read_tree_lists(stream=.., taxon_namespace_factory=.., tree_list_factory=.., global_annotations_target=None)
           reader.read_dataset(stream=.., dataset=.., taxon_namespace=.., exclude_trees=.., exclude_chars=.., state_alphabet_factory=..)"""
        f = call.func
        if isinstance(f, ast.Attribute) and f.attr == "read_dataset" and isinstance(f.value, ast.Name) \
                and self.types.get(f.value.id) == "reader":
            kws = {k.arg: k.value for k in call.keywords}
            if call.args or sorted(kws) != ["dataset", "exclude_chars", "exclude_trees", "state_alphabet_factory", "stream", "taxon_namespace"]:
                raise Unsupported("%s: arguments of read_dataset" % self.name)
            stream, sty = self.pure(kws["stream"])
            tns, nty = self.pure(kws["taxon_namespace"], want="ons")
            et, ety = self.pure(kws["exclude_trees"])
            ec, cty = self.pure(kws["exclude_chars"])
            ds = kws["dataset"]
            saf = kws["state_alphabet_factory"]
            ok = sty == "doc" and nty == "ons" and ety == "bool" and cty == "bool" and isinstance(ds, ast.Name) \
                and self.types.get(ds.id) == "dsval" and isinstance(saf, ast.Attribute) and saf.attr == "StateAlphabet"
            if not ok:
                raise Unsupported("%s: read_dataset argument types" % self.name)
            op = "ifc_read_dataset v_%s fuel s %s v_%s %s %s %s" % (f.value.id, stream, ds.id, tns, et, ec)
            return op, "unit", [ds.id], None
        if not (isinstance(f, ast.Attribute) and f.attr == "read_tree_lists" and isinstance(f.value, ast.Name)
                and self.types.get(f.value.id) == "reader"):
            return None
        kws = {k.arg: k.value for k in call.keywords}
        if call.args or sorted(kws) != ["global_annotations_target", "stream", "taxon_namespace_factory", "tree_list_factory"]:
            raise Unsupported("%s: arguments of read_tree_lists" % self.name)
        stream, sty = self.pure(kws["stream"])
        if sty != "doc":
            raise Unsupported("%s: stream argument" % self.name)
        g = kws["global_annotations_target"]
        if not (isinstance(g, ast.Constant) and g.value is None):
            raise Unsupported("%s: global_annotations_target" % self.name)
        tgt = self.spec.get("target_list")

        def of_target(n, attr):
            return tgt is not None and isinstance(n, ast.Attribute) and n.attr == attr and isinstance(n.value, ast.Name) and n.value.id == tgt
        nf = kws["taxon_namespace_factory"]
        if not ((isinstance(nf, ast.Name) and nf.id in self.spec.get("ns_factories", [])) or of_target(nf, "_taxon_namespace_pseudofactory")):
            raise Unsupported("%s: taxon_namespace_factory argument" % self.name)
        tf = kws["tree_list_factory"]
        if isinstance(tf, ast.Name) and tf.id in self.spec.get("tl_factories", {}):
            tlf = self.spec["tl_factories"][tf.id]
        elif of_target(tf, "_tree_list_pseudofactory"):
            tlf = "TLFixed"
        elif of_target(tf, "__class__"):
            tlf = "TLNew"
        else:
            raise Unsupported("%s: tree_list_factory argument" % self.name)
        tl = "v_" + tgt if tgt is not None else "[]"
        op = "ifc_read_tree_lists v_%s %s fuel s %s %s" % (f.value.id, tlf, stream, tl)
        return op, "olist", [tgt] if tgt is not None else ["_"], None

    def locked_by(self, call):
        """local namespace variables that a call of a translated method locks (it constructs a symbol mapper over them)"""
        sm = self.self_call(call)
        out = []
        if sm in self.translated:
            spec = self.translated[sm]
            names = [it[0] for it in spec["params"]]
            for p in spec.get("locks", []):
                idx = names.index(p)
                cand = call.args[idx] if idx < len(call.args) else next((k.value for k in call.keywords if k.arg == p), None)
                if isinstance(cand, ast.Name) and self.types.get(cand.id) == "ons":
                    out.append(cand.id)
        return out

    def translated_is_generator(self, call):
        sm = self.self_call(call)
        return sm in self.translated and self.translated[sm].get("generator")

    def assign(self, target, value, after, env):
        # self.<followed attribute> = e
        if self.spec.get("self_attrs") and self.is_self_attr(target) and target.attr in SELF_ATTRS:
            ty = SELF_ATTRS[target.attr]
            v, vty = self.pure(value, want=ty)
            if vty != ty:
                raise Unsupported("%s: self.%s := %s" % (self.name, target.attr, vty))
            a = "self__" + target.attr
            self.types[a] = ty
            return "let v_%s : %s := %s in\n%s" % (a, self.ctype(ty), v, after(self.define(env, a)))
        # self.<attr> = ...
        if self.is_self_attr(target):
            if target.attr == "_file_specified_ntax":
                v, ty = self.pure(value)
                if ty != "int":
                    raise Unsupported("%s: ntax := %s" % (self.name, ty))
                return "let s := rd_set_ntax s %s in\n%s" % (v, after(env))
            if target.attr == "_file_specified_nchar":
                v, ty = self.pure(value)
                if ty != "int":
                    raise Unsupported("%s: nchar := %s" % (self.name, ty))
                return "let s := rd_set_nchar s %s in\n%s" % (v, after(env))
            raise Unsupported("%s: assignment to self.%s" % (self.name, target.attr))
        # <TaxonNamespace>.is_mutable = <bool>: the attribute is followed as a local of this function
        if isinstance(target, ast.Attribute) and target.attr == "is_mutable" and isinstance(target.value, ast.Name) \
                and self.types.get(target.value.id) == "ons":
            v, ty = self.pure(value)
            if ty != "bool":
                raise Unsupported("%s: is_mutable := %s" % (self.name, ty))
            a = target.value.id + "__is_mutable"
            self.types[a] = "bool"
            return "let v_%s : bool := %s in\n%s" % (a, v, after(self.define(env, a)))
        # self._nexus_tokenizer.allow_eof = <bool>
        if self.tokenizer_attr(target) == "allow_eof" and isinstance(value, ast.Constant) and value.value in (True, False):
            return "let s := tk_set_allow_eof s %s in\n%s" % ("true" if value.value else "false", after(env))
        # <DataSet>.attached_taxon_namespace = ns
        if self.entry and isinstance(target, ast.Attribute) and target.attr == "attached_taxon_namespace" \
                and isinstance(target.value, ast.Name) and self.types.get(target.value.id) == "dsval":
            v, ty = self.pure(value, want="ons")
            if ty != "ons":
                raise Unsupported("%s: dataset.attached_taxon_namespace := %s" % (self.name, ty))
            x = "v_" + target.value.id
            return "let %s : dsval T := ds_attach %s %s in\n%s" % (x, x, v, after(env))
        # dataset = DataSet(label=..)
        if self.entry and isinstance(target, ast.Name) and self.types.get(target.id) == "dsval" and isinstance(value, ast.Call) \
                and isinstance(value.func, ast.Name) and value.func.id == "DataSet" and not value.args \
                and [k.arg for k in value.keywords] == ["label"]:
            return "let v_%s : dsval T := ds_new in\n%s" % (target.id, after(self.define(env, target.id)))
        # reader.attached_taxon_namespace = <the namespace of the route>
        if self.entry and isinstance(target, ast.Attribute) and target.attr == "attached_taxon_namespace" \
                and isinstance(target.value, ast.Name) and self.types.get(target.value.id) == "reader":
            tgt = self.spec.get("target_list")
            ok = (isinstance(value, ast.Name) and value.id == "taxon_namespace") or \
                (isinstance(value, ast.Attribute) and value.attr == "taxon_namespace" and isinstance(value.value, ast.Name) and value.value.id == tgt)
            if not ok:
                raise Unsupported("%s: attached_taxon_namespace := %s" % (self.name, ast.dump(value)[:80]))
            x = "v_" + target.value.id
            return "let %s := rd_attach %s in\n%s" % (x, x, after(env))
        # x.label = e   (a tree)
        if isinstance(target, ast.Attribute) and isinstance(target.value, ast.Name) and target.attr == "label" \
                and self.types.get(target.value.id) == "tree":
            v, ty = self.pure(value, want="ostr")
            if ty != "ostr":
                raise Unsupported("%s: label := %s" % (self.name, ty))
            x = "v_" + target.value.id
            return "let %s := ifc_set_tree_label %s %s in\n%s" % (x, x, v, after(env))
        # links['taxa'] = e
        if isinstance(target, ast.Subscript) and isinstance(target.value, ast.Name) and self.types.get(target.value.id) == "links":
            key = target.slice
            if isinstance(key, ast.Constant) and key.value in ("taxa", "characters"):
                v, ty = self.pure(value, want="ostr")
                if ty != "ostr":
                    raise Unsupported("%s: links[..] := %s" % (self.name, ty))
                x = "v_" + target.value.id
                return "let %s := links_set_%s %s %s in\n%s" % (x, key.value, x, v, after(env))
            raise Unsupported("%s: subscript assignment" % self.name)
        if not isinstance(target, ast.Name):
            raise Unsupported("%s: assignment target %s" % (self.name, ast.dump(target)[:80]))
        name = target.id
        is_tok = isinstance(value, ast.Call) and isinstance(value.func, ast.Attribute) and value.func.attr == "NexusTokenizer"
        if name not in self.types and not is_tok:
            raise Unsupported("%s: undeclared variable %s" % (self.name, name))
        want = self.types.get(name)
        # nexus_tokenizer = nexusprocessing.NexusTokenizer(stream, preserve_unquoted_underscores=..)
        if isinstance(value, ast.Call) and isinstance(value.func, ast.Attribute) and value.func.attr == "NexusTokenizer" \
                and isinstance(value.func.value, ast.Name) and value.func.value.id == "nexusprocessing":
            ok = len(value.args) == 1 and isinstance(value.args[0], ast.Name) and value.args[0].id == "stream" \
                and [k.arg for k in value.keywords] == ["preserve_unquoted_underscores"] and self.tokenizer_local is None
            if not ok:
                raise Unsupported("%s: NexusTokenizer(..) shape" % self.name)
            self.tokenizer_local = name
            return self.bind("ifc_open_stream s", "(_, s)", after(env))
        # m = nexusprocessing.NexusTaxonSymbolMapper(taxon_namespace=ns, enable_lookup_by_taxon_number=b, case_sensitive=..)
        if isinstance(value, ast.Call) and isinstance(value.func, ast.Attribute) and value.func.attr == "NexusTaxonSymbolMapper" \
                and isinstance(value.func.value, ast.Name) and value.func.value.id == "nexusprocessing":
            kws = {k.arg: k.value for k in value.keywords}
            if value.args or sorted(kws) != ["case_sensitive", "enable_lookup_by_taxon_number", "taxon_namespace"] or want != "omap":
                raise Unsupported("%s: NexusTaxonSymbolMapper(..) shape" % self.name)
            ns, nty = self.pure(kws["taxon_namespace"], want="ons")
            nsnode = kws["taxon_namespace"]
            if isinstance(nsnode, ast.Name) and nsnode.id in [it[0] for it in self.spec["params"]]:
                # the constructor locks the namespace it is given (is_mutable = False): callers see it
                self.spec.setdefault("locks", [])
                if nsnode.id not in self.spec["locks"]:
                    self.spec["locks"].append(nsnode.id)
            btxt, bty = self.pure(kws["enable_lookup_by_taxon_number"])
            if nty != "ons" or bty != "bool":
                raise Unsupported("%s: NexusTaxonSymbolMapper(..) arguments" % self.name)
            return self.bind("ifc_new_mapper s %s %s" % (ns, btxt), "(v_%s, s)" % name,
                             after(self.define(env, name)))
        # x = <effect>  /  x = <effect>.get("k")
        if self.is_effect(value):
            return self.call_stmt(value, name, after, env)
        if isinstance(value, ast.Call) and isinstance(value.func, ast.Attribute) and value.func.attr == "get" \
                and self.is_effect(value.func.value) and len(value.args) == 1 and isinstance(value.args[0], ast.Constant) \
                and value.args[0].value in ("taxa", "characters") and not value.keywords:
            eff = self.effect(value.func.value)
            op, ty, inout, _f = eff
            if ty != "links" or want != "ostr" or inout:
                raise Unsupported("%s: .get on %s" % (self.name, ty))
            tmp = self.fresh("l")
            body = "let v_%s := links_get_%s %s in\n%s" % (name, value.args[0].value, tmp, after(self.define(env, name)))
            return self.bind(op, "(%s, s)" % tmp, body)
        # x = y[i]: IndexError when out of range (negative offsets count from the end)
        if isinstance(value, ast.Subscript) and not isinstance(value.slice, ast.Slice):
            seq, sty = self.pure(value.value)
            idx, ity = self.pure(value.slice)
            elem = {"olist": "tlist", "tlist": "tree"}.get(sty)
            if elem is None or elem != want or ity not in ("int", "oint"):
                raise Unsupported("%s: %s := %s[%s]" % (self.name, name, sty, ity))
            if ity == "oint":
                idx = "(oz_get %s)" % idx
            return "match py_index %s %s with\n| None => %s\n| Some v_%s =>\n%s\nend" % (
                seq, idx, self.err("IndexErr"), name, after(self.define(env, name)))
        v, ty = self.pure(value, want=want)
        if ty == "int" and want == "oint":
            v, ty = "(Some %s)" % v, "oint"
        if ty != want:
            if want == "tree" and ty == "otree":
                raise Unsupported("%s: %s := optional tree" % (self.name, name))
            raise Unsupported("%s: %s := %s, declared %s" % (self.name, name, ty, want))
        return "let v_%s : %s := %s in\n%s" % (name, self.ctype(want), v, after(self.define(env, name)))

    def if_stmt(self, st, after, env):
        # `if x is None: raise ..` on an optional tree: refinement
        if isinstance(st.test, ast.Compare) and len(st.test.ops) == 1 and isinstance(st.test.ops[0], ast.Is) \
                and isinstance(st.test.left, ast.Name) and self.types.get(st.test.left.id) == "otree" \
                and isinstance(st.test.comparators[0], ast.Constant) and st.test.comparators[0].value is None \
                and len(st.body) == 1 and isinstance(st.body[0], (ast.Raise, ast.Break, ast.Return)) and not st.orelse:
            x = st.test.left.id
            if isinstance(st.body[0], ast.Raise):
                none_branch = self.raise_stmt(st.body[0])
            elif isinstance(st.body[0], ast.Return):
                if not (env.get("ret_break") and st.body[0].value is None and "break" in env):
                    raise Unsupported("%s: return in a refinement test" % self.name)
                none_branch = env["break"](env)
            else:
                if "break" not in env:
                    raise Unsupported("%s: break outside a loop" % self.name)
                none_branch = env["break"](env)
            old = self.types[x]
            self.types[x] = "tree"
            try:
                some_branch = after(env)
            finally:
                self.types[x] = old
            return "match v_%s with\n| None => %s\n| Some v_%s =>\n%s\nend" % (x, none_branch, x, some_branch)
        # effectful call inside the test: hoist   `if <effect> != "X":`
        test = st.test
        pre = None
        if isinstance(test, ast.Compare) and self.is_effect(test.left):
            eff = self.effect(test.left)
            op, ty, inout, _f = eff
            if inout or ty != "ostr":
                raise Unsupported("%s: effect in test" % self.name)
            tmpname = "tmp%d_" % (self.tmp + 1)
            self.tmp += 1
            self.types[tmpname] = "ostr"
            test = ast.Compare(left=ast.Name(id=tmpname, ctx=ast.Load()), ops=test.ops, comparators=test.comparators)
            pre = (op, "(v_%s, s)" % tmpname)
        t, c = self.cond(test)
        if c is True:
            body = self.block(st.body, after, env)
        elif c is False:
            body = self.block(st.orelse, after, env) if st.orelse else after(env)
        elif not self.escapes(st.body) and not self.escapes(st.orelse):
            # both branches fall through: join on the state and the variables they assign
            a1, a2 = self.assigned(st.body), self.assigned(st.orelse)
            joined = [v for v in self.types if (v in a1 or v in a2) and (v in env["defined"] or (v in a1 and v in a2))]
            tup = "(" + ", ".join(["s"] + ["v_" + v for v in joined]) + ")"

            def done(e):
                return self.ok(tup)
            b1 = self.block(st.body, done, env)
            b2 = self.block(st.orelse, done, env) if st.orelse else self.ok(tup)
            e_after = dict(env)
            e_after["defined"] = env["defined"] | set(joined)
            rest = after(e_after)
            r = self.fresh()
            if self.gen:
                body = "ybind T (if %s then\n%s\nelse\n%s) (fun %s => let '%s := %s in\n%s)" % (t, b1, b2, r, tup, r, rest)
            else:
                body = "do %s <- (if %s then\n%s\nelse\n%s) ;; let '%s := %s in\n%s" % (r, t, b1, b2, tup, r, rest)
        else:
            # variables assigned in only one branch keep their previous value in the other: both branches
            # continue with `after` under the same environment of defined variables
            both = set(self.assigned(st.body)) & set(self.assigned(st.orelse)) if st.orelse else set()
            e_after = dict(env)
            e_after["defined"] = env["defined"] | both

            def cont(e):
                e2 = dict(e)
                e2["defined"] = e_after["defined"] | (e["defined"] & env["defined"])
                return after(e2)
            # a variable first defined in one branch only must not be used afterwards; `after` is compiled
            # under the intersection, so a use raises Unsupported (undefined read is checked in loops only)
            b1 = self.block(st.body, lambda e: after(self.merge_env(env, e, both)), env)
            b2 = self.block(st.orelse, lambda e: after(self.merge_env(env, e, both)), env) if st.orelse else after(env)
            body = "if %s then\n%s\nelse\n%s" % (t, b1, b2)
        if pre is not None:
            return self.bind(pre[0], pre[1], body)
        return body

    def escapes(self, stmts):
        """does the statement list contain a return, or a break that leaves the enclosing loop?"""
        def walk(sts, in_loop):
            for st in sts:
                if isinstance(st, ast.Return):
                    return True
                if isinstance(st, ast.Break) and not in_loop:
                    return True
                if isinstance(st, ast.If):
                    if walk(st.body, in_loop) or walk(st.orelse, in_loop):
                        return True
                elif isinstance(st, (ast.While, ast.For)):
                    if walk(st.body, True):
                        return True
            return False
        return walk(stmts, False)

    def merge_env(self, before, inner, both):
        e = dict(before)
        e["defined"] = before["defined"] | (inner["defined"] & both) | (inner["defined"] & before["defined"])
        # keep variables defined in the branch: Python would have them too on this path
        e["defined"] = e["defined"] | inner["defined"]
        return e

    def while_stmt(self, st, after, env):
        if st.orelse:
            raise Unsupported("%s: while-else" % self.name)
        self.nloops += 1
        lname = "%s_loop%d" % (gname(self.spec.get("name", self.name)), self.nloops)
        assigned = [v for v in self.assigned(st.body) if v in env["defined"]]
        reads = self.read_vars(st.body + [ast.Expr(value=st.test)])
        carried = [v for v in self.types if v in assigned]
        ro = [v for v in self.types if v in reads and v in env["defined"] and v not in carried]
        tup = "(" + ", ".join(["s"] + ["v_" + v for v in carried]) + ")"
        tup_ty = "(" + " * ".join(["gst"] + [self.ctype(self.types[v]) for v in carried]) + ")"
        args = " ".join(["v_" + v for v in ro] + ["s"] + ["v_" + v for v in carried])
        t, c = self.cond(st.test)
        inner_env = dict(env)
        inner_env["break"] = lambda e: self.ok(tup)
        inner_env["ret_break"] = id(st) in self.tail_loops

        def again(e):
            return "%s f %s" % (lname, args)
        body = self.block(st.body, again, inner_env)
        if c is True:
            step = body
        elif c is False:
            raise Unsupported("%s: while False" % self.name)
        else:
            step = "if %s then\n%s\nelse %s" % (t, body, self.ok(tup))
        params = "".join(" (v_%s : %s)" % (v, self.ctype(self.types[v])) for v in ro) + " (s : gst)" \
            + "".join(" (v_%s : %s)" % (v, self.ctype(self.types[v])) for v in carried)
        text = "Fixpoint %s (fuel : nat)%s : %s :=\nmatch fuel with\n| O => %s\n| S f =>\n%s\nend." % (
            lname, params, self.result_type(tup_ty), self.out_of_fuel(), step)
        self.loops.append(text)
        e_after = dict(env)
        use = self.bind("%s fuel %s" % (lname, args), tup, after(e_after), lifted=False) if self.gen else \
            self.bind("%s fuel %s" % (lname, args), tup, after(e_after))
        return use

    def for_stmt(self, st, after, env):
        # for x in self.<generator>(): yield x
        if self.gen and isinstance(st.target, ast.Name) and isinstance(st.iter, ast.Call) and self.self_call(st.iter) in self.translated \
                and self.translated[self.self_call(st.iter)].get("generator") and not st.iter.args and not st.iter.keywords \
                and len(st.body) == 1 and isinstance(st.body[0], ast.Expr) and isinstance(st.body[0].value, ast.Yield) \
                and isinstance(st.body[0].value.value, ast.Name) and st.body[0].value.value.id == st.target.id and not st.orelse:
            callee = self.self_call(st.iter)
            r = self.fresh()
            return "ybind %s (%s fuel s) (fun %s => let '(_, s) := %s in\n%s)" % (self.yT, gname(callee), r, r, after(env))
        # for tree in self.tree_iter(stream=.., taxon_symbol_mapper=M, tree_factory=F): pass   (the iterator is run to its end)
        if self.spec.get("self_attrs") and isinstance(st.iter, ast.Call) and self.is_self_attr(st.iter.func, "tree_iter") \
                and len(st.body) == 1 and isinstance(st.body[0], ast.Pass) and not st.orelse and isinstance(st.target, ast.Name):
            kws = {k.arg: k.value for k in st.iter.keywords}
            if st.iter.args or sorted(kws) != ["stream", "taxon_symbol_mapper", "tree_factory"]:
                raise Unsupported("%s: arguments of tree_iter" % self.name)
            stv, sty = self.pure(kws["stream"])
            m = kws["taxon_symbol_mapper"]
            fac, fty = self.pure(kws["tree_factory"])
            if not (isinstance(m, ast.Name) and self.types.get(m.id) == "omap") or fty != "factory" or sty != "unit":
                raise Unsupported("%s: tree_iter argument types" % self.name)
            op = "ydrain (g_newick_tree_iter T lower parse_tree fuel s %s v_%s %s)" % (stv, m.id, fac)
            return self.bind(op, "(_, v_%s, s)" % m.id, after(env))
        # for x in self._taxon_namespaces: if <test on x>: <list>.append(x)     (a filter, in registry order)
        if isinstance(st.target, ast.Name) and self.is_self_attr(st.iter, "_taxon_namespaces") and not st.orelse \
                and len(st.body) == 1 and isinstance(st.body[0], ast.If) and not st.body[0].orelse and len(st.body[0].body) == 1:
            inner = st.body[0].body[0]
            x = st.target.id
            ok = isinstance(inner, ast.Expr) and isinstance(inner.value, ast.Call) and isinstance(inner.value.func, ast.Attribute) \
                and inner.value.func.attr == "append" and isinstance(inner.value.func.value, ast.Name) \
                and self.types.get(inner.value.func.value.id) == "nslist" and len(inner.value.args) == 1 \
                and isinstance(inner.value.args[0], ast.Name) and inner.value.args[0].id == x and not inner.value.keywords
            if ok:
                old = self.types.get(x)
                self.types[x] = "ns"
                try:
                    t, c = self.cond(st.body[0].test)
                finally:
                    if old is None:
                        del self.types[x]
                    else:
                        self.types[x] = old
                if c is not None:
                    raise Unsupported("%s: constant filter" % self.name)
                acc = "v_" + inner.value.func.value.id
                return "let %s : list nat := %s ++ filter (fun v_%s : nat => %s) (rd_registry s) in\n%s" % (acc, acc, x, t, after(env))
        # for x in <list>[<k>:] / <list>:  <TreeList>._trees.append(x)
        if self.entry and isinstance(st.target, ast.Name) and not st.orelse and len(st.body) == 1 and isinstance(st.body[0], ast.Expr) \
                and isinstance(st.body[0].value, ast.Call):
            c = st.body[0].value
            f = c.func
            ok = isinstance(f, ast.Attribute) and f.attr == "append" and isinstance(f.value, ast.Attribute) and f.value.attr == "_trees" \
                and isinstance(f.value.value, ast.Name) and self.types.get(f.value.value.id) == "tlist" \
                and len(c.args) == 1 and isinstance(c.args[0], ast.Name) and c.args[0].id == st.target.id and not c.keywords
            if ok:
                recv = "v_" + f.value.value.id
                it = st.iter
                if isinstance(it, ast.Subscript) and isinstance(it.slice, ast.Slice) and it.slice.upper is None and it.slice.step is None \
                        and it.slice.lower is not None:
                    seq, sty = self.pure(it.value)
                    lo, lty = self.pure(it.slice.lower)
                    if sty != "tlist" or lty not in ("int", "oint"):
                        raise Unsupported("%s: slice" % self.name)
                    if lty == "oint":
                        lo = "(oz_get %s)" % lo
                    src = "(py_slice_from %s %s)" % (seq, lo)
                else:
                    seq, sty = self.pure(it)
                    if sty != "tlist":
                        raise Unsupported("%s: for over %s" % (self.name, sty))
                    src = seq
                return "let %s : list T := ifc_extend %s %s in\n%s" % (recv, recv, src, after(env))
        # for x in <finite list> / for i, x in enumerate(<finite list>): body without break / return
        if not self.gen and not st.orelse:
            it = st.iter
            enum = isinstance(it, ast.Call) and isinstance(it.func, ast.Name) and it.func.id == "enumerate" and len(it.args) == 1 and not it.keywords
            seq, sty = self.pure(it.args[0] if enum else it)
            elem = {"otaxonlist": "otaxon", "nslist": "ns", "tlist": "tree", "olist": "tlist", "yielder": "tree"}.get(sty)
            if elem is None:
                raise Unsupported("%s: for over %s" % (self.name, sty))
            gen_end = None
            if sty == "yielder":
                # an iterator: the items it hands out, then (in the for statement) the exception it ends with, if any
                gen_end = "yl_end %s" % seq
                seq = "(yl_items %s)" % seq
            if enum:
                if not (isinstance(st.target, ast.Tuple) and len(st.target.elts) == 2 and all(isinstance(e, ast.Name) for e in st.target.elts)):
                    raise Unsupported("%s: enumerate target" % self.name)
                iname, xname = st.target.elts[0].id, st.target.elts[1].id
                targets = [(iname, "int"), (xname, elem)]
                seq = "(enum_z %s)" % seq
                pat = "'(v_%s, v_%s)" % (iname, xname)
            else:
                if not isinstance(st.target, ast.Name):
                    raise Unsupported("%s: for target" % self.name)
                targets = [(st.target.id, elem)]
                pat = "v_%s" % st.target.id
            saved = {}
            for nme, ty in targets:
                saved[nme] = self.types.get(nme)
                self.types[nme] = ty
            try:
                tnames = [nme for nme, _ in targets]
                carried = [v for v in self.types if v in self.assigned(st.body) and v in env["defined"] and v not in tnames]
                tup = "(" + ", ".join(["s"] + ["v_" + v for v in carried]) + ")"
                inner = {"defined": env["defined"] | set(tnames), "in_for": True}
                body = self.block(st.body, lambda e: self.ok(tup), inner)
            finally:
                for nme, old in saved.items():
                    if old is None:
                        del self.types[nme]
                    else:
                        self.types[nme] = old
            op = "for_res (fun acc__ %s => let '%s := acc__ in\n%s) %s %s" % (pat, tup, body, seq, tup)
            rest_txt = after(env)
            if gen_end is not None:
                r = self.fresh()
                rest_txt = "do %s <- %s ;;\n%s" % (r, gen_end, rest_txt)
            return self.bind(op, tup, rest_txt)
        raise Unsupported("%s: for loop %s" % (self.name, ast.dump(st.iter)[:100]))

    # ---------------------------------------------------------------- function
    def opening(self, stmts):
        """`if self._nexus_tokenizer is None: self.create_tokenizer(stream, ..) else: self._nexus_tokenizer.set_stream(stream)`"""
        if not stmts:
            return False
        st = stmts[0]
        if not isinstance(st, ast.If):
            return False
        t = st.test
        ok = isinstance(t, ast.Compare) and self.is_self_attr(t.left, "_nexus_tokenizer") and isinstance(t.ops[0], ast.Is) \
            and isinstance(t.comparators[0], ast.Constant) and t.comparators[0].value is None
        ok = ok and len(st.body) == 1 and isinstance(st.body[0], ast.Expr) and self.self_call(st.body[0].value) == "create_tokenizer"
        ok = ok and len(st.orelse) == 1 and isinstance(st.orelse[0], ast.Expr) and self.tokenizer_call(st.orelse[0].value) == "set_stream"
        return bool(ok)

    # ---------------------------------------------------------------- types of undeclared locals
    def type_of_value(self, value):
        """type of the right-hand side of an assignment under the types known so far, or None"""
        if isinstance(value, ast.Constant) and value.value is None:
            return None
        try:
            if isinstance(value, ast.Subscript) and not isinstance(value.slice, ast.Slice):
                _t, sty = self.pure(value.value)
                return {"olist": "tlist", "tlist": "tree"}.get(sty)
            if isinstance(value, ast.Call) and isinstance(value.func, ast.Attribute) and value.func.attr == "get" \
                    and self.is_effect(value.func.value):
                return "ostr"
            if self.is_effect(value):
                eff = (self.reader_call(value) if self.entry else None) or self.effect(value)
                return eff[1] if eff else None
            _t, ty = self.pure(value)
            return ty
        except Unsupported:
            return None

    def infer_locals(self, body):
        """locals that are not in the declared table get the type of the first assignment that determines one
        (a renamed local keeps compiling); declared names keep their place in the variable order"""
        stores = []

        def visit(stmts):
            for st in stmts:
                if isinstance(st, ast.Assign) and len(st.targets) == 1 and isinstance(st.targets[0], ast.Name):
                    stores.append((st.targets[0].id, st.value))
                for part in ("body", "orelse"):
                    sub = getattr(st, part, None)
                    if isinstance(sub, list) and not isinstance(st, (ast.FunctionDef, ast.Lambda)):
                        visit(sub)
        visit(body)
        changed = True
        while changed:
            changed = False
            for name, value in stores:
                if name in self.types:
                    continue
                ty = self.type_of_value(value)
                if ty is not None:
                    self.types[name] = ty
                    changed = True

    def compile(self):
        body = list(self.node.body)
        env = {"defined": set(it[0] for it in self.spec["params"])}
        extra = []
        if self.spec.get("self_attrs"):
            extra = list(self.spec.get("fn_params", [])) + list(SELF_IN_PARAMS)
            for nme, ty in extra:
                self.types[nme] = ty
                env["defined"].add(nme)
        prelude = None
        if body and isinstance(body[0], ast.Expr) and isinstance(body[0].value, ast.Constant):
            body = body[1:]
        if self.opening(body):
            body = body[1:]
            prelude = "ifc_open_stream s"
        # default parameter values: None, or the value declared for the parameter
        if not self.entry:
            pos = self.node.args.args[1:]
            defaults = [None] * (len(pos) - len(self.node.args.defaults)) + list(self.node.args.defaults)
            for a, d in zip(pos, defaults):
                declared = next((it[2] for it in self.spec["params"] if it[0] == a.arg and len(it) > 2), None)
                if a.arg in self.spec.get("const_params", {}):
                    declared = self.spec["const_params"][a.arg]
                if d is None:
                    if declared is not None:
                        raise Unsupported("%s: parameter %s lost its default" % (self.name, a.arg))
                    continue
                if not isinstance(d, ast.Constant):
                    raise Unsupported("%s: default argument" % self.name)
                txt = {None: "None", True: "true", False: "false"}.get(d.value) if d.value in (None, True, False) else None
                idx = next((i for i, it in enumerate(self.spec["params"]) if it[0] == a.arg), None)
                if txt in ("true", "false") and idx is not None and self.spec["params"][idx][1] == "bool" and declared is not None:
                    # the default of a bool parameter is read off the AST: callers that omit the argument get it
                    self.spec["params"][idx] = (a.arg, "bool", txt)
                    continue
                if txt is None or (declared is not None and declared != txt) or (declared is None and txt != "None"):
                    raise Unsupported("%s: default of %s" % (self.name, a.arg))
        else:
            for d in self.node.args.defaults:
                if not (isinstance(d, ast.Constant) and d.value is None):
                    raise Unsupported("%s: default argument" % self.name)
        self.infer_locals(body)
        if body and isinstance(body[-1], ast.While) and self.spec["ret"] == "unit":
            self.tail_loops.add(id(body[-1]))     # `return` there only leaves the loop: nothing follows it
        if self.entry:
            a = self.node.args
            if [x.arg for x in a.args] != self.spec["pyargs"] or a.vararg is not None or a.kwarg is None or a.kwonlyargs:
                raise Unsupported("%s: parameters" % self.name)
        else:
            names = [a.arg for a in self.node.args.args[1:]]
            if names != [it[0] for it in self.spec["params"]] + list(self.spec.get("const_params", {})):
                raise Unsupported("%s: parameters are %s" % (self.name, names))
        text = self.block(body, self.fall_off, env)
        if self.setup_left:
            raise Unsupported("%s: expected statement missing: %s" % (self.name, self.setup_left[0][:100]))
        if prelude:
            text = self.bind(prelude, "(_, s)", text)
        params = "".join(" (v_%s : %s)" % (nme, self.ctype(ty)) for nme, ty in extra) + \
            "".join(" (v_%s : %s)" % (it[0], self.ctype(it[1])) for it in self.spec["params"])
        head = "Definition %s (fuel : nat) (s : %s)%s : %s :=\n%s." % (
            gname(self.spec.get("name", self.name)), self.state_ty, params, self.result_type(self.ret_tuple_type()), text)
        return "\n\n".join(self.loops + [head])


HEADER = """(* GENERATED by py/dv/gen_routes.py from the current DendroPy source - do not edit.
   Statement-by-statement translation of the reading-route code over Model/C13GenPrims.v. *)
From Coq Require Import ZArith List Bool.
From Coq Require String. Import String.StringSyntax.
From DV Require Import Model.PyPrims Model.C13Model Model.C13GenPrims.
Import ListNotations.

Section Routes.
Variable T : Type.
Variables lower upper : str -> str.
Variable parse_tree : mapper -> tz -> res (option T * mapper * tz).
Variable set_label : T -> option str -> T.
Variable add_comments : T -> list str -> T.
Variable c : nscfg.
Variable tlf : tl_factory.
Variable et : bool.            (* self.exclude_trees *)

Notation gst := (gst T).
Notation tk_next_token := (tk_next_token T).
Notation tk_require_next_token := (tk_require_next_token T).
Notation tk_next_token_ucase := (tk_next_token_ucase T upper).
Notation tk_require_next_token_ucase := (tk_require_next_token_ucase T upper).
Notation tk_skip_to_semicolon := (tk_skip_to_semicolon T).
Notation tk_cast_ucase := (tk_cast_ucase T upper).
Notation tk_pull_comments := (tk_pull_comments T).
Notation tk_process_and_clear := (tk_process_and_clear T).
Notation tk_is_eof := (tk_is_eof T).
Notation tk_current_token := (tk_current_token T).
Notation tk_is_token_quoted := (tk_is_token_quoted T).
Notation o_upper := (o_upper upper).
Notation rd_ntax := (rd_ntax T).
Notation rd_set_ntax := (rd_set_ntax T).
Notation rd_set_nchar := (rd_set_nchar T).
Notation ifc_get_taxon_namespace := (ifc_get_taxon_namespace T upper c).
Notation ifc_get_taxon_symbol_mapper := (ifc_get_taxon_symbol_mapper T lower).
Notation ifc_parse_translate := (ifc_parse_translate T lower).
Notation ifc_parse_taxa_block := (ifc_parse_taxa_block T lower upper c).
Notation ifc_new_taxon_namespace := (ifc_new_taxon_namespace T c).
Notation ifc_parse_taxlabels := (ifc_parse_taxlabels T lower c).
Notation tk_set_allow_eof := (tk_set_allow_eof T).
Notation ifc_new_mapper := (ifc_new_mapper T lower).
Notation rd_reader_attached := (rd_reader_attached c).
Notation tx_lower_label := (tx_lower_label lower).
Notation o_lower := (o_lower lower).
Notation rd_ns_members := (rd_ns_members T).
Notation rd_ns_len := (rd_ns_len T).
Notation rd_ns_truthy := (rd_ns_truthy T).
Notation rd_ns_get_taxon := (rd_ns_get_taxon T lower).
Notation ifc_ns_new_taxon := (ifc_ns_new_taxon T).
Notation ifc_ns_require_taxon := (ifc_ns_require_taxon T lower).
Notation ifc_mapper_add_token := (ifc_mapper_add_token T lower).
Notation ifc_mapper_lookup := (ifc_mapper_lookup T lower).
Notation rd_ns_count := (rd_ns_count T).
Notation rd_ns_at := (rd_ns_at T).
Notation rd_registry := (rd_registry T).
Notation rd_ns_label := (rd_ns_label T).
Notation ifc_ns_factory := (ifc_ns_factory T c).
Notation rd_register_ns := (rd_register_ns T).
Notation ifc_tree_list_factory := (ifc_tree_list_factory T tlf).
Notation rd_register_tree_list := (rd_register_tree_list T).
Notation ifc_accession_opt := (ifc_accession_opt T).
Notation ifc_new_tree_list := (ifc_new_tree_list T tlf).
Notation ifc_comments_for_treelist := (ifc_comments_for_treelist T).
Notation ifc_comments_for_tree := (ifc_comments_for_tree T add_comments).
Notation ifc_set_tree_label := (ifc_set_tree_label T set_label).
Notation ifc_build_tree := (ifc_build_tree T lower parse_tree).
Notation ifc_accession := (ifc_accession T).
Notation ifc_open_stream := (ifc_open_stream T).
Notation gmap := C13GenPrims.gmap.
"""


READERS_HEADER = """(* ---- reader-level methods: _read of the two reader classes, DataReader.read_tree_lists / read_dataset ---- *)
Section Readers.
Variable T : Type.
Variables lower upper : str -> str.
Variable parse_tree : mapper -> tz -> res (option T * mapper * tz).
Variable set_label : T -> option str -> T.
Variable add_comments : T -> list str -> T.
Notation gst := (gst T).
Notation ifc_product := (ifc_product T).
Notation rd_tree_lists := (rd_tree_lists T).
Notation ifc_ns_factory_of := (ifc_ns_factory_of T).
Notation ifc_tree_list_factory_of := (ifc_tree_list_factory_of T).
Notation ifc_new_mapper := (ifc_new_mapper T lower).
Notation ydrain := (ydrain T).
"""


ENTRY_HEADER = """(* ---- the entry points with offsets ---- *)
Section Entry.
Variable T : Type.
Variable set_label : T -> option str -> T.
Notation ifc_set_tree_label := (ifc_set_tree_label T set_label).
Notation ifc_read_tree_lists := (ifc_read_tree_lists T).
Notation rd_attach := (rd_attach T).
Notation ifc_extend := (ifc_extend T).
Notation ifc_read_dataset := (ifc_read_dataset T).
Notation yl_items := (yl_items T).
Notation yl_end := (yl_end T).
Notation yl_file_index := (yl_file_index T).
Notation ds_new := (ds_new T).
Notation ds_attach := (ds_attach T).
"""


def find_function(tree, cls, name):
    for n in tree.body:
        if isinstance(n, ast.ClassDef) and n.name == cls:
            for f in n.body:
                if isinstance(f, ast.FunctionDef) and f.name == name:
                    return f
    raise Unsupported("function %s.%s not found" % (cls, name))


def generate(repo):
    trees = {}
    for key, rel in FILES.items():
        with open(os.path.join(repo, rel)) as f:
            trees[key] = ast.parse(f.read())
    translated = {}
    out = [HEADER]
    for key, cls, name, spec in PLAN:
        node = find_function(trees[key], cls, name)
        fn = Fn(name, node, spec, dict(translated))
        text = fn.compile()
        out.append("(* %s.%s  (%s) *)\n%s" % (cls, name, FILES[key], text))
        translated[name] = spec
    for key, cls, name, spec in NEWICK:
        node = find_function(trees[key], cls, name)
        fn = Fn(name, node, spec, {})
        text = fn.compile()
        out.append("(* %s.%s  (%s) *)\n%s" % (cls, name, FILES[key], text))
    out.append("End Routes.\n")
    out.append(READERS_HEADER)
    for key, cls, name, spec in READERS:
        node = find_function(trees[key], cls, name)
        fn = Fn(name, node, spec, {})
        text = fn.compile()
        out.append("(* %s.%s  (%s) *)\n%s" % (cls, name, FILES[key], text))
    out.append("End Readers.\n")
    out.append(ENTRY_HEADER)
    for key, cls, name, spec in ENTRY:
        node = find_function(trees[key], cls, name)
        fn = Fn(name, node, spec, {})
        text = fn.compile()
        out.append("(* %s.%s  (%s) *)\n%s" % (cls, name, FILES[key], text))
    out.append("End Entry.\n")
    return "\n\n".join(out)


if __name__ == "__main__":
    import sys
    print(generate(sys.argv[1] if len(sys.argv) > 1 else "/repo"))
