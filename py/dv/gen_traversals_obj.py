"""Translator (object level): the tree-editing helpers whose treatment of LIST OBJECTS the traversals
depend on  ->  coq/Gen/TraversalsObj.v  (property C15, multi-tree histories).

generate(repo) compiles, statement by statement, Node.child_nodes, Node.clear_child_nodes, Node.add_child,
Node.set_child_nodes, Node._set_parent_node (the managed parent_node property) and Tree._set_seed_node
(the seed_node property, also used by Tree(seed_node=...)) into a state monad over the store of
coq/Model/C15WorldPrims.v, recording WHICH list object each statement reads, copies or mutates in place
and which parent pointer it assigns.  It is a compiler for a small whitelisted subset; anything else
raises Unsupported (py2coq then writes a stub and every dependent proof breaks).
"""
import ast
import os

from dv.gen_traversals import Unsupported, find_class, find_method

OUTPUT = "TraversalsObj.v"

NODE, OPTNODE, LIST, BOOL, NONE, TREE, UNIT = "node", "optnode", "list", "bool", "none", "tree", "unit"

# (class, method, parameter types, result type)
PLAN = [
    ("Node", "child_nodes", [], LIST),
    ("Node", "clear_child_nodes", [], UNIT),
    ("Node", "add_child", [("node", NODE)], NODE),
    ("Node", "set_child_nodes", [("child_nodes", LIST)], UNIT),
    ("Node", "_set_parent_node", [("parent", OPTNODE)], UNIT),
    ("Tree", "_set_seed_node", [("node", OPTNODE)], UNIT),
]

COQ_TY = {NODE: "Z", OPTNODE: "(option Z)", LIST: "Z", BOOL: "bool", UNIT: "unit", TREE: "Z"}


def coq_fn(cls, meth):
    return "%s_%s_obj" % (cls, meth.lstrip("_") if not meth.startswith("__") else meth)


class Fn:
    def __init__(self, gen, cls, fndef, params, ret):
        self.gen, self.cls, self.fn, self.params, self.ret = gen, cls, fndef, params, ret
        self.name = coq_fn(cls, fndef.name)
        self.n = 0

    def fresh(self):
        self.n += 1
        return "v%d" % self.n

    def bad(self, what):
        raise Unsupported("%s: %s" % (self.name, what))

    # -- expressions (CPS: k(text, type) -> term of type M _) --------------------------------------
    def as_node(self, t, ty, k):
        """use a value where a Node is dereferenced: None has no attributes"""
        if ty == NODE:
            return k(t)
        if ty == OPTNODE:
            v = self.fresh()
            return "(match %s with Some %s => %s | None => raise AttrErr end)" % (t, v, k(v))
        self.bad("attribute access on a value of type %s" % ty)

    def ex(self, e, env, k):
        if isinstance(e, ast.Name):
            if e.id not in env:
                self.bad("unknown name %s (module-level objects are not part of the model)" % e.id)
            return k(*env[e.id])
        if isinstance(e, ast.Constant) and e.value is None:
            return k("None", NONE)
        if isinstance(e, ast.Attribute):
            key = ast.unparse(e)
            if key in env:                       # an attribute this function assigned itself
                return k(*env[key])
            def on(t, ty):
                if ty == TREE:
                    self.bad("attribute %s of the tree" % e.attr)
                def rd(x):
                    v = self.fresh()
                    if e.attr == "_child_nodes":
                        return "(mbind (o_child_list %s) (fun %s => %s))" % (x, v, k(v, LIST))
                    if e.attr in ("_parent_node", "parent_node"):       # parent_node: checked to be property(_get_parent_node, ...)
                        return "(mbind (o_get_parent %s) (fun %s => %s))" % (x, v, k(v, OPTNODE))
                    self.bad("attribute %s" % e.attr)
                return self.as_node(t, ty, rd)
            return self.ex(e.value, env, on)
        if isinstance(e, ast.Call):
            f = e.func
            if isinstance(f, ast.Name) and f.id == "list" and len(e.args) == 1 and not e.keywords:
                def on(t, ty):
                    if ty != LIST:
                        self.bad("list() of %s" % ty)
                    v = self.fresh()
                    return "(mbind (l_copy %s) (fun %s => %s))" % (t, v, k(v, LIST))
                return self.ex(e.args[0], env, on)
            if isinstance(f, ast.Attribute):
                return self.method_call(e, env, k)
        self.bad("expression %s" % ast.unparse(e))

    def method_call(self, e, env, k):
        f = e.func
        def on(t, ty):
            cls = "Tree" if ty == TREE else "Node"
            sig = self.gen.registry.get((cls, f.attr))
            if sig is None:
                self.bad("call of untranslated %s.%s" % (cls, f.attr))
            params, ret, coq = sig
            if e.keywords and not (len(e.keywords) == len(params) and not e.args
                                   and [kw.arg for kw in e.keywords] == [p[0] for p in params]):
                self.bad("keyword arguments of %s" % f.attr)
            args = list(e.args) + [kw.value for kw in e.keywords]
            if len(args) != len(params):
                self.bad("arity of %s" % f.attr)
            def recv(x):
                def go(i, acc):
                    if i == len(args):
                        v = self.fresh()
                        return "(mbind (%s %s) (fun %s => %s))" % (coq, " ".join([x] + acc), v, k(v, ret))
                    return self.ex(args[i], env, lambda at, aty: go(i + 1, acc + [self.coerce(at, aty, params[i][1])]))
                return go(0, [])
            if ty == TREE:
                return recv(t)
            return self.as_node(t, ty, recv)
        return self.ex(f.value, env, on)

    def coerce(self, t, ty, want):
        if ty == want:
            return t
        if want == OPTNODE and ty == NODE:
            return "(Some %s)" % t
        if want == OPTNODE and ty == NONE:
            return "None"
        self.bad("a value of type %s where %s is expected" % (ty, want))

    # -- conditions: k(bool text) ----------------------------------------------------------------------
    def cond(self, e, env, k):
        if isinstance(e, ast.UnaryOp) and isinstance(e.op, ast.Not):
            return self.cond(e.operand, env, lambda b: k("(negb %s)" % b))
        if isinstance(e, ast.BoolOp) and isinstance(e.op, ast.And):
            first, rest = e.values[0], e.values[1:]
            rest_e = rest[0] if len(rest) == 1 else ast.BoolOp(op=e.op, values=rest)
            return self.cond(first, env, lambda b1: "(if %s then %s else %s)" % (b1, self.cond(rest_e, env, k), k("false")))
        if isinstance(e, (ast.Name, ast.Attribute)):
            def truth(t, ty):
                if ty == LIST:
                    v = self.fresh()
                    return "(mbind (l_contents %s) (fun %s => %s))" % (t, v, k("(negb (match %s with [] => true | _ => false end))" % v))
                if ty == OPTNODE:
                    return k("(match %s with None => false | Some _ => true end)" % t)
                if ty == NODE:
                    return k("true")
                self.bad("truth value of a %s" % ty)
            return self.ex(e, env, truth)
        if isinstance(e, ast.Compare) and len(e.ops) == 1:
            op, a, b = e.ops[0], e.left, e.comparators[0]
            if isinstance(op, (ast.Is, ast.IsNot)):
                neg = isinstance(op, ast.IsNot)
                def on(at, aty):
                    def on2(bt, bty):
                        pair = (aty, bty)
                        if pair == (NODE, NODE): r = "(Z.eqb %s %s)" % (at, bt)
                        elif pair == (OPTNODE, NODE): r = "(opt_is %s %s)" % (at, bt)
                        elif pair == (NODE, OPTNODE): r = "(opt_is %s %s)" % (bt, at)
                        elif pair == (OPTNODE, NONE): r = "(match %s with None => true | Some _ => false end)" % at
                        elif pair == (NODE, NONE): r = "false"
                        elif pair == (NONE, NONE): r = "true"
                        else: self.bad("`is` between %s and %s" % pair)
                        return k("(negb %s)" % r if neg else r)
                    return self.ex(b, env, on2)
                return self.ex(a, env, on)
            if isinstance(op, (ast.In, ast.NotIn)):
                neg = isinstance(op, ast.NotIn)
                def on(at, aty):
                    if aty != NODE:
                        self.bad("membership test of a %s" % aty)
                    def on2(bt, bty):
                        if bty != LIST:
                            self.bad("membership test in a %s" % bty)
                        v = self.fresh()
                        return "(mbind (l_mem %s %s) (fun %s => %s))" % (bt, at, v, k("(negb %s)" % v if neg else v))
                    return self.ex(b, env, on2)
                return self.ex(a, env, on)
        self.bad("condition %s" % ast.unparse(e))

    # -- statements: term of type M <ret>; `rest` continues the block ---------------------------------------
    def block(self, stmts, env, last):
        """M unit for an inner block; for the function body (last=True) a trailing `return E` gives the result"""
        if not stmts:
            if last and self.ret != UNIT:
                self.bad("falls off the end without a return value")
            return "(ret tt)"
        s, rest = stmts[0], stmts[1:]
        seq = lambda m, env2=None: ("(mbind %s (fun _ => %s))" % (m, self.block(rest, env2 or env, last))
                                    if (rest or (last and self.ret != UNIT)) else m)
        if isinstance(s, ast.Expr) and isinstance(s.value, ast.Constant) and isinstance(s.value.value, str):
            return self.block(rest, env, last)
        if isinstance(s, ast.Return):
            if rest or not last:
                self.bad("return that is not the last statement")
            if s.value is None:
                if self.ret != UNIT: self.bad("bare return")
                return "(ret tt)"
            return self.ex(s.value, env, lambda t, ty: "(ret %s)" % self.coerce(t, ty, self.ret))
        if isinstance(s, ast.Assert):
            return self.cond(s.test, env, lambda b: "(if %s then %s else raise AssertErr)" % (b, self.block(rest, env, last) if (rest or last) else "(ret tt)"))
        if isinstance(s, ast.Assign) and len(s.targets) == 1 and isinstance(s.targets[0], ast.Attribute):
            tg = s.targets[0]
            def on_val(vt, vty):
                def on_obj(ot, oty):
                    if oty == TREE and tg.attr == "_seed_node":
                        env2 = dict(env)
                        env2[ast.unparse(tg)] = (vt, vty)
                        return seq("(t_set_seed %s %s)" % (ot, self.coerce(vt, vty, OPTNODE)), env2)
                    if oty == TREE:
                        self.bad("assignment to tree attribute %s" % tg.attr)
                    def wr(x):
                        if tg.attr == "_parent_node":
                            return seq("(o_set_parent %s %s)" % (x, self.coerce(vt, vty, OPTNODE)))
                        if tg.attr == "parent_node":     # checked: property(..., _set_parent_node)
                            sig = self.gen.registry.get(("Node", "_set_parent_node"))
                            if sig is None: self.bad("parent_node setter not translated")
                            return seq("(%s %s %s)" % (sig[2], x, self.coerce(vt, vty, OPTNODE)))
                        self.bad("assignment to attribute %s" % tg.attr)
                    return self.as_node(ot, oty, wr)
                return self.ex(tg.value, env, on_obj)
            return self.ex(s.value, env, on_val)
        if isinstance(s, ast.Expr) and isinstance(s.value, ast.Call):
            c = s.value
            f = c.func
            if (isinstance(f, ast.Attribute) and isinstance(f.value, ast.Name) and f.value.id == "warnings" and f.attr == "warn"
                    and all(isinstance(a, ast.Constant) and isinstance(a.value, str) for a in c.args) and not c.keywords):
                return self.block(rest, env, last) if (rest or last) else "(ret tt)"
            if isinstance(f, ast.Attribute) and f.attr in ("clear", "append", "remove") and not c.keywords:
                def on(lt, lty):
                    if lty != LIST:
                        return None
                    if f.attr == "clear":
                        if c.args: self.bad("clear with arguments")
                        return seq("(l_clear %s)" % lt)
                    if len(c.args) != 1: self.bad("%s arity" % f.attr)
                    def on2(at, aty):
                        if aty != NODE: self.bad("%s of a %s" % (f.attr, aty))
                        return seq("(l_%s %s %s)" % (f.attr, lt, at))
                    return self.ex(c.args[0], env, on2)
                r = self.ex(f.value, env, on)
                if r is None: self.bad("statement %s" % ast.unparse(s))
                return r
            if isinstance(f, ast.Attribute):
                return self.method_call(c, env, lambda _t, _ty: self.block(rest, env, last) if (rest or last) else "(ret tt)")
        if isinstance(s, ast.If):
            inner = lambda b: "(if %s then %s else %s)" % (b, self.block(list(s.body), env, False), self.block(list(s.orelse), env, False))
            return seq(self.cond(s.test, env, inner))
        if isinstance(s, ast.Try):
            h = s.handlers
            ok = (len(h) == 1 and isinstance(h[0].type, ast.Name) and h[0].type.id == "ValueError" and h[0].name is None
                  and len(h[0].body) == 1 and isinstance(h[0].body[0], ast.Pass) and not s.orelse and not s.finalbody)
            if not ok: self.bad("try form")
            return seq("(mtry_value %s)" % self.block(list(s.body), env, False))
        if isinstance(s, ast.For):
            if s.orelse or not isinstance(s.target, ast.Name): self.bad("for form")
            def on(lt, lty):
                if lty != LIST: self.bad("for over a %s" % lty)
                xs = self.fresh()
                env2 = dict(env)
                env2[s.target.id] = (s.target.id, NODE)
                return seq("(mbind (l_contents %s) (fun %s => mfor %s (fun %s => %s)))"
                           % (lt, xs, xs, s.target.id, self.block(list(s.body), env2, False)))
            return self.ex(s.iter, env, on)
        self.bad("statement %s" % type(s).__name__)

    def compile(self):
        a = self.fn.args
        if a.vararg or a.kwarg or a.kwonlyargs or a.posonlyargs or a.defaults or self.fn.decorator_list:
            self.bad("signature")
        names = [x.arg for x in a.args]
        if names != ["self"] + [p[0] for p in self.params]:
            self.bad("parameters %s" % names)
        for n in ast.walk(self.fn):
            ident = n.id if isinstance(n, ast.Name) else (n.arg if isinstance(n, ast.arg) else None)
            if ident is not None and (ident[:1] == "v" and ident[1:].isdigit()):
                self.bad("identifier %s clashes with the generated code" % ident)
        env = {"self": ("self", TREE if self.cls == "Tree" else NODE)}
        for n, ty in self.params:
            env[n] = (n, ty)
        body = self.block(list(self.fn.body), env, True)
        ps = " ".join(["(self : Z)"] + ["(%s : %s)" % (n, COQ_TY[ty]) for n, ty in self.params])
        return "Definition %s %s : M %s :=\n  %s." % (self.name, ps, COQ_TY[self.ret], body)


def check_property(cls, prop, getter, setter):
    for n in cls.body:
        if (isinstance(n, ast.Assign) and len(n.targets) == 1 and isinstance(n.targets[0], ast.Name) and n.targets[0].id == prop):
            v = n.value
            if (isinstance(v, ast.Call) and isinstance(v.func, ast.Name) and v.func.id == "property" and len(v.args) == 2
                    and not v.keywords and [isinstance(x, ast.Name) and x.id for x in v.args] == [getter, setter]):
                return
    raise Unsupported("%s.%s is not property(%s, %s)" % (cls.name, prop, getter, setter))


def check_getter(cls, getter, field):
    g = find_method(cls, getter)
    body = [s for s in g.body if not (isinstance(s, ast.Expr) and isinstance(s.value, ast.Constant))]
    if len(body) != 1 or ast.dump(body[0]) != ast.dump(ast.parse("return self.%s" % field).body[0]):
        raise Unsupported("%s.%s does not just return self.%s" % (cls.name, getter, field))


def check_tree_init(tree_cls):
    """Tree.__init__ stores a given seed node through the seed_node property: `self.seed_node = seed_node`"""
    init = find_method(tree_cls, "__init__")
    want = ast.dump(ast.parse("self.seed_node = seed_node").body[0])
    pop = ast.dump(ast.parse('seed_node = kwargs.pop("seed_node", None)').body[0])
    found = [ast.dump(n) for n in ast.walk(init) if isinstance(n, ast.Assign)]
    if want not in found or pop not in found:
        raise Unsupported("Tree.__init__ does not assign the seed_node keyword through the seed_node property")
    for n in ast.walk(init):
        if isinstance(n, ast.Assign) and any(isinstance(t, ast.Attribute) and t.attr == "_seed_node" for t in n.targets):
            if ast.dump(n) != ast.dump(ast.parse("self._seed_node = None").body[0]):
                raise Unsupported("Tree.__init__ assigns _seed_node directly")


class Generator:
    def __init__(self, repo):
        base = os.path.join(repo, "src", "dendropy", "datamodel", "treemodel")
        with open(os.path.join(base, "_node.py")) as f:
            self.node_mod = ast.parse(f.read())
        with open(os.path.join(base, "_tree.py")) as f:
            self.tree_mod = ast.parse(f.read())
        self.registry = {}

    def run(self):
        node_cls = find_class(self.node_mod, "Node")
        tree_cls = find_class(self.tree_mod, "Tree")
        check_property(node_cls, "parent_node", "_get_parent_node", "_set_parent_node")
        check_getter(node_cls, "_get_parent_node", "_parent_node")
        check_property(tree_cls, "seed_node", "_get_seed_node", "_set_seed_node")
        check_tree_init(tree_cls)
        out = ["(* GENERATED by py/dv/gen_traversals_obj.py from datamodel/treemodel/_node.py and _tree.py",
               "   -- do not edit.  Meaning of the primitives: coq/Model/C15WorldPrims.v *)",
               "From Coq Require Import ZArith List Bool.",
               "From DV Require Import Model.PyPrims Model.C15WorldPrims.",
               "Import ListNotations.",
               "Open Scope Z_scope.",
               ""]
        for cls, meth, params, ret in PLAN:
            c = node_cls if cls == "Node" else tree_cls
            fn = Fn(self, cls, find_method(c, meth), params, ret)
            text = fn.compile()
            self.registry[(cls, meth)] = (params, ret, fn.name)
            out.append("(* %s.%s *)" % (cls, meth))
            out.append(text)
            out.append("")
        return "\n".join(out)


def generate(repo):
    return Generator(repo).run()


if __name__ == "__main__":
    import sys
    print(generate(sys.argv[1] if len(sys.argv) > 1 else "/repo"))
