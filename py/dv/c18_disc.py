"""C18 - discrete_birth_death_tree / star_tree / constrained_kingman_tree: cases, observation on the
scripted generator (global generator poisoned), Coq terms for Model/C18DiscModel.v, naive oracle.

The options ntax / max_time / taxon_namespace are passed iff the case has them (None = not passed),
repeat_until_success and rng are always passed (that is the call shape the translator covers).
"""
import random
from fractions import Fraction

from dv import core
from dv.core import cbool, clist, copt
from dv.c18_rng import (Chooser, ScriptedRng, ScriptExhausted, ScriptMismatch, UnscriptedMethod,
                        GlobalRngTouched, poisoned_globals)

HEADER = ("From DV Require Import Model.C18Model Model.C18DiscModel.\nFrom DV Require Model.PyPrims.\n"
          "From Coq Require Import QArith List. Import ListNotations. Open Scope nat_scope.")

# Observations (coordinator's decision, DESIGN 11.7: outside the C18 property text, which is about the continuous-time
# simulators): discrete_birth_death_tree(ntax=N) tests the tip count only between generations, so it returns
# >= N tips (Props/C18Gen.v: discrete_bd_exact_tip_count_refuted); with a non-empty namespace shorter than the final
# tip count Tree.randomly_assign_taxa raises AttributeError (TaxonNamespace.has_taxon does not exist;
# discrete_bd_short_namespace_raises).  Both are modelled behaviour: the correspondence compares them, the oracle
# accepts them.  Inside the property and strict here: determinism w.r.t. (arguments, generator state), no use of
# the global generator, well-formedness / binary / equidistant / distinct taxa of every returned tree, >= N tips.
PENDING = {}


def F(x):
    return Fraction(x)


def _c18():
    from dv import c18
    return c18


RATES = [("1/2", "1/8"), ("1/2", "1/4"), ("3/4", "1/8"), ("1/4", "1/8"), ("1", "0"), ("1/2", "0"), ("5/8", "1/4"),
         ("1/2", "1/2"), ("1/4", "1/2"), ("3/8", "1/8")]
NS_POOLS = [None, None, None, [], ["A", "B", "C"], ["A", "B", "C", "D", "E", "F", "G", "H", "I", "J", "K", "L"],
            ["T1", "T2"], ["t1", "x", "T3", "T2"], ["A"]]


def gen_case(rng, tier):
    b, d = rng.choice(RATES)
    case = {"sim": "disc", "b": b, "d": d, "seed": rng.getrandbits(40), "repeat": rng.random() < 0.6}
    ns = rng.choice(NS_POOLS)
    if ns is not None:
        case["ns"] = list(ns)
        case["cs"] = rng.random() < 0.3
    r = rng.random()
    if r < 0.55:
        case["ntax"] = rng.choice([0, 1, 2, 2, 3, 3, 4, 5, 6, 8] + ([12, 16] if tier == "thorough" else []))
    elif r < 0.8:
        case["ntax"] = rng.choice([2, 3, 4, 6, 9])
        case["max_time"] = rng.choice([0, 1, 2, 3, 4, 6])
    elif r < 0.93:
        case["max_time"] = rng.choice([0, 1, 2, 3, 4, 5])
    # else: neither (ValueError without a namespace; len(namespace) with one)
    if case.get("max_time") is not None and not case["repeat"] and rng.random() < 0.3:
        case["sb"] = rng.choice(["1/8", "1/4", "0"])
        case["sd"] = rng.choice(["1/8", "0", "1/16"])
    p = rng.random()
    if p < 0.2:
        case["policy"] = {"unit": "high"}
    elif p < 0.35:
        case["policy"] = {"unit": "low"}
    case["cap"] = 120 if tier == "quick" else 300
    return case


def call_kwargs(case, rng):
    import dendropy
    kw = dict(rng=rng, repeat_until_success=bool(case["repeat"]))
    if case.get("ntax") is not None:
        kw["ntax"] = case["ntax"]
    if case.get("max_time") is not None:
        kw["max_time"] = case["max_time"]
    ns = None
    if case.get("ns") is not None:
        ns = dendropy.TaxonNamespace(list(case["ns"]), is_case_sensitive=bool(case.get("cs", False)))
        kw["taxon_namespace"] = ns
    return kw, ns


def run_sim(case, rng):
    from dendropy.simulate import treesim
    kw, ns = call_kwargs(case, rng)
    tree = treesim.discrete_birth_death_tree(float(F(case["b"])), float(F(case["d"])),
                                             birth_rate_sd=float(F(case.get("sb", 0))),
                                             death_rate_sd=float(F(case.get("sd", 0))), **kw)
    taxa = list(tree.taxon_namespace)
    extra = {}
    if ns is not None and tree.taxon_namespace is not ns:
        extra["ns_not_used"] = True
    return tree, taxa, [t.label for t in taxa], extra


_CACHE = {}


def observe(case):
    key = core.canon(case)
    if key not in _CACHE:
        _CACHE[key] = _observe(case)
    return _CACHE[key]


def _observe(case):
    c18 = _c18()
    if case.get("script") is not None:
        rng = ScriptedRng(script=[[k, c18.parse_val(k, v)] for k, v in case["script"]])
    else:
        pol = dict(case.get("policy") or {}, cap=case.get("cap", 200))
        rng = ScriptedRng(chooser=Chooser(random.Random(case["seed"]), pol))
        rng.chooser.owner = rng
    obs = {"extra": {}}
    with poisoned_globals() as p:
        try:
            with core.alarm(20):
                tree, taxa, labels, extra = run_sim(case, rng)
            obs["extra"] = extra
            obs["out"] = ["tree", c18.dump_tree(tree, taxa), labels]
            obs["wf"] = c18.wf_problem(tree)
        except ScriptExhausted:
            obs["out"] = ["exhausted"]
        except (ScriptMismatch, UnscriptedMethod) as e:
            obs["out"] = ["harness", "%s: %s" % (type(e).__name__, e)]
        except GlobalRngTouched:
            obs["out"] = ["err", "GlobalRng"]
        except Exception as e:
            obs["out"] = ["err", core.exc_enum(e), "%s: %s" % (type(e).__name__, str(e)[:200])]
    obs["touched"] = list(p.touched)
    obs["script"] = [[k, c18.ser_val(k, v)] for k, v in rng.consumed]
    obs["calls"] = [[c[0]] + [c18.fs(a) if isinstance(a, Fraction) else a for a in c[1:]] for c in rng.trace]
    return obs


def c_call(c):
    c18 = _c18()
    if c[0] == "uniform":
        # rng.uniform(0, 1) is the model's d_unit; any other bounds cannot match
        if Fraction(c[1]) == 0 and Fraction(c[2]) == 1:
            return "CUnit"
        return "(CExp %s)" % c18.cq(0)
    return c18.c_call(c)


def c_params(case):
    c18 = _c18()
    return "(mkDp %s %s %s %s %s %s %s)" % (
        c18.cq(case["b"]), c18.cq(case["d"]), c18.cq(case.get("sb", 0)), c18.cq(case.get("sd", 0)),
        cbool(bool(case["repeat"])), copt(case.get("ntax"), c18.cnat), copt(case.get("max_time"), c18.cnat))


def to_coq(case, obs):
    c18 = _c18()
    others = []
    ns = "None" if case.get("ns") is None else "(Some %s)" % clist([c18.lab_term(l, others) for l in case["ns"]])
    out = obs["out"]
    if out[0] == "tree":
        o = "(OTree %s %s)" % (c18.c_otree(out[1]), clist([c18.lab_term(l, others) for l in out[2]]))
    elif out[0] == "exhausted":
        o = "OExhausted"
    elif out[0] == "err" and out[1] != "GlobalRng":
        o = "(OErr PyPrims.%s)" % out[1]
    else:
        o = "(OErr PyPrims.Hang)"
    return "(mkDCase %s %s %s %s %s)" % (c_params(case), ns, clist([c18.c_draw(e) for e in obs["script"]]),
                                        clist([c_call(c) for c in obs["calls"]]), o)


def target(case):
    """target_num_taxa of the call (None = no tip-count rule)"""
    if case.get("ns") is not None:
        return case["ntax"] if case.get("ntax") is not None else len(case["ns"])
    return case.get("ntax")


def admissible(case):
    """birth > death >= 0, constant rates, the tip-count stopping rule alone, N >= 1"""
    t = target(case)
    return (F(case["b"]) > F(case["d"]) >= 0 and F(case.get("sb", 0)) == 0 and F(case.get("sd", 0)) == 0
            and case.get("max_time") is None and t is not None and t >= 1)


def oracle(case, obs):
    c18 = _c18()
    out = obs["out"]
    if obs["touched"]:
        return ("discrete_birth_death_tree used the global generator although rng= was supplied: %s" % obs["touched"][:3],
                "global-rng-touched:discrete_birth_death_tree")
    if out[0] == "harness":
        return ("scripted generator could not serve the simulator: %s" % out[1], "unscripted-method:disc")
    if out[0] == "tree":
        t = out[1]
        if obs.get("wf"):
            return ("tree not well formed: %s" % obs["wf"], "not-well-formed:disc")
        leaves = c18.t_leaves(t)
        v = c18.tree_spec_problem(t, True)
        if v and F(case.get("sb", 0)) == 0 and F(case.get("sd", 0)) == 0 or (v and v[1] == "not-equidistant"):
            return (v[0], v[1] + ":disc")
        taxa = [l[1] for l in leaves]
        if any(x is None or x < 0 for x in taxa):
            return ("leaf without a taxon of the tree's namespace", "leaf-without-taxon:disc")
        if len(set(taxa)) != len(taxa):
            return ("a taxon is assigned to two leaves", "taxon-assigned-twice:disc")
        if (obs.get("extra") or {}).get("ns_not_used"):
            return ("the supplied namespace is not the tree's", "namespace-not-used:disc")
        tt = target(case)
        if tt is not None and case.get("max_time") is None and len(leaves) < tt:
            return ("%d tips, fewer than the target %d, without a generation limit" % (len(leaves), tt), "tip-count-short:disc")
        if admissible(case) and len(leaves) != tt:
            PENDING.setdefault("tip-count-overshoot", "discrete_birth_death_tree grown to %d tips returns %d tips" % (tt, len(leaves)))
        if case.get("script") is None:
            rep = dict(case)
            rep["script"] = obs["script"]
            o2 = _observe(rep)
            if not (o2["out"] == out and o2["calls"] == obs["calls"] and len(o2["script"]) == len(obs["script"])):
                return ("discrete_birth_death_tree is not a function of (arguments, draws): a replay of the same draws differs",
                        "not-reproducible:disc")
    elif out[0] == "err" and case.get("script") is None:
        if out[1] == "AttrErr" and case.get("ns") and "has_taxon" in (out[2] if len(out) > 2 else ""):
            PENDING.setdefault("short-namespace-attributeerror", "discrete_birth_death_tree raised %s" % (out[2:],))
            return None        # modelled behaviour (py_randomly_assign_taxa), compared by the correspondence
        if out[1] == "OtherErr" and "TotalExtinction" in (out[2] if len(out) > 2 else "") and not case["repeat"]:
            return None        # the documented outcome of repeat_until_success=False
        if out[1] == "ValueErr" and case.get("ns") is None and case.get("ntax") is None and case.get("max_time") is None:
            return None        # no stopping rule given
        if admissible(case):
            return ("discrete_birth_death_tree raised %s on an admissible input" % (out[1:],), "raises:disc:%s" % out[1])
    return None


def truncated(case, obs, rng):
    n = len(obs["script"])
    if n == 0 or obs["out"][0] != "tree":
        return None
    c = {k: v for k, v in case.items() if k not in ("seed", "policy", "cap")}
    c["script"] = obs["script"][:(n - 1 if rng.random() < 0.5 else rng.randrange(n))]
    return c


def nontrivial(case, obs):
    return obs["out"][0] == "tree" and len(_c18().t_leaves(obs["out"][1])) >= 3 and len(obs["script"]) >= 4


def count_dist(ctx, case, obs):
    ctx.count("sim:disc")
    ctx.count("disc-outcome:" + obs["out"][0] + (":" + str(obs["out"][1]) if obs["out"][0] == "err" else ""))
    ctx.count("disc-rule:" + ("ntax" if case.get("ntax") is not None else "") + ("+max_time" if case.get("max_time") is not None else "")
              + ("+ns" if case.get("ns") is not None else ""))
    us = [Fraction(e[1]) for e in obs["script"] if e[0] == "Unit"]
    b, d = F(case["b"]), F(case["d"])
    if any(b < u < b + d for u in us):
        ctx.count("disc-walk-with-death")
    if case.get("script") is not None:
        ctx.count("disc-truncated-replay")


def cases(ctx, tier):
    n = 250 if tier == "quick" else 2500
    out = []
    for _ in range(n):
        case = gen_case(ctx.rng, tier)
        obs = observe(case)
        out.append(case)
        count_dist(ctx, case, obs)
        if ctx.rng.random() < 0.15:
            tc = truncated(case, obs, ctx.rng)
            if tc is not None:
                out.append(tc)
                count_dist(ctx, tc, observe(tc))
    return out


def search(ctx, budget_s):
    import time
    t0 = time.time()
    rng = random.Random(ctx.seed + 777)
    n = 0
    while time.time() - t0 < budget_s and n < 20000:
        case = gen_case(rng, ctx.tier)
        obs = observe(case)
        v = oracle(case, obs)
        n += 1
        if v:
            ctx.violation(v[0], {"disc_case": case, "observed": obs}, key=v[1])
            if ctx.violations:
                return
    ctx.notes.append("search (discrete_birth_death_tree): %d further scripted cases through the oracle, no unlisted violation" % n)


# ---------------------------------------------------------------------------------------------
# Oracle-only stages on real seeds (no model): birth_death_tree with the non-default stopping rules,
# constrained_kingman_tree, star_tree.  Strict: determinism w.r.t. (arguments, generator state) with the
# global generator poisoned; plus the structural clauses that each option setting guarantees.
# ---------------------------------------------------------------------------------------------

def _newick(tree):
    return _c18().newick_repr(tree)


def _run_twice(fn, seed):
    """-> (outcome1, outcome2, touched); outcome = ("tree", dendropy tree, newick) | ("err", exception class name)"""
    from dv.c18_rng import RecordingRng
    outs = []
    touched = []
    for _ in range(2):
        with poisoned_globals() as p:
            try:
                with core.alarm(60):
                    t = fn(RecordingRng(seed))
                outs.append(("tree", t, _newick(t)))
            except GlobalRngTouched:
                outs.append(("err", "GlobalRng", ""))
            except Exception as e:
                outs.append(("err", type(e).__name__, ""))
        touched += list(p.touched)
    return outs[0], outs[1], touched


def _shape_problem(tree, equidistant=True):
    c18 = _c18()
    wf = c18.wf_problem(tree)
    if wf:
        return "not well formed: %s" % wf
    t = c18.dump_tree(tree, list(tree.taxon_namespace))
    for nd in c18.t_nodes(t):
        if len(nd[2]) not in (0, 2):
            return "node with %d children" % len(nd[2])
    if equidistant:
        ds = [float(d) for d in c18.t_depths(t)]
        if any(not c18.close(d, ds[0]) for d in ds):
            return "tips not equidistant from the root: %s" % sorted(set(ds))[:4]
    return None


BD_SETTINGS = ["total+retain", "total", "max_time", "max_time+retain", "extant+retain", "extant-norepeat", "total-norepeat"]


def bd_options_oracle(setting, b, d, N, T, seed):
    """birth_death_tree under a non-default option setting -> None | (what, key)"""
    from dendropy.simulate import treesim
    c18 = _c18()
    kw = {}
    if setting.startswith("total"):
        kw["num_total_tips"] = N
    elif setting.startswith("max_time"):
        kw["max_time"] = T
    else:
        kw["num_extant_tips"] = N
    retain = setting.endswith("+retain")
    if retain:
        kw["is_retain_extinct_tips"] = True
    norepeat = setting.endswith("-norepeat")
    if norepeat:
        kw["repeat_until_success"] = False
    a, b2, touched = _run_twice(lambda r: treesim.birth_death_tree(b, d, rng=r, **kw), seed)
    tag = "birth_death_tree(%s, %s, %s) seed %d" % (b, d, kw, seed)
    if touched:
        return ("%s used the global generator: %s" % (tag, touched[:2]), "global-rng-touched:bd-options")
    if a[0] != b2[0] or a[1:][-1] != b2[1:][-1] or (a[0] == "err" and a[1] != b2[1]):
        return ("%s: two runs from equal generator states differ" % tag, "not-reproducible:bd-options")
    if a[0] == "err":
        # total extinction: TreeSimTotalExtinctionException iff repeat_until_success=False; anything else is a defect
        if a[1] == "TreeSimTotalExtinctionException" and norepeat:
            return None
        return ("%s raised %s" % (tag, a[1]), "raises:bd-options:%s" % a[1])
    tree = a[1]
    v = _shape_problem(tree, equidistant=not retain)
    if v:
        return ("%s: %s" % (tag, v), "shape:bd-options:" + setting.split("-")[0])
    n = len(tree.leaf_nodes())
    if setting == "total+retain" and n != N:
        return ("%s: %d tips (extant + extinct) instead of %d" % (tag, n, N), "tip-count:bd-options:total+retain")
    if setting in ("total", "total-norepeat") and not 1 <= n <= N:
        return ("%s: %d extant tips, outside [1, %d]" % (tag, n, N), "tip-count:bd-options:total")
    if setting in ("extant+retain",) and n < N:
        return ("%s: %d tips, fewer than the %d extant ones asked for" % (tag, n, N), "tip-count:bd-options:extant+retain")
    if setting == "extant-norepeat" and n != N:
        return ("%s: %d tips instead of %d" % (tag, n, N), "tip-count:bd-options:extant")
    if setting == "max_time":
        t = c18.dump_tree(tree, list(tree.taxon_namespace))
        ds = [float(x) for x in c18.t_depths(t, include_root=True)]
        if ds and ds[0] < T * (1 - 1e-9):
            return ("%s: extant tips at %r, before max_time" % (tag, ds[0]), "max-time-short:bd-options")
    taxa = [l.taxon for l in tree.leaf_node_iter()]
    if any(x is None for x in taxa) or len(set(id(x) for x in taxa)) != len(taxa):
        return ("%s: leaves without / with shared taxa" % tag, "taxa:bd-options")
    return None


def constrained_kingman_repeat_oracle(rng, seed):
    """two calls on the SAME population tree object from equal generator states return the same gene tree
    (repair of the accumulating 'gene_nodes' lists); every gene taxon on exactly one leaf"""
    import random as _random
    import dendropy
    from dendropy.simulate import treesim
    c18 = _c18()
    case = c18.gen_case(rng, "quick", "cc")

    def fix(s, root=True):
        s["len"] = None if root else str(Fraction(rng.choice([1, 1, 2, 3, 4, 6]), rng.choice([1, 2, 4])))
        s["pop"] = rng.choice([None, "1", "2"])
        if not s["kids"] and s["taxon"] is None:
            s["taxon"] = "X%d" % s["sid"]
        for k in s["kids"]:
            fix(k, False)
    fix(case["species"])
    kw = rng.choice([{}, {}, {"decorate_original_tree": True},
                     {"gene_sampling_strategy": "fixed_per_population", "num_genes": rng.choice([1, 2])},
                     {"gene_sampling_strategy": "fixed_per_population", "num_genes": 2, "decorate_original_tree": True}])
    sp, _sns, _nodes = c18.build_species(case["species"])
    outs = []
    for _i in range(3):
        try:
            g, _p = treesim.constrained_kingman_tree(sp, rng=_random.Random(seed), **kw)
        except Exception as e:   # noqa
            outs.append("raised %s" % type(e).__name__)
            continue
        labels = sorted(l.taxon.label for l in g.leaf_node_iter())
        outs.append((g.as_string("newick").strip(), tuple(labels)))
    tag = "constrained_kingman_tree(%s) three calls on one population tree, seed %d" % (kw, seed)
    if len(set(outs)) != 1:
        return ("%s: the calls differ: leaf counts %s" % (tag, [len(o[1]) if isinstance(o, tuple) else o for o in outs]),
                "constrained-kingman-repeated-call-differs")
    if isinstance(outs[0], tuple) and len(set(outs[0][1])) != len(outs[0][1]):
        return ("%s: a gene taxon label on several leaves: %s" % (tag, outs[0][1]), "constrained-kingman-leaf-per-gene")
    return None


def constrained_kingman_oracle(rng, seed):
    import dendropy
    from dendropy.simulate import treesim
    c18 = _c18()
    case = c18.gen_case(rng, "quick", "cc")

    def fix(s, root=True):
        s["len"] = None if root else str(Fraction(rng.choice([0, 1, 1, 2, 3, 4, 6]), rng.choice([1, 2, 4])))
        s["pop"] = rng.choice([None, "1", "2", "1/2"])
        if not s["kids"] and s["taxon"] is None:
            s["taxon"] = "X%d" % s["sid"]
        for k in s["kids"]:
            fix(k, False)
    fix(case["species"])
    k = rng.choice([1, 2, 3])

    def run(r):
        sp, _sns, _nodes = c18.build_species(case["species"])
        g, _p = treesim.constrained_kingman_tree(sp, rng=r, gene_sampling_strategy="fixed_per_population", num_genes=k)
        return g
    a, b, touched = _run_twice(run, seed)
    tag = "constrained_kingman_tree(fixed_per_population, num_genes=%d) seed %d" % (k, seed)
    if touched:
        return ("%s used the global generator: %s" % (tag, touched[:2]), "global-rng-touched:constrained_kingman_tree")
    if a[0] == "err":
        return ("%s raised %s" % (tag, a[1]), "raises:constrained_kingman_tree:%s" % a[1])
    if b[0] != "tree" or a[2] != b[2]:
        return ("%s: two runs from equal generator states and equal (rebuilt) arguments differ" % tag,
                "not-reproducible:constrained_kingman_tree")
    g = a[1]
    taxa = [l.taxon for l in g.leaf_node_iter()]
    if any(t is None for t in taxa):
        return ("%s: gene leaf without taxon" % tag, "constrained-kingman-leaf-per-gene")
    labels = [t.label for t in taxa]
    nsp = sum(1 for _ in _leaves(case["species"]))
    if len(g.leaf_nodes()) != k * nsp or len(set(labels)) != k * nsp:
        return ("%s: %d gene leaves / %d gene taxa for %d species" % (tag, len(g.leaf_nodes()), len(set(labels)), nsp),
                "constrained-kingman-leaf-per-gene")
    # containment: the statement of contained_coalescent_tree's oracle on this gene tree
    obs = {"out": ["tree", c18.dump_tree(g, taxa), None],
           "extra": {"gene_species": {i: l.rsplit("_", 1)[0] for i, l in enumerate(labels)}}}
    cc_case = {"sim": "cc", "species": case["species"], "genes": {}}
    v = c18.cc_problem(cc_case, obs, exact=False)
    if v:
        return ("%s: %s" % (tag, v[0]), "constrained-kingman:" + v[1])
    return None


def _leaves(s):
    if not s["kids"]:
        yield s
    for k in s["kids"]:
        for x in _leaves(k):
            yield x


def star_tree_oracle(n):
    import dendropy
    from dendropy.simulate import treesim
    ns = dendropy.TaxonNamespace(["s%d" % i for i in range(n)])
    with poisoned_globals() as p:
        t1 = treesim.star_tree(ns)
        t2 = treesim.star_tree(ns)
    if p.touched:
        return ("star_tree used the global generator: %s" % p.touched[:2], "global-rng-touched:star_tree")
    kids = t1.seed_node._child_nodes
    if _c18().wf_problem(t1) or len(kids) != n or [c.taxon for c in kids] != list(ns) or any(c._child_nodes for c in kids):
        return ("star_tree over %d taxa is not the root with one leaf per taxon in namespace order" % n, "star-tree-shape")
    if _newick(t1) != _newick(t2):
        return ("star_tree: two calls with the same namespace differ", "not-reproducible:star_tree")
    return None


def seeds_stage(ctx, n):
    rng = random.Random(ctx.seed * 31337 + 18)
    done = 0
    for i in range(n):
        setting = BD_SETTINGS[i % len(BD_SETTINGS)]
        b = rng.choice([1.0, 0.7, 2.5])
        d = rng.choice([0.0, 0.3, 0.5, 0.9]) * b
        v = bd_options_oracle(setting, b, d, rng.choice([1, 2, 3, 5, 8, 13]), rng.choice([0.0, 0.5, 1.0, 2.0]), rng.getrandbits(32))
        ctx.count("bd-options:" + setting)
        done += 1
        if v:
            ctx.violation(v[0], {"probe": "bd-options", "what": v[0]}, key=v[1])
    for i in range(max(4, n // 4)):
        v = constrained_kingman_oracle(rng, rng.getrandbits(32))
        ctx.count("seed:constrained_kingman_tree")
        done += 1
        if v:
            ctx.violation(v[0], {"probe": "constrained_kingman_tree", "what": v[0]}, key=v[1])
        v = constrained_kingman_repeat_oracle(rng, rng.getrandbits(32))
        ctx.count("seed:constrained_kingman_tree:repeat")
        done += 1
        if v:
            ctx.violation(v[0], {"probe": "constrained_kingman_tree repeated", "what": v[0]}, key=v[1])
    for n_ in (0, 1, 2, 7):
        v = star_tree_oracle(n_)
        done += 1
        if v:
            ctx.violation(v[0], {"probe": "star_tree", "what": v[0]}, key=v[1])
    ctx.evaluations += done
    ctx.obligation("real seeds, oracle only: %d runs of birth_death_tree under num_total_tips / max_time / "
                   "is_retain_extinct_tips / repeat_until_success=False, constrained_kingman_tree (containment, one "
                   "leaf per gene) and star_tree are reproducible, stay on the supplied generator and have the shape "
                   "their option setting guarantees" % done, True)
    return done
