"""C14: histories over SEVERAL PhylogeneticDistanceMatrix objects (up to 3): PhylogeneticDistanceMatrix(), clone /
copy.copy, compile_from_tree on a fresh tree or on the last tree after an in-place edit (prune taxa, change
lengths), compile_from_dict, clear.  After every step EVERY object is observed: its tables, accessor / mean
queries, and the identities id() of its six containers (kept alive, numbered by first sight over the whole
history), compared with coq/Model/C14ObjModel.v (identities up to renaming).

Oracle (independent of the model): every object against the path walk of the tree IT was last compiled from (a
clone: the tree its original had at clone time), and the clause "an operation on one matrix object changes no
query result of another": the tables / distances() / sum_of_distances() of every object other than the one the
operation was called on are what they were before the step; key names the operation."""
import copy
import warnings

from dv import core, trees
from dv.core import cz, cbool, clist, cpair

HEADER_MULTI = ("From DV Require Import Model.PyPrims Model.Tree Model.C14Model Model.C14Hist Model.C14ObjPrims Model.C14ObjModel.\n"
                "From Coq Require Import ZArith QArith. Open Scope Z_scope.")

MAX_OBJS = 3
OPNAME = {"tree": "compile_from_tree", "edit": "compile_from_tree", "dict": "compile_from_dict", "clear": "clear",
          "clone": "clone", "copy": "clone", "new": "new", "none": "none"}


def gen_multi_case(rng, tier):
    from dv import c14
    ntax = rng.randint(4, 8)
    stages = []
    # per object: (mode, taxa)
    state = []
    cur_taxa = None           # taxa of the last tree built (for edits)
    nst = rng.randint(4, 7 if tier == "quick" else 9)
    for i in range(nst):
        st = {}
        r = rng.random()
        if not state:
            op = "new"
        elif i == 1:
            op = "tree"
        elif r < 0.22 and len(state) < MAX_OBJS:
            op = rng.choice(["clone", "clone", "copy"])
        elif r < 0.27 and len(state) < MAX_OBJS:
            op = "new"
        elif r < 0.50:
            op = "tree"
        elif r < 0.78 and cur_taxa is not None and len(cur_taxa) >= 2:
            op = "edit"
        elif r < 0.86:
            op = "dict"
        elif r < 0.94:
            op = "clear"
        else:
            op = "none"
        st["op"] = op
        if op == "new":
            state.append(("empty", []))
        elif op in ("clone", "copy"):
            st["src"] = rng.randrange(len(state))
            state.append(state[st["src"]])
        elif op in ("tree", "dict"):
            st["obj"] = rng.randrange(len(state))
            k = rng.randint(3, ntax) if rng.random() < 0.9 else 2
            sub = rng.sample(range(ntax), k)
            st["tree"] = trees.gen_tree(rng, k, lengths=rng.choice(["dyadic", "mixed", "int", "positive"]),
                                        unifurcations=rng.choice([0.0, 0.0, 0.2]), taxa=sub)
            if op == "dict":
                st["order"] = rng.sample(sub, len(sub))
                st["full"] = rng.random() < 0.4
            else:
                cur_taxa = sorted(sub)
            state[st["obj"]] = (op, sorted(sub))
        elif op == "edit":
            st["obj"] = rng.randrange(len(state))
            if len(cur_taxa) >= 4 and rng.random() < 0.7:
                drop = rng.sample(cur_taxa, rng.randint(1, min(2, len(cur_taxa) - 2)))
                st["edit"] = {"prune": sorted(drop)}
                cur_taxa = [x for x in cur_taxa if x not in drop]
            else:
                st["edit"] = {"lengths": [rng.choice([0, 512, 1024, 2048, 3072, None]) for _ in range(rng.randint(1, 4))],
                              "pick": [rng.randrange(1000) for _ in range(4)]}
            state[st["obj"]] = ("tree", list(cur_taxa))
        elif op == "clear":
            st["obj"] = rng.randrange(len(state))
            state[st["obj"]] = ("empty", [])
        qs = []
        for mode, taxa in state:
            m = "tree" if mode in ("tree", "edit") else mode
            acc, means = c14.gen_hist_queries(rng, m, taxa, ntax)
            qs.append({"acc": acc[:2], "means": means[:3]})
        st["queries"] = qs
        stages.append(st)
    return {"kind": "multi", "ntax": ntax, "stages": stages}


def container_ids(pdm):
    return [pdm._mapped_taxa, pdm._all_distinct_mapped_taxa_pairs, pdm._taxon_phylogenetic_distances,
            pdm._taxon_phylogenetic_path_steps, pdm._taxon_phylogenetic_path_edges, pdm._mrca]


def observe_multi(case):
    import dendropy
    from dv import c14
    ns, tobjs = trees.make_namespace(case["ntax"])
    tix = {id(o): i for i, o in enumerate(tobjs)}
    out = []
    pdms, modes = [], []
    keep, names = [], {}
    cur_tree = None
    with warnings.catch_warnings():
        warnings.simplefilter("ignore")
        for st in case["stages"]:
            op, sent, tree_used = st["op"], None, None
            try:
                if op == "new":
                    pdms.append(dendropy.PhylogeneticDistanceMatrix())
                    modes.append("empty")
                elif op == "clone":
                    pdms.append(pdms[st["src"]].clone())
                    modes.append(modes[st["src"]])
                elif op == "copy":
                    pdms.append(copy.copy(pdms[st["src"]]))
                    modes.append(modes[st["src"]])
                elif op == "tree":
                    cur_tree, _ = trees.build_dendropy(st["tree"], tobjs, is_rooted=True, namespace=ns)
                    tree_used = st["tree"]
                    modes[st["obj"]] = "partial"
                    pdms[st["obj"]].compile_from_tree(cur_tree)
                    modes[st["obj"]] = "tree"
                elif op == "edit":
                    ed = st["edit"]
                    if "prune" in ed:
                        cur_tree.prune_taxa([tobjs[a] for a in ed["prune"]])
                    else:
                        nds = [nd for nd in cur_tree.preorder_node_iter() if nd is not cur_tree.seed_node]
                        for v, pk in zip(ed["lengths"], ed["pick"]):
                            if nds:
                                nds[pk % len(nds)].edge.length = None if v is None else v * trees.UNIT
                    tree_used, problems = trees.dump_dendropy(cur_tree, tix)
                    if problems:
                        raise RuntimeError("edited tree ill-formed: %s" % problems)
                    modes[st["obj"]] = "partial"
                    pdms[st["obj"]].compile_from_tree(cur_tree)
                    modes[st["obj"]] = "tree"
                elif op == "dict":
                    tree, _ = trees.build_dendropy(st["tree"], tobjs, is_rooted=True, namespace=ns)
                    fresh = dendropy.PhylogeneticDistanceMatrix.from_tree(tree)
                    order = st["order"]
                    distances, sent = {}, []
                    for i, a in enumerate(order):
                        cols = order if st["full"] else order[i + 1:]
                        distances[tobjs[a]] = {tobjs[b]: fresh.patristic_distance(tobjs[a], tobjs[b]) for b in cols}
                        sent.append([a, [[b, c14.units(distances[tobjs[a]][tobjs[b]])] for b in cols]])
                    pdms[st["obj"]].compile_from_dict(distances, ns)
                    modes[st["obj"]] = "dict"
                elif op == "clear":
                    pdms[st["obj"]].clear()
                    modes[st["obj"]] = "empty"
            except Exception as e:
                out.append({"op": op, "sent": sent, "tree": tree_used, "res": ["Err", core.exc_enum(e)]})
                break
            snaps, ids = [], []
            for p, mode, q in zip(pdms, modes, st["queries"]):
                snaps.append([mode == "tree", c14.snapshot(p, tobjs, tix, q["acc"], q["means"], full=(mode == "tree"))])
                for c in container_ids(p):
                    if id(c) not in names:
                        names[id(c)] = len(names)
                        keep.append(c)
                    ids.append(names[id(c)])
            out.append({"op": op, "sent": sent, "tree": tree_used, "res": ["Ok", {"objs": snaps, "ids": ids}]})
    return {"stages": out}


TABLE_KEYS = ("taxa", "tree_length", "num_edges", "dist", "steps", "mrca", "npairs", "distances_list", "sum_of_distances")


def describe(case, upto):
    parts = []
    for st in case["stages"][:upto + 1]:
        op = st["op"]
        if op in ("clone", "copy"):
            parts.append("m%d.%s()" % (st["src"], "clone" if op == "clone" else "__copy__"))
        elif op == "new":
            parts.append("PhylogeneticDistanceMatrix()")
        elif op == "none":
            parts.append("-")
        elif op == "edit":
            parts.append("<%s the tree>; m%d.compile_from_tree(tree)"
                         % ("prune %s from" % st["edit"]["prune"] if "prune" in st["edit"] else "change lengths of", st["obj"]))
        else:
            parts.append("m%d.%s(%s)" % (st["obj"], OPNAME[op], trees.newick(st["tree"]) if "tree" in st else ""))
    return " ; ".join(parts)


def oracle_multi(case, obs):
    from dv import c14
    exp = []          # per object: (mode, tree spec it was last compiled from)
    prev = []         # per object: table part of the previous snapshot
    for i, (st, ob) in enumerate(zip(case["stages"], obs["stages"])):
        op = st["op"]
        target = st.get("obj")
        if ob["res"][0] != "Ok":
            t = ob.get("tree")
            if t is not None and any(x["taxon"] is None for x in trees.leaves(t)):
                return None          # a leaf without a taxon after the edit: outside the domain, the library asserts
            return ("%s raised %s at step %d of a history on several matrix objects: %s"
                    % (OPNAME[op], ob["res"][1], i, describe(case, i)), "multi-raises")
        if op == "new":
            exp.append(("empty", None))
        elif op in ("clone", "copy"):
            exp.append(exp[st["src"]])
        elif op in ("tree", "edit"):
            exp[target] = ("tree", ob["tree"])
        elif op == "dict":
            exp[target] = ("dict", st["tree"])
        elif op == "clear":
            exp[target] = ("empty", None)
        snaps = ob["res"][1]["objs"]
        if len(snaps) != len(exp):
            return ("%d matrix objects observed, %d expected" % (len(snaps), len(exp)), "multi-harness")
        # (1) an operation on one matrix object changes no query result of another
        for j, (full, sn) in enumerate(snaps):
            if j < len(prev) and j != target:
                for k in TABLE_KEYS:
                    if sn[k] != prev[j][k]:
                        return ("an operation on one matrix object changed a query result of another: after step %d of [%s], "
                                "%s of matrix m%d changed from %s to %s although the step did not operate on m%d"
                                % (i, describe(case, i), k, j, str(prev[j][k])[:120], str(sn[k])[:120], j),
                                "other-object-changed-by-" + OPNAME[op])
        # (2) every object against the tree it was last compiled from
        for j, (full, sn) in enumerate(snaps):
            mode, t = exp[j]
            if mode == "dict" and len(trees.leaves(t)) == 1:
                continue
            v = c14.oracle_pdm({"tree": t}, ["Ok", sn], mode)
            if v:
                who = "the object operated on" if j == target else "ANOTHER object (an operation on one matrix object must not change a query result of another)"
                key = ("multi-" + v[1]) if j == target or op in ("clone", "copy", "new") else "other-object-changed-by-" + OPNAME[op]
                return ("several matrix objects, [%s] (step %d), matrix m%d = %s: %s" % (describe(case, i), i, j, who, v[0]), key)
        # (3) a clone answers as its original does at clone time
        if op in ("clone", "copy"):
            a, b = snaps[st["src"]][1], snaps[-1][1]
            for k in TABLE_KEYS:
                if a[k] != b[k]:
                    return ("[%s]: %s of the clone is %s, of the original %s" % (describe(case, i), k, str(b[k])[:120], str(a[k])[:120]),
                            "clone-differs")
        prev = [dict((k, sn[k]) for k in TABLE_KEYS) for full, sn in snaps]
    return None


def c_mop(st, ob):
    op = st["op"]
    if op == "new":
        return "MNew"
    if op in ("clone", "copy"):
        return "(MClone %s)" % cz(st["src"])
    if op == "none":
        return "MNone"
    if op == "clear":
        return "(MClear %s)" % cz(st["obj"])
    if op in ("tree", "edit"):
        return "(MTree %s %s)" % (cz(st["obj"]), trees.c_tree(ob["tree"] if ob.get("tree") is not None else st["tree"]))
    return "(MDict %s %s)" % (cz(st["obj"]), clist([cpair(cz(a), clist([cpair(cz(b), cz(v)) for b, v in row])) for a, row in ob["sent"]]))


def to_coq_multi(case, obs):
    from dv import c14

    def c_exp(x):
        return cpair(clist([cpair(cbool(full), c14.c_pdm_obs(sn)) for full, sn in x["objs"]]), c14.zl(x["ids"]))
    return clist([cpair(c_mop(st, ob), c14.c_res(ob["res"], c_exp)) for st, ob in zip(case["stages"], obs["stages"])])


def nontrivial_multi(case, obs):
    ops = [st["op"] for st in case["stages"][:len(obs["stages"])]]
    return any(o in ("clone", "copy") for o in ops) and sum(1 for o in ops if o in ("tree", "edit", "dict")) >= 2


def demo_cases():
    """the shape of the seeded demo: matrix, clone, prune two taxa, recompile the original"""
    t = {"id": 0, "taxon": None, "label": None, "len": None, "kids": [
        {"id": 1, "taxon": None, "label": None, "len": 1024, "kids": [
            {"id": 2, "taxon": 0, "label": None, "len": 1024, "kids": []},
            {"id": 3, "taxon": 1, "label": None, "len": 2048, "kids": []}]},
        {"id": 4, "taxon": None, "label": None, "len": 1024, "kids": [
            {"id": 5, "taxon": 2, "label": None, "len": 3072, "kids": []},
            {"id": 6, "taxon": None, "label": None, "len": 2048, "kids": [
                {"id": 7, "taxon": 3, "label": None, "len": 1024, "kids": []},
                {"id": 8, "taxon": None, "label": None, "len": 1024, "kids": [
                    {"id": 9, "taxon": 4, "label": None, "len": 5120, "kids": []},
                    {"id": 10, "taxon": 5, "label": None, "len": 2048, "kids": []}]}]}]}]}
    q = lambda n: [{"acc": [[0, 1, True, False]], "means": [["MPD", None, True, False], ["MNTD", None, True, False]]}] * n
    out = []
    for cl in ("clone", "copy"):
        for which in (0, 1):
            out.append({"kind": "multi", "ntax": 6, "stages": [
                {"op": "new", "queries": [{"acc": [], "means": []}]},
                {"op": "tree", "obj": 0, "tree": t, "queries": q(1)},
                {"op": cl, "src": 0, "queries": q(2)},
                {"op": "edit", "obj": which, "edit": {"prune": [4, 5]}, "queries": q(2)},
                {"op": "clear", "obj": 1 - which, "queries": [q(1)[0] if k == which else {"acc": [], "means": []} for k in range(2)]},
            ]})
    return out
