"""Translator: dendropy/model/parsimony.py  ->  coq/Gen/Fitch.v   (property C16).

generate(repo) parses the CURRENT source with `ast` and compiles, statement by statement,

    _store_sets_as_attr, _retrieve_state_sets_from_attr, fitch_down_pass, fitch_up_pass, parsimony_score

into Gallina over the run-time library coq/Model/C16Prims.v (which states the Python meaning of
every primitive used below).  It is a small compiler for a whitelisted subset, not a table of known
bodies: every emitted definition is assembled from the statements, operators, call names, argument
orders, constants and assignment targets found in the source.  Anything outside the subset raises
Unsupported (py2coq then writes a stub: every dependent proof breaks, the check fails closed).

Compilation scheme (continuation passing, Python names are kept and re-bound by `let`):

  * a function denotes   params -> heap vars -> fres heap ret     (FRet / FRaise carry the heap
    variables at that point: the node-attribute store `st`, and in/out list parameters)
  * `x = e`, `x += e`, `l.append(e)`, `l.pop(0)`           re-bind x / l by `let`
  * an expression that can raise (subscript, getattr, unpacking, calls) is bound by
    `match ... with Ok v => .. | Err e_ => <raise e_> end`, evaluated left to right
  * `if t: A else: B; rest`                                `if t then [A; rest] else [B; rest]`
  * `for x in L: body`                                     a Fixpoint over the list L whose parameters
    are all variables defined before the loop; `continue` = the recursive call, `break` / exhaustion
    = LDone (tuple of those variables); enumerate(..) adds a nat counter; zip = py_zip2 / py_zip4
  * `while True: ...`                                      a Fixpoint on fuel; the fuel supplied is
    S (length l) for the list l of the loop's `if l: .. l.pop(0) .. else: break` exit
  * `try: s except AttributeError: h`                      the raise continuation of s tests
    err_eqb e_ AttrErr; a bare `raise` in h re-raises
  * `lambda` bound to a name                                 inlined at its call sites
  * calls of translated functions                           by position / keyword / default, as Python binds them

Static assumptions under which tests are folded (recorded as comments in the output):
  kwargs == {}  (no deprecated / unknown keyword arguments),  state_sets_attr_name is the default
  attribute name (not None): the `_NodeStateSetMap` variant is not translated.
Exception classes map to PyPrims.err by their built-in base class; TaxonNamespaceIdentityError's
base class is read from utility/error.py.
"""
import ast
import os

OUTPUT = "Fitch.v"


class Unsupported(Exception):
    pass


COQ_TY = {
    "int": "Z", "nat": "nat", "bool": "bool", "set": "Z", "ssl": "(list Z)", "ssll": "(list (list Z))",
    "node": "tree", "nodes": "(list tree)", "pnode": "pnode", "pnodes": "(list pnode)",
    "optnode": "(option tree)", "taxon": "(option Z)", "dict": "(option matrix)",
    "olist": "(option (list Z))", "store": "store", "set2": "(Z * Z)", "set4": "(Z * Z * Z * Z)",
    "natlist": "(list nat)", "set2list": "(list (Z * Z))", "set4list": "(list (Z * Z * Z * Z))",
    "treeobj": "tree_obj", "charsobj": "chars_obj", "unit": "unit", "nsid": "Z",
}
ELEM = {"nodes": "node", "pnodes": "pnode", "ssl": "set", "ssll": "ssl", "natlist": "nat",
        "set2list": "set2", "set4list": "set4"}
LIST_TYPES = set(ELEM)

EXC = {"ValueError": "ValueErr", "TypeError": "TypeErr", "AttributeError": "AttrErr", "IndexError": "IndexErr",
       "KeyError": "KeyErr", "AssertionError": "AssertErr", "LookupError": "LookupErr"}

FUNCS = [
    dict(py="_store_sets_as_attr", coq="gen_store_sets_as_attr",
         params=[("n", "node"), ("state_sets_attr_name", "static:attr"), ("v", "ssl")],
         heap=["st"], ret="unit", locals={}),
    dict(py="_retrieve_state_sets_from_attr", coq="gen_retrieve_state_sets_from_attr",
         params=[("n", "node"), ("state_sets_attr_name", "static:attr"), ("taxon_state_sets_map", "dict")],
         heap=["st"], ret="ssl", locals={"v": "ssl"}),
    dict(py="fitch_down_pass", coq="gen_fitch_down_pass",
         params=[("postorder_node_iter", "nodes"), ("state_sets_attr_name", "static:attr"),
                 ("taxon_state_sets_map", "dict"), ("weights", "olist"), ("score_by_character_list", "heap:olist"),
                 ("kwargs", "static:emptydict")],
         heap=["st", "score_by_character_list"], ret="int",
         locals={"nd": "node", "c": "nodes", "ss": "ssl", "left_c": "node", "right_c": "node", "remaining": "nodes",
                 "left_ssl": "ssl", "right_ssl": "ssl", "result": "ssl", "n": "nat", "ssp": "set2",
                 "left_ss": "set", "right_ss": "set", "inter": "set", "wt": "int", "score": "int", "idx": "nat"}),
    dict(py="fitch_up_pass", coq="gen_fitch_up_pass",
         params=[("preorder_node_iter", "pnodes"), ("state_sets_attr_name", "static:attr"),
                 ("taxon_state_sets_map", "dict"), ("kwargs", "static:emptydict")],
         heap=["st"], ret="unit",
         locals={"nd": "pnode", "c": "nodes", "p": "optnode", "left_c": "node", "right_c": "node",
                 "left_ssl": "ssl", "right_ssl": "ssl", "par_ssl": "ssl", "curr_ssl": "ssl", "result": "ssl",
                 "n": "nat", "ssp": "set4", "par_ss": "set", "curr_ss": "set", "left_ss": "set", "right_ss": "set",
                 "down_parup_inter": "set", "final_ss": "set", "rl_inter": "set", "in_par_and_left": "set",
                 "in_par_and_right": "set", "node_state_sets_map": "dead"}),
    dict(py="parsimony_score", coq="gen_parsimony_score",
         params=[("tree", "treeobj"), ("chars", "charsobj"), ("gaps_as_missing", "bool"), ("weights", "olist"),
                 ("score_by_character_list", "heap:olist")],
         heap=["st", "score_by_character_list"], ret="int",
         locals={"taxon_state_sets_map": "dict", "nodes": "nodes", "pscore": "int"}),
]


def src_of(node):
    try:
        return " ".join(ast.unparse(node).split())[:90].replace("*)", "* )").replace("(*", "( *")
    except Exception:
        return type(node).__name__


def names_assigned(nodes):
    out = set()
    for node in nodes:
        for n in ast.walk(node):
            if isinstance(n, ast.Name) and isinstance(n.ctx, ast.Store):
                out.add(n.id)
            elif isinstance(n, ast.AugAssign) and isinstance(n.target, ast.Name):
                out.add(n.target.id)
            elif isinstance(n, ast.AugAssign) and isinstance(n.target, ast.Subscript) and isinstance(n.target.value, ast.Name):
                out.add(n.target.value.id)
            elif (isinstance(n, ast.Call) and isinstance(n.func, ast.Attribute) and n.func.attr in ("append", "pop")
                  and isinstance(n.func.value, ast.Name)):
                out.add(n.func.value.id)
    return out


def names_read(nodes, skip=None):
    out = set()

    def walk(n):
        if n is skip:
            return
        if isinstance(n, ast.Name) and isinstance(n.ctx, ast.Load):
            out.add(n.id)
        for ch in ast.iter_child_nodes(n):
            walk(ch)
    for node in nodes:
        walk(node)
    return out


class Ctx:
    """compile-time context; immutable (copy on change)"""
    def __init__(self, defined, raise_, fuel, ret, loop=None, reraise=None):
        self.defined = defined            # tuple of Gallina variables in scope (definition order)
        self.raise_ = raise_              # err term -> text
        self.fuel = fuel                  # () -> text
        self.ret = ret                    # (value term) -> text, or None inside loops
        self.loop = loop                  # dict(cont=fn(ctx)->text, brk=fn(ctx)->text) or None
        self.reraise = reraise            # inside an except handler: () -> text

    def with_(self, **kw):
        c = Ctx(self.defined, self.raise_, self.fuel, self.ret, self.loop, self.reraise)
        for k, v in kw.items():
            setattr(c, k, v)
        return c

    def define(self, *names):
        d = list(self.defined)
        for n in names:
            if n not in d:
                d.append(n)
        return self.with_(defined=tuple(d))


class FnCompiler:
    def __init__(self, unit, spec, fn):
        self.unit = unit
        self.spec = spec
        self.fn = fn
        self.types = {}
        self.statics = {}
        self.heap = list(spec["heap"])
        self.macros = {}
        self.defs = []            # auxiliary Fixpoints, in dependency order
        self.loop_memo = {}
        self.nloops = 0
        self.ntmp = 0
        # signature must be the one the configuration was written for
        a = fn.args
        if a.posonlyargs or a.kwonlyargs or a.vararg:
            raise Unsupported("%s: unsupported parameter kinds" % fn.name)
        pynames = [x.arg for x in a.args] + ([a.kwarg.arg] if a.kwarg else [])
        if pynames != [p for p, _ in spec["params"]]:
            raise Unsupported("%s: parameters %s, expected %s" % (fn.name, pynames, [p for p, _ in spec["params"]]))
        self.pydefaults = {}
        for arg, d in zip(a.args[len(a.args) - len(a.defaults):], a.defaults):
            self.pydefaults[arg.arg] = d
        self.params = []
        for p, t in spec["params"]:
            if t.startswith("static:"):
                self.statics[p] = t[7:]
            elif t.startswith("heap:"):
                self.types[p] = t[5:]
                if p not in self.heap:
                    raise Unsupported("heap parameter %s not listed" % p)
            else:
                self.types[p] = t
                self.params.append(p)
        self.types["st"] = "store"
        for v, t in spec["locals"].items():
            self.types[v] = t
        if self.statics.get("state_sets_attr_name") == "attr":
            d = self.pydefaults.get("state_sets_attr_name")
            if d is not None and not (isinstance(d, ast.Constant) and isinstance(d.value, str)):
                raise Unsupported("default of state_sets_attr_name is not a string")

    # ------------------------------------------------------------------ helpers
    def ty(self, name):
        if name not in self.types:
            raise Unsupported("%s: no type declared for variable %s" % (self.fn.name, name))
        return self.types[name]

    def coq(self, t):
        if t not in COQ_TY:
            raise Unsupported("type %s" % t)
        return COQ_TY[t]

    def tmp(self):
        self.ntmp += 1
        return "t%d_" % self.ntmp

    def heap_tuple(self):
        return self.heap[0] if len(self.heap) == 1 else "(%s)" % ", ".join(self.heap)

    def heap_ty(self):
        return self.coq(self.ty(self.heap[0])) if len(self.heap) == 1 else \
            "(%s)" % " * ".join(self.coq(self.ty(h)) for h in self.heap)

    def tuple_of(self, names):
        if not names:
            return "tt"
        return names[0] if len(names) == 1 else "(%s)" % ", ".join(names)

    def tuple_ty(self, names):
        if not names:
            return "unit"
        return self.coq(self.ty(names[0])) if len(names) == 1 else "(%s)" % " * ".join(self.coq(self.ty(n)) for n in names)

    def let_tuple(self, names, term, body):
        if not names:
            return body
        if len(names) == 1:
            return "(let %s := %s in\n%s)" % (names[0], term, body)
        return "(let '(%s) := %s in\n%s)" % (", ".join(names), term, body)

    def use(self, name, ctx):
        if name not in ctx.defined:
            raise Unsupported("%s: variable %s may be read before it is assigned" % (self.fn.name, name))
        return name

    # ------------------------------------------------------------------ static folding
    def static_test(self, e):
        """True / False when the test is decided by the static assumptions, else None"""
        def is_static(x, kind):
            return isinstance(x, ast.Name) and self.statics.get(x.id) == kind
        if is_static(e, "emptydict"):
            return False
        if isinstance(e, ast.Compare) and len(e.ops) == 1:
            l, op, r = e.left, e.ops[0], e.comparators[0]
            if isinstance(op, ast.In) and isinstance(l, ast.Constant) and is_static(r, "emptydict"):
                return False
            if isinstance(op, ast.NotIn) and isinstance(l, ast.Constant) and is_static(r, "emptydict"):
                return True
            if (isinstance(l, ast.Call) and isinstance(l.func, ast.Name) and l.func.id == "len" and len(l.args) == 1
                    and is_static(l.args[0], "emptydict") and isinstance(r, ast.Constant) and r.value == 0):
                if isinstance(op, ast.NotEq):
                    return False
                if isinstance(op, ast.Eq):
                    return True
            if is_static(l, "attr") and isinstance(r, ast.Constant) and r.value is None:
                if isinstance(op, ast.Is):
                    return False
                if isinstance(op, ast.IsNot):
                    return True
        return None

    # ------------------------------------------------------------------ expressions
    def truth(self, term, t):
        if t == "bool":
            return term
        if t in LIST_TYPES:
            return "(py_list_truthy %s)" % term
        if t == "set":
            return "(py_set_truthy %s)" % term
        if t == "optnode":
            return "(py_optnode_truthy %s)" % term
        if t == "dict":
            return "(py_dict_truthy %s)" % term
        raise Unsupported("truth value of type %s" % t)

    def bind_res(self, term, t, ctx, k):
        v = self.tmp()
        return "(match %s with\n| Ok %s => %s\n| Err e_ => %s\n| OutOfFuel => %s\nend)" % (
            term, v, k(v, t), ctx.raise_("e_"), ctx.fuel())

    def exprs(self, es, ctx, k, wants=None):
        """evaluate left to right; k(list of (term, type))"""
        def go(i, acc):
            if i == len(es):
                return k(acc)
            return self.expr(es[i], ctx, lambda term, t: go(i + 1, acc + [(term, t)]),
                             want=(wants[i] if wants else None))
        return go(0, [])

    def nat_const(self, e):
        if isinstance(e, ast.Constant) and isinstance(e.value, int) and not isinstance(e.value, bool) and e.value >= 0:
            return "%d%%nat" % e.value
        raise Unsupported("expected a non-negative integer literal: %s" % src_of(e))

    def expr(self, e, ctx, k, want=None):
        if isinstance(e, ast.Name):
            if e.id in self.statics or e.id in self.macros:
                raise Unsupported("%s used as a value" % e.id)
            t = self.ty(e.id)
            if t == "dead":
                raise Unsupported("variable %s is read" % e.id)
            return k(self.use(e.id, ctx), t)
        if isinstance(e, ast.Constant):
            if e.value is None:
                if want not in ("dict", "olist", "optnode", "taxon"):
                    raise Unsupported("None where a %s is expected" % want)
                return k("None", want)
            if isinstance(e.value, bool):
                return k("true" if e.value else "false", "bool")
            if isinstance(e.value, int):
                if want == "nat":
                    return k(self.nat_const(e), "nat")
                return k("(%d)" % e.value, "int")
            raise Unsupported("constant %r" % (e.value,))
        if isinstance(e, ast.Attribute):
            return self.expr(e.value, ctx, lambda term, t: self.attribute(e.attr, term, t, k))
        if isinstance(e, ast.Subscript):
            return self.subscript(e, ctx, k)
        if isinstance(e, ast.UnaryOp) and isinstance(e.op, ast.Not):
            return self.expr(e.operand, ctx, lambda term, t: k("(negb %s)" % self.truth(term, t), "bool"))
        if isinstance(e, ast.BoolOp):
            op = "orb" if isinstance(e.op, ast.Or) else "andb"
            pure = [self.truth(*self.pure(v, ctx)) for v in e.values]
            acc = pure[0]
            for x in pure[1:]:
                acc = "(%s %s %s)" % (op, acc, x)
            return k(acc, "bool")
        if isinstance(e, ast.Compare):
            return self.compare(e, ctx, k)
        if isinstance(e, ast.Call):
            return self.call(e, ctx, k)
        raise Unsupported("expression %s" % src_of(e))

    def pure(self, e, ctx, want=None):
        """compile an expression that must not need binding; returns (term, type)"""
        got = []
        marker = "\0"
        txt = self.expr(e, ctx, lambda term, t: got.append((term, t)) or marker, want=want)
        if len(got) != 1 or txt != marker:
            raise Unsupported("expression must be pure here: %s" % src_of(e))
        return got[0]

    def attribute(self, attr, term, t, k):
        if attr == "taxon" and t == "node":
            return k("(py_taxon %s)" % term, "taxon")
        if attr == "taxon" and t == "pnode":
            return k("(py_taxon (pn_node %s))" % term, "taxon")
        if attr == "parent_node" and t == "pnode":
            return k("(py_parent_node %s)" % term, "optnode")
        if attr == "taxon_namespace" and t == "treeobj":
            return k("(to_namespace %s)" % term, "nsid")
        if attr == "taxon_namespace" and t == "charsobj":
            return k("(co_namespace %s)" % term, "nsid")
        raise Unsupported("attribute .%s of a %s" % (attr, t))

    def subscript(self, e, ctx, k):
        sl = e.slice
        if isinstance(sl, ast.Slice):
            if sl.step is not None:
                raise Unsupported("slice step")
            def after(term, t):
                if t not in LIST_TYPES:
                    raise Unsupported("slice of a %s" % t)
                if sl.lower is None and sl.upper is not None:
                    return k("(py_slice_to %s %s)" % (term, self.nat_const(sl.upper)), t)
                if sl.lower is not None and sl.upper is None:
                    return k("(py_slice_from %s %s)" % (term, self.nat_const(sl.lower)), t)
                raise Unsupported("slice %s" % src_of(e))
            return self.expr(e.value, ctx, after)

        def after(term, t):
            if t == "dict":
                return self.expr(sl, ctx, lambda kt, ktt: self.need(ktt, "taxon", sl) or
                                 self.bind_res("(py_dict_getitem %s %s)" % (term, kt), "ssl", ctx, k))
            if t == "olist":
                return self.expr(sl, ctx, lambda it, itt: self.need(itt, "nat", sl) or
                                 self.bind_res("(py_ogetitem %s %s)" % (term, it), "int", ctx, k), want="nat")
            if t in LIST_TYPES:
                return self.expr(sl, ctx, lambda it, itt: self.need(itt, "nat", sl) or
                                 self.bind_res("(py_getitem %s %s)" % (term, it), ELEM[t], ctx, k), want="nat")
            raise Unsupported("subscript of a %s" % t)
        return self.expr(e.value, ctx, after)

    def need(self, got, want, node):
        if got != want:
            raise Unsupported("%s has type %s, expected %s" % (src_of(node), got, want))
        return None

    def compare(self, e, ctx, k):
        if len(e.ops) != 1:
            raise Unsupported("chained comparison")
        l, op, r = e.left, e.ops[0], e.comparators[0]
        if isinstance(op, (ast.Is, ast.IsNot)):
            neg = isinstance(op, ast.IsNot)
            if isinstance(r, ast.Constant) and r.value is None:
                def after(term, t):
                    if t not in ("dict", "olist", "optnode", "taxon"):
                        raise Unsupported("`is None` on a %s" % t)
                    b = "(py_is_none %s)" % term
                    return k("(negb %s)" % b if neg else b, "bool")
                return self.expr(l, ctx, after)

            def after2(vals):
                (a, ta), (b, tb) = vals
                if ta != "nsid" or tb != "nsid":
                    raise Unsupported("`is` on %s / %s" % (ta, tb))
                t = "(py_is %s %s)" % (a, b)
                return k("(negb %s)" % t if neg else t, "bool")
            return self.exprs([l, r], ctx, after2)
        if isinstance(op, (ast.Eq, ast.NotEq)):
            neg = isinstance(op, ast.NotEq)

            def after3(vals):
                (a, ta), (b, tb) = vals
                if ta == "nat" and tb in ("nat", "int"):
                    t = "(Nat.eqb %s %s)" % (a, b)
                elif ta == "set" and tb == "set":
                    t = "(py_set_eq %s %s)" % (a, b)
                else:
                    raise Unsupported("== on %s / %s" % (ta, tb))
                return k("(negb %s)" % t if neg else t, "bool")
            return self.exprs([l, r], ctx, after3, wants=[None, "nat"])
        raise Unsupported("comparison %s" % src_of(e))

    def call(self, e, ctx, k):
        f = e.func
        if isinstance(f, ast.Name):
            name = f.id
            if name in self.macros:
                lam = self.macros[name]
                if e.keywords or len(e.args) != len(lam.args.args):
                    raise Unsupported("call of lambda %s" % name)
                sub = {p.arg: a for p, a in zip(lam.args.args, e.args)}
                for a in e.args:
                    if not isinstance(a, (ast.Name, ast.Subscript, ast.Attribute, ast.Constant)):
                        raise Unsupported("argument of lambda call %s" % src_of(a))
                body = Subst(sub).visit(ast.parse(ast.unparse(lam.body), mode="eval").body)
                return self.expr(body, ctx, k)
            if name in self.unit.compiled:
                return self.call_generated(name, e, ctx, k)
            if name == "len" and len(e.args) == 1 and not e.keywords:
                def after(term, t):
                    if t in LIST_TYPES:
                        return k("(length %s)" % term, "nat")
                    if t == "olist":
                        return self.bind_res("(py_olen %s)" % term, "nat", ctx, k)
                    raise Unsupported("len of a %s" % t)
                return self.expr(e.args[0], ctx, after)
            if name == "list" and len(e.args) == 1 and not e.keywords:
                return self.expr(e.args[0], ctx, lambda term, t: self.need(t in LIST_TYPES or None, True, e) or k(term, t))
            if name == "range" and len(e.args) == 1 and not e.keywords:
                return self.expr(e.args[0], ctx, lambda term, t: self.need(t, "nat", e) or k("(py_range %s)" % term, "natlist"))
            if name == "zip" and not e.keywords and len(e.args) in (2, 4):
                def after(vals):
                    for (_a, t), arg in zip(vals, e.args):
                        self.need(t, "ssl", arg)
                    terms = " ".join(a for a, _ in vals)
                    if len(vals) == 2:
                        return k("(py_zip2 %s)" % terms, "set2list")
                    return k("(py_zip4 %s)" % terms, "set4list")
                return self.exprs(list(e.args), ctx, after)
            if name == "getattr" and len(e.args) == 2 and not e.keywords:
                self.attr_name(e.args[1])

                def after(term, t):
                    if t == "node":
                        return self.bind_res("(py_getattr st %s)" % term, "ssl", ctx, k)
                    if t == "pnode":
                        return self.bind_res("(py_getattr st (pn_node %s))" % term, "ssl", ctx, k)
                    if t == "optnode":
                        return self.bind_res("(py_getattr_opt st %s)" % term, "ssl", ctx, k)
                    raise Unsupported("getattr on a %s" % t)
                return self.expr(e.args[0], ctx, after)
            raise Unsupported("call of %s" % name)
        if isinstance(f, ast.Attribute):
            m = f.attr
            if m in ("intersection", "union") and not e.keywords and e.args:
                def after(vals):
                    for (_a, t), arg in zip(vals, [f.value] + list(e.args)):
                        self.need(t, "set", arg)
                    prim = "py_set_inter" if m == "intersection" else "py_set_union"
                    return k("(%s %s [%s])" % (prim, vals[0][0], "; ".join(a for a, _ in vals[1:])), "set")
                return self.exprs([f.value] + list(e.args), ctx, after)
            if m == "child_nodes" and not e.args and not e.keywords:
                def after(term, t):
                    if t == "node":
                        return k("(py_child_nodes %s)" % term, "nodes")
                    if t == "pnode":
                        return k("(py_child_nodes (pn_node %s))" % term, "nodes")
                    raise Unsupported("child_nodes of a %s" % t)
                return self.expr(f.value, ctx, after)
            if m == "values" and not e.args and not e.keywords:
                return self.expr(f.value, ctx, lambda term, t: self.need(t, "dict", f.value) or
                                 self.bind_res("(py_dict_values %s)" % term, "ssll", ctx, k))
            if m == "postorder_node_iter" and not e.args and not e.keywords:
                return self.expr(f.value, ctx, lambda term, t: self.need(t, "treeobj", f.value) or
                                 k("(py_postorder_node_iter %s)" % term, "nodes"))
            if m == "taxon_state_sets_map" and not e.args and [kw.arg for kw in e.keywords] == ["gaps_as_missing"]:
                def after(vals):
                    (c, tc), (g, tg) = vals
                    self.need(tc, "charsobj", f.value)
                    self.need(tg, "bool", e.keywords[0].value)
                    return k("(py_taxon_state_sets_map %s %s)" % (c, g), "dict")
                return self.exprs([f.value, e.keywords[0].value], ctx, after)
            raise Unsupported("method call .%s" % m)
        raise Unsupported("call %s" % src_of(e))

    def attr_name(self, a):
        if not (isinstance(a, ast.Name) and self.statics.get(a.id) == "attr"):
            raise Unsupported("attribute name must be the state_sets_attr_name parameter: %s" % src_of(a))

    def call_generated(self, name, e, ctx, k):
        callee = self.unit.compiled[name]
        cfn = callee.fn
        pynames = [x.arg for x in cfn.args.args]
        bound = {}
        if len(e.args) > len(pynames):
            raise Unsupported("too many arguments for %s" % name)
        for p, a in zip(pynames, e.args):
            bound[p] = a
        for kw in e.keywords:
            if kw.arg is None or kw.arg not in pynames or kw.arg in bound:
                raise Unsupported("keyword argument %s of %s" % (kw.arg, name))
            bound[kw.arg] = kw.value
        for p in pynames:
            if p not in bound:
                if p not in callee.pydefaults:
                    raise Unsupported("missing argument %s of %s" % (p, name))
                bound[p] = callee.pydefaults[p]
        # statics of the callee must be passed statics (or left at their default)
        for p, kind in callee.statics.items():
            if kind == "attr" and p in bound:
                a = bound[p]
                if not ((isinstance(a, ast.Name) and self.statics.get(a.id) == "attr") or
                        (isinstance(a, ast.Constant) and isinstance(a.value, str) and a is callee.pydefaults.get(p))):
                    raise Unsupported("argument %s of %s" % (p, name))
        value_params = callee.params
        heap_args = {}
        for h in callee.heap:
            if h == "st":
                heap_args[h] = "st"
            else:
                a = bound[h]
                if isinstance(a, ast.Name) and a.id in self.heap:
                    heap_args[h] = a.id
                else:
                    raise Unsupported("in/out argument %s of %s must be a heap variable of the caller" % (h, name))

        def after(vals):
            args = " ".join(t for t, _ in vals)
            for (t, ty), p in zip(vals, value_params):
                self.need(ty, callee.ty(p), bound[p])
            hs = " ".join(self.use(heap_args[h], ctx) for h in callee.heap)
            pat = [heap_args[h] for h in callee.heap]
            r = self.tmp()
            ok = k(r, callee.spec["ret"])
            return "(match %s %s %s with\n| FRet h_ %s => %s\n| FRaise h_ e_ => %s\n| FFuel => %s\nend)" % (
                callee.spec["coq"], args, hs, r, self.let_tuple(pat, "h_", ok),
                self.let_tuple(pat, "h_", ctx.raise_("e_")), ctx.fuel())
        return self.exprs([bound[p] for p in value_params], ctx, after, wants=[callee.ty(p) for p in value_params])

    # ------------------------------------------------------------------ statements
    def block(self, body, ctx, k):
        return self.stmts(body, 0, ctx, k)

    def stmts(self, body, i, ctx, k):
        if i == len(body):
            return k(ctx)
        s = body[i]
        rest = lambda c: self.stmts(body, i + 1, c, k)
        doc = isinstance(s, ast.Expr) and isinstance(s.value, ast.Constant) and isinstance(s.value.value, str)
        com = "(* %s *)\n" % src_of(s) if not (doc or isinstance(s, (ast.If, ast.For, ast.While, ast.Try))) else ""
        return com + self.stmt(s, ctx, rest)

    def stmt(self, s, ctx, rest):
        if isinstance(s, ast.Expr) and isinstance(s.value, ast.Constant) and isinstance(s.value.value, str):
            return rest(ctx)
        if isinstance(s, ast.If):
            st = self.static_test(s.test)
            if st is not None:
                note = "(* if %s: statically %s (kwargs == {}, default attribute name) *)\n" % (src_of(s.test), st)
                return note + self.block(s.body if st else s.orelse, ctx, rest)
            cond, t = self.pure(s.test, ctx)
            return "(* if %s *)\n(if %s\nthen %s\nelse %s)" % (
                src_of(s.test), self.truth(cond, t), self.block(s.body, ctx, rest), self.block(s.orelse, ctx, rest))
        if isinstance(s, ast.Assign):
            return self.assign(s, ctx, rest)
        if isinstance(s, ast.AugAssign):
            return self.augassign(s, ctx, rest)
        if isinstance(s, ast.Expr):
            return self.expr_stmt(s.value, ctx, rest)
        if isinstance(s, ast.Pass):
            return rest(ctx)
        if isinstance(s, ast.Continue):
            if not ctx.loop:
                raise Unsupported("continue outside a loop")
            return ctx.loop["cont"](ctx)
        if isinstance(s, ast.Break):
            if not ctx.loop:
                raise Unsupported("break outside a loop")
            return ctx.loop["brk"](ctx)
        if isinstance(s, ast.Return):
            if ctx.ret is None:
                raise Unsupported("return inside a loop")
            if s.value is None:
                return ctx.ret("tt", "unit")
            return self.expr(s.value, ctx, lambda term, t: ctx.ret(term, t))
        if isinstance(s, ast.Raise):
            if s.exc is None:
                if ctx.reraise is None:
                    raise Unsupported("bare raise outside an except handler")
                return ctx.reraise()
            exc = s.exc
            if isinstance(exc, ast.Call) and isinstance(exc.func, ast.Name):
                return ctx.raise_(self.unit.exc_enum(exc.func.id))
            raise Unsupported("raise %s" % src_of(exc))
        if isinstance(s, ast.Assert):
            cond, t = self.pure_or_bind(s.test, ctx)
            if cond is None:
                return self.expr(s.test, ctx, lambda term, t2: "(if %s\nthen %s\nelse %s)" % (
                    self.truth(term, t2), rest(ctx), ctx.raise_("AssertErr")))
            return "(if %s\nthen %s\nelse %s)" % (self.truth(cond, t), rest(ctx), ctx.raise_("AssertErr"))
        if isinstance(s, ast.For):
            return self.for_loop(s, ctx, rest)
        if isinstance(s, ast.While):
            return self.while_loop(s, ctx, rest)
        if isinstance(s, ast.Try):
            return self.try_stmt(s, ctx, rest)
        raise Unsupported("statement %s" % src_of(s))

    def pure_or_bind(self, e, ctx):
        try:
            return self.pure(e, ctx)
        except Unsupported:
            return None, None

    def assign(self, s, ctx, rest):
        if len(s.targets) != 1:
            raise Unsupported("multiple assignment targets")
        tgt = s.targets[0]
        v = s.value
        if isinstance(tgt, ast.Name):
            x = tgt.id
            if x in self.statics or x in self.heap and x != "st" and False:
                raise Unsupported("assignment to %s" % x)
            if isinstance(v, ast.Lambda):
                if x in self.types:
                    raise Unsupported("lambda bound to a typed variable %s" % x)
                for fv in names_read([v.body]):
                    if fv in names_assigned(self.fn.body) and fv not in [a.arg for a in v.args.args]:
                        raise Unsupported("lambda %s captures the assigned variable %s" % (x, fv))
                self.macros[x] = v
                return rest(ctx)
            tx = self.types.get(x)
            if tx is None:
                # a local without a declared type takes the type of the first expression assigned to it
                if isinstance(v, (ast.List, ast.Dict)) or x in self.heap:
                    raise Unsupported("%s: no type declared for variable %s" % (self.fn.name, x))

                def infer(term, t):
                    self.types[x] = t
                    return "(let %s := %s in\n%s)" % (x, term, rest(ctx.define(x)))
                return self.expr(v, ctx, infer)
            if tx == "dead":
                if not (isinstance(v, ast.Dict) and not v.keys):
                    raise Unsupported("dead variable %s must be bound to {}" % x)
                if x in names_read(self.fn.body):
                    raise Unsupported("variable %s is read" % x)
                return "(* %s is never read *)\n" % x + rest(ctx)
            if isinstance(v, ast.List) and not v.elts:
                if tx not in LIST_TYPES:
                    raise Unsupported("[] assigned to a %s" % tx)
                return "(let %s : %s := [] in\n%s)" % (x, self.coq(tx), rest(ctx.define(x)))
            # x = l.pop(0)
            if (isinstance(v, ast.Call) and isinstance(v.func, ast.Attribute) and v.func.attr == "pop"
                    and isinstance(v.func.value, ast.Name) and not v.keywords and len(v.args) == 1
                    and isinstance(v.args[0], ast.Constant) and v.args[0].value == 0):
                l = v.func.value.id
                tl = self.ty(l)
                if tl in LIST_TYPES and tx is None:
                    tx = self.types.setdefault(x, ELEM[tl])
                if tl not in LIST_TYPES or ELEM[tl] != tx:
                    raise Unsupported("pop(0): %s" % src_of(s))
                self.use(l, ctx)
                return "(match py_pop0 %s with\n| Ok pr_ => (let '(%s, %s) := pr_ in\n%s)\n| Err e_ => %s\n| OutOfFuel => %s\nend)" % (
                    l, x, l, rest(ctx.define(x)), ctx.raise_("e_"), ctx.fuel())
            return self.expr(v, ctx, lambda term, t: self.need(t if not (t == "int" and tx == "int") else t, tx, v) or
                             "(let %s := %s in\n%s)" % (x, term, rest(ctx.define(x))), want=tx)
        if isinstance(tgt, ast.Tuple) and all(isinstance(t, ast.Name) for t in tgt.elts):
            names = [t.id for t in tgt.elts]

            def after(term, t):
                if t in LIST_TYPES and len(names) == 2:
                    for nm in names:
                        self.need(self.types.setdefault(nm, ELEM[t]), ELEM[t], tgt)
                    return "(match py_unpack2 %s with\n| Ok pr_ => (let '(%s, %s) := pr_ in\n%s)\n| Err e_ => %s\n| OutOfFuel => %s\nend)" % (
                        term, names[0], names[1], rest(ctx.define(*names)), ctx.raise_("e_"), ctx.fuel())
                if (t == "set2" and len(names) == 2) or (t == "set4" and len(names) == 4):
                    for nm in names:
                        self.need(self.types.setdefault(nm, "set"), "set", tgt)
                    return self.let_tuple(names, term, rest(ctx.define(*names)))
                raise Unsupported("unpacking a %s into %d names" % (t, len(names)))
            return self.expr(v, ctx, after)
        raise Unsupported("assignment %s" % src_of(s))

    def augassign(self, s, ctx, rest):
        ops = {ast.Add: "+", ast.Sub: "-", ast.Mult: "*"}
        if type(s.op) not in ops:
            raise Unsupported("augmented assignment operator")
        if isinstance(s.target, ast.Name):
            x = s.target.id
            self.need(self.ty(x), "int", s.target)
            self.use(x, ctx)
            return self.expr(s.value, ctx, lambda term, t: self.need(t, "int", s.value) or
                             "(let %s := (%s %s %s) in\n%s)" % (x, x, ops[type(s.op)], term, rest(ctx)), want="int")
        if isinstance(s.target, ast.Subscript) and isinstance(s.target.value, ast.Name) and isinstance(s.op, ast.Add):
            l = s.target.value.id
            self.need(self.ty(l), "olist", s.target.value)
            self.use(l, ctx)

            def after(vals):
                (i, ti), (w, tw) = vals
                self.need(ti, "nat", s.target.slice)
                self.need(tw, "int", s.value)
                return "(match py_oiadd_item %s %s %s with\n| Ok %s => %s\n| Err e_ => %s\n| OutOfFuel => %s\nend)" % (
                    l, i, w, l, rest(ctx), ctx.raise_("e_"), ctx.fuel())
            return self.exprs([s.target.slice, s.value], ctx, after, wants=["nat", "int"])
        raise Unsupported("augmented assignment %s" % src_of(s))

    def expr_stmt(self, v, ctx, rest):
        if isinstance(v, ast.Call) and isinstance(v.func, ast.Attribute) and v.func.attr == "append" \
                and isinstance(v.func.value, ast.Name) and len(v.args) == 1 and not v.keywords:
            l = v.func.value.id
            tl = self.ty(l)
            self.use(l, ctx)
            if tl in LIST_TYPES:
                return self.expr(v.args[0], ctx, lambda term, t: self.need(t, ELEM[tl], v.args[0]) or
                                 "(let %s := py_append %s %s in\n%s)" % (l, l, term, rest(ctx)), want=ELEM[tl])
            if tl == "olist":
                return self.expr(v.args[0], ctx, lambda term, t: self.need(t, "int", v.args[0]) or
                                 "(match py_oappend %s %s with\n| Ok %s => %s\n| Err e_ => %s\n| OutOfFuel => %s\nend)" % (
                                     l, term, l, rest(ctx), ctx.raise_("e_"), ctx.fuel()), want="int")
            raise Unsupported("append on a %s" % tl)
        if isinstance(v, ast.Call) and isinstance(v.func, ast.Name) and v.func.id == "setattr" \
                and len(v.args) == 3 and not v.keywords:
            self.attr_name(v.args[1])

            def after(vals):
                (n, tn), (val, tv) = vals
                self.need(tv, "ssl", v.args[2])
                if tn == "node":
                    return "(let st := py_setattr st %s %s in\n%s)" % (n, val, rest(ctx))
                if tn == "pnode":
                    return "(let st := py_setattr st (pn_node %s) %s in\n%s)" % (n, val, rest(ctx))
                raise Unsupported("setattr on a %s" % tn)
            return self.exprs([v.args[0], v.args[2]], ctx, after)
        if isinstance(v, ast.Call):
            return self.expr(v, ctx, lambda term, t: rest(ctx))
        raise Unsupported("expression statement %s" % src_of(v))

    def try_stmt(self, s, ctx, rest):
        if s.orelse or s.finalbody or len(s.handlers) != 1 or len(s.body) != 1:
            raise Unsupported("try statement shape")
        h = s.handlers[0]
        if h.name is not None or not isinstance(h.type, ast.Name):
            raise Unsupported("except clause")
        if isinstance(s.body[0], (ast.For, ast.While, ast.Try)):
            raise Unsupported("loop inside try")
        cls = self.unit.exc_enum(h.type.id)
        outer = ctx
        hctx = ctx.with_(reraise=lambda: outer.raise_(cls))
        # variables assigned by the protected statement are not defined in the handler
        handler = self.block(h.body, hctx, lambda c: rest(c.with_(reraise=outer.reraise)))
        bctx = ctx.with_(raise_=lambda e: "(if err_eqb %s %s\nthen %s\nelse %s)" % (e, cls, handler, outer.raise_(e)))
        body = self.block(s.body, bctx, lambda c: rest(c.with_(raise_=outer.raise_)))
        return "(* try: %s  except %s: *)\n%s" % (src_of(s.body[0]), h.type.id, body)

    # ------------------------------------------------------------------ loops
    def for_loop(self, s, ctx, rest):
        if s.orelse:
            raise Unsupported("for-else")
        it = s.iter
        enum = False
        if isinstance(it, ast.Call) and isinstance(it.func, ast.Name) and it.func.id == "enumerate":
            if len(it.args) != 1 or it.keywords:
                raise Unsupported("enumerate arguments")
            enum = True
            it = it.args[0]
        if enum:
            if not (isinstance(s.target, ast.Tuple) and len(s.target.elts) == 2
                    and all(isinstance(t, ast.Name) for t in s.target.elts)):
                raise Unsupported("target of a for over enumerate")
            idx, elem = s.target.elts[0].id, s.target.elts[1].id
            self.need(self.types.setdefault(idx, "nat"), "nat", s.target)
        else:
            if not isinstance(s.target, ast.Name):
                raise Unsupported("for target")
            idx, elem = None, s.target.id

        def after(term, t):
            if t not in LIST_TYPES:
                raise Unsupported("iteration over a %s" % t)
            self.need(self.types.setdefault(elem, ELEM[t]), ELEM[t], s.target)
            params = [v for v in ctx.defined if v not in (idx, elem)]
            key = (id(s), tuple(params))
            if key not in self.loop_memo:
                self.nloops += 1
                name = "%s_loop%d" % (self.spec["coq"], self.nloops)
                self.loop_memo[key] = name
                out = self.tuple_of(params)
                sig = " ".join("(%s : %s)" % (p, self.coq(self.ty(p))) for p in params)
                idxp = "(%s : nat) " % idx if idx else ""

                def recur(c):
                    return "(%s %s %sit_)" % (name, " ".join(params), ("(S %s) " % idx) if idx else "")
                lctx = Ctx(tuple(params) + ((idx,) if idx else ()) + (elem,),
                           lambda e: "(LRaise %s %s)" % (self.heap_tuple(), e), lambda: "LFuel", None,
                           loop=dict(cont=recur, brk=lambda c: "(LDone %s)" % out))
                body = self.block(s.body, lctx, recur)
                self.defs.append(
                    "(* for %s in %s *)\nFixpoint %s %s %s(it_ : %s) {struct it_} : lres %s %s :=\nmatch it_ with\n| [] => LDone %s\n| %s :: it_ =>\n%s\nend.\n" % (
                        src_of(s.target), src_of(s.iter), name, sig, idxp, self.coq(t), self.heap_ty(),
                        self.tuple_ty(params), out, elem, body))
            name = self.loop_memo[key]
            params = list(key[1])
            return "(* for %s in %s *)\n(match %s %s %s%s with\n| LDone out_ => %s\n| LRaise h_ e_ => %s\n| LFuel => %s\nend)" % (
                src_of(s.target), src_of(s.iter), name, " ".join(params), "0%nat " if idx else "", term,
                self.let_tuple(params, "out_", rest(ctx)),
                self.let_tuple(self.heap, "h_", ctx.raise_("e_")), ctx.fuel())
        return self.expr(it, ctx, after)

    def while_fuel(self, s):
        """S (length l) for the exit shape  if l: .. l.pop(0) .. else: break"""
        for st in s.body:
            if isinstance(st, ast.If) and isinstance(st.test, ast.Name) and len(st.orelse) == 1 \
                    and isinstance(st.orelse[0], ast.Break):
                l = st.test.id
                pops = [n for n in ast.walk(st) if isinstance(n, ast.Call) and isinstance(n.func, ast.Attribute)
                        and n.func.attr == "pop" and isinstance(n.func.value, ast.Name) and n.func.value.id == l]
                others = [n for b in s.body for n in ast.walk(b)
                          if isinstance(n, ast.Name) and n.id == l and isinstance(n.ctx, ast.Store)]
                if pops and not others and self.ty(l) in LIST_TYPES:
                    return "(S (length %s))" % l
        raise Unsupported("while loop without a recognised progress measure")

    def while_loop(self, s, ctx, rest):
        if s.orelse or not (isinstance(s.test, ast.Constant) and s.test.value is True):
            raise Unsupported("only `while True:` is supported")
        fuel = self.while_fuel(s)
        params = list(ctx.defined)
        extra = sorted((names_assigned(s.body) & names_read(self.fn.body, skip=s)) - set(params))
        key = (id(s), tuple(params))
        if key not in self.loop_memo:
            self.nloops += 1
            name = "%s_loop%d" % (self.spec["coq"], self.nloops)
            self.loop_memo[key] = name
            outs = params + extra
            sig = " ".join("(%s : %s)" % (p, self.coq(self.ty(p))) for p in params)

            def recur(c):
                return "(%s fuel_ %s)" % (name, " ".join(params))

            def brk(c):
                for v in extra:
                    self.use(v, c)
                return "(LDone %s)" % self.tuple_of(outs)
            lctx = Ctx(tuple(params), lambda e: "(LRaise %s %s)" % (self.heap_tuple(), e), lambda: "LFuel", None,
                       loop=dict(cont=recur, brk=brk))
            body = self.block(s.body, lctx, recur)
            self.defs.append(
                "(* while True *)\nFixpoint %s (fuel_ : nat) %s {struct fuel_} : lres %s %s :=\nmatch fuel_ with\n| O => LFuel\n| S fuel_ =>\n%s\nend.\n" % (
                    name, sig, self.heap_ty(), self.tuple_ty(outs), body))
        name = self.loop_memo[key]
        outs = params + extra
        return "(* while True *)\n(match %s %s %s with\n| LDone out_ => %s\n| LRaise h_ e_ => %s\n| LFuel => %s\nend)" % (
            name, fuel, " ".join(params), self.let_tuple(outs, "out_", rest(ctx.define(*extra))),
            self.let_tuple(self.heap, "h_", ctx.raise_("e_")), ctx.fuel())

    # ------------------------------------------------------------------ function
    def compile(self):
        ctx = Ctx(tuple(self.params + self.heap),
                  lambda e: "(FRaise %s %s)" % (self.heap_tuple(), e), lambda: "FFuel",
                  lambda term, t: self.need(t, self.spec["ret"], self.fn) or "(FRet %s %s)" % (self.heap_tuple(), term))

        def fall_off(c):
            if self.spec["ret"] != "unit":
                raise Unsupported("%s may fall off its end" % self.fn.name)
            return "(FRet %s tt)" % self.heap_tuple()
        body = self.block(self.fn.body, ctx, fall_off)
        sig = " ".join("(%s : %s)" % (p, self.coq(self.ty(p))) for p in self.params + self.heap)
        main = "(* %s, line %d *)\nDefinition %s %s : fres %s %s :=\n%s.\n" % (
            self.fn.name, self.fn.lineno, self.spec["coq"], sig, self.heap_ty(), self.coq(self.spec["ret"]), body)
        return "\n".join(self.defs) + ("\n" if self.defs else "") + main


class Subst(ast.NodeTransformer):
    def __init__(self, sub):
        self.sub = sub

    def visit_Name(self, node):
        if node.id in self.sub and isinstance(node.ctx, ast.Load):
            return self.sub[node.id]
        return node


class Unit:
    def __init__(self, repo):
        base = os.path.join(repo, "src", "dendropy")
        with open(os.path.join(base, "model", "parsimony.py")) as f:
            self.tree = ast.parse(f.read())
        with open(os.path.join(base, "utility", "error.py")) as f:
            self.errtree = ast.parse(f.read())
        self.compiled = {}

    def exc_enum(self, cls):
        seen = set()
        while cls not in EXC:
            if cls in seen:
                raise Unsupported("exception class %s" % cls)
            seen.add(cls)
            for n in self.errtree.body:
                if isinstance(n, ast.ClassDef) and n.name == cls and len(n.bases) == 1 and isinstance(n.bases[0], ast.Name):
                    cls = n.bases[0].id
                    break
            else:
                raise Unsupported("exception class %s" % cls)
        return EXC[cls]

    def find(self, name):
        found = [n for n in self.tree.body if isinstance(n, ast.FunctionDef) and n.name == name]
        if len(found) != 1:
            raise Unsupported("function %s not found exactly once" % name)
        if found[0].decorator_list:
            raise Unsupported("decorated function %s" % name)
        return found[0]


def generate(repo):
    unit = Unit(repo)
    out = ["(* GENERATED by py/dv/gen_fitch.py from model/parsimony.py -- do not edit.",
           "   Meaning of the primitives: coq/Model/C16Prims.v; compilation scheme: gen_fitch.py *)",
           "From Coq Require Import ZArith List Bool.",
           "From DV Require Import Model.PyPrims Model.Tree Model.C16Model Model.C16Prims.",
           "Import ListNotations.",
           "Open Scope Z_scope.",
           "Open Scope bool_scope.", ""]
    for spec in FUNCS:
        fc = FnCompiler(unit, spec, unit.find(spec["py"]))
        out.append(fc.compile())
        unit.compiled[spec["py"]] = fc
    return "\n".join(out)


if __name__ == "__main__":
    import sys
    print(generate(sys.argv[1] if len(sys.argv) > 1 else "/repo"))
