"""setup: regenerate Gen, build the Coq cone of every claimed property (full .vo build)."""
import json
import os
from dv import core


def main():
    ok, errs = core.regenerate_gen()
    for e in errs:
        print("GEN-FAIL", e)
    core.refresh_coqproject()
    man = json.load(open(os.path.join(core.ROOT, "MANIFEST.json")))
    targets = []
    for c in man["checks"]:
        p = "Props/%s.vo" % c["property_id"]
        if os.path.exists(os.path.join(core.COQ, p[:-1])):
            targets.append(p)
    good, log = core.coq_make(["-k"] + targets, timeout=3400)
    print(log[-4000:])
    print("setup: built %d property cones, ok=%s" % (len(targets), good))
    return 0 if good else 1
