"""setup: regenerate Gen, full clean-ish build of all Coq files."""
import os
import sys
from dv import core


def main():
    ok, errs = core.regenerate_gen()
    for e in errs:
        print("GEN-FAIL", e)
    core.refresh_coqproject()
    targets = [s[:-2] + ".vo" for s in core.coq_sources() if not s.startswith("Props/")]
    good, log = core.coq_make(targets, timeout=3400)
    print(log[-3000:])
    # Props files are built too (their Print Assumptions output is re-read by each check)
    good2, log2 = core.coq_make([s[:-2] + ".vo" for s in core.coq_sources() if s.startswith("Props/")], timeout=3400)
    print(log2[-2000:])
    return 0 if (good and good2) else 1
