"""setup: regenerate Gen, build the Coq cone of every claimed property (full .vo build)."""
import json
import os
from dv import core


def main():
    ok, errs = core.regenerate_gen()
    for e in errs:
        print("GEN-FAIL", e)
    core.refresh_coqproject()
    man = json.load(open(os.path.join(core.ROOT, "MANIFEST.json")))
    targets = []
    for c in man["checks"]:
        p = "Props/%s.vo" % c["property_id"]
        if os.path.exists(os.path.join(core.COQ, p[:-1])):
            targets.append(p)
    # the case/model files used by the correspondence stage are usually outside the Props cones
    claimed = set(c["property_id"] for c in man["checks"])
    for rel in core.coq_sources():
        base = os.path.basename(rel)
        if rel.startswith("Model/") and (base[:3] in claimed or not base[:1] == "C" or not base[1:3].isdigit()):
            t = rel[:-2] + ".vo"
            if t not in targets:
                targets.append(t)
    good, log = core.coq_make(["-k"] + targets, timeout=3400)
    print(log[-4000:])
    print("setup: built %d property cones, ok=%s" % (len(targets), good))
    return 0 if good else 1
