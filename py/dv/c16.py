"""C16 - Fitch parsimony scores are minimal change counts and pure functions of tree and matrix.

A case = one tree shape, a list of calls (matrix + options) and a list of *runs*.  A run takes a
fresh dendropy Tree object (the main tree, a child-swapped copy, a re-rooted copy) and makes a
sequence of the calls on that one object; after every call the result (score or exception), the
score_by_character_list and the `state_sets` attribute of every node are observed.  The Coq model
(Model/C16Model.v) replays every run on its store of node attributes and must predict all of it.
"""
import copy
import itertools
import random
import time

from dv import core, trees
from dv.core import cz, cbool, clist, copt, cpair, cnat

HEADER = ("From DV Require Import Model.PyPrims Model.Tree Model.C16Model.\n"
          "From Coq Require Import ZArith. Open Scope Z_scope.")

DTYPES = ["dna", "dna", "dna", "standard", "standard", "protein", "rna", "custom3", "custom2", "restriction"]

IUPAC = {"A": "A", "C": "C", "G": "G", "T": "T", "U": "U", "N": "ACGT", "R": "AG", "Y": "CT", "M": "AC", "W": "AT",
         "S": "CG", "K": "GT", "V": "ACG", "H": "ACT", "D": "AGT", "B": "CGT"}


# --------------------------------------------------------------------------------------------
# alphabets / matrices
# --------------------------------------------------------------------------------------------

def make_matrix(dtype, ns):
    import dendropy
    if dtype == "dna":
        return dendropy.DnaCharacterMatrix(taxon_namespace=ns)
    if dtype == "rna":
        return dendropy.RnaCharacterMatrix(taxon_namespace=ns)
    if dtype == "protein":
        return dendropy.ProteinCharacterMatrix(taxon_namespace=ns)
    if dtype == "standard":
        return dendropy.StandardCharacterMatrix(taxon_namespace=ns)
    if dtype == "restriction":
        return dendropy.RestrictionSitesCharacterMatrix(taxon_namespace=ns)
    if dtype == "custom3":
        sa = dendropy.StateAlphabet(fundamental_states="012",
                                    ambiguous_states=[("a", "01"), ("b", "02"), ("c", "12")],
                                    polymorphic_states=[("p", "01"), ("q", "12")],
                                    no_data_symbol="?", gap_symbol="-")
        return dendropy.StandardCharacterMatrix(taxon_namespace=ns, default_state_alphabet=sa)
    if dtype == "custom2":
        sa = dendropy.StateAlphabet(fundamental_states="01", ambiguous_states=[("x", "01")])
        return dendropy.StandardCharacterMatrix(taxon_namespace=ns, default_state_alphabet=sa)
    if dtype == "sub3":      # every non-empty subset of three states (exhaustive scopes)
        sa = dendropy.StateAlphabet(fundamental_states="012",
                                    ambiguous_states=[("a", "01"), ("b", "02"), ("c", "12"), ("d", "012")])
        return dendropy.StandardCharacterMatrix(taxon_namespace=ns, default_state_alphabet=sa)
    raise ValueError(dtype)


_NSYM = {}


def nsymbols(dtype):
    if dtype not in _NSYM:
        import dendropy
        m = make_matrix(dtype, dendropy.TaxonNamespace())
        _NSYM[dtype] = len(list(m.default_state_alphabet))
    return _NSYM[dtype]


def mask(ix):
    r = 0
    for i in ix:
        r |= 1 << i
    return r


# --------------------------------------------------------------------------------------------
# generation
# --------------------------------------------------------------------------------------------

def swap_copy(rng, t, p=0.5):
    nd = {"id": t["id"], "taxon": t["taxon"], "label": None, "len": None,
          "kids": [swap_copy(rng, k, p) for k in t["kids"]]}
    if len(nd["kids"]) >= 2 and rng.random() < p:
        if len(nd["kids"]) == 2:
            nd["kids"].reverse()
        else:
            rng.shuffle(nd["kids"])
    return nd


def renumber(t):
    for i, nd in enumerate(trees.preorder(t)):
        nd["id"] = i
    return t


def reroot_copy(t, target_index):
    """New rooted tree with the root placed on the edge above the target node (pure spec
    manipulation, independent of the library).  A degree-2 old root is suppressed."""
    parent = {}
    nodes = trees.preorder(t)
    for nd in nodes:
        for k in nd["kids"]:
            parent[id(k)] = nd
    v = nodes[target_index]
    if id(v) not in parent:
        return renumber(copy.deepcopy(t))

    def mk(kids):
        return {"id": 0, "taxon": None, "label": None, "len": None, "kids": kids}

    def up(node, child):
        others = [copy.deepcopy(k) for k in node["kids"] if k is not child]
        if id(node) not in parent:
            if len(others) == 1:
                return others[0]
            return mk(others)
        return mk(others + [up(parent[id(node)], node)])

    return renumber(mk([copy.deepcopy(v), up(parent[id(v)], v)]))


def is_binary(t):
    return all(len(n["kids"]) in (0, 2) for n in trees.preorder(t))


def gen_rows(rng, dtype, taxa, nchar, ragged=False, informative=True):
    ns = nsymbols(dtype)
    rows = {}
    # bias towards few distinct symbols per column so that intersections are non-empty often
    cols = []
    for _ in range(nchar):
        k = rng.choice([1, 2, 2, 3, 4, ns])
        cols.append([rng.randrange(ns) for _ in range(k)])
    for x in taxa:
        n = nchar
        if ragged and rng.random() < 0.4:
            n = rng.randint(0, nchar)
        rows[str(x)] = [rng.choice(cols[j]) for j in range(n)]
    return rows


def gen_mat(rng, ntaxa, odd=0.05):
    """a matrix OBJECT of a history: data type, row order and initial contents"""
    dtype = rng.choice(DTYPES)
    nchar = rng.randint(1, 8)
    order = list(range(ntaxa))
    rng.shuffle(order)
    ragged = False
    k = rng.random()
    if k < odd * 0.5:
        order = order[:-1] if len(order) > 1 else order          # a leaf taxon without a row
    elif k < odd:
        ragged = True
    return {"dtype": dtype, "nchar": nchar, "order": order, "rows": gen_rows(rng, dtype, order, nchar, ragged)}


def gen_edits(rng, mat, rows):
    """in-place cell edits (taxon, column, new symbol) that keep the dimensions of the matrix"""
    cells = [(x, j) for x in mat["order"] for j in range(len(rows[str(x)]))]
    if not cells:
        return []
    ns = nsymbols(mat["dtype"])
    k = rng.choice([1, 1, 2, 3, 4, 8])
    if rng.random() < 0.2:
        # rewrite one whole column
        j = rng.randrange(max(len(r) for r in rows.values()))
        picked = [(x, j) for x in mat["order"] if j < len(rows[str(x)])]
    else:
        picked = [rng.choice(cells) for _ in range(k)]
    out = []
    for x, j in picked:
        old = rows[str(x)][j]
        new = rng.randrange(ns)
        if new == old and rng.random() < 0.8:
            new = (old + 1 + rng.randrange(ns - 1)) % ns if ns > 1 else old
        out.append([x, j, new])
    return out


def gen_call(rng, mat_index, mat, odd=0.09):
    nchar = mat["nchar"]
    r = rng.random()
    api = ["PS", True]
    weights = None
    if rng.random() < 0.45:
        weights = [rng.choice([0, 1, 1, 2, 3, 5, 10]) for _ in range(nchar)]
    if r < odd:
        k = rng.random()
        if k < 0.2:
            api = ["PS", False]
        elif k < 0.55:
            api = ["DP", rng.random() < 0.5]
        elif k < 0.85:
            api = ["UP", rng.random() < 0.5]
        else:
            weights = [rng.choice([1, 2, -1]) for _ in range(rng.randint(0, nchar))]   # too short / negative
    return {"api": api, "mat": mat_index, "edits": [], "dtype": mat["dtype"], "gam": rng.random() < 0.5,
            "order": mat["order"], "rows": None, "weights": weights, "sbc": rng.random() < 0.7}


def gen_case(rng, max_leaves=12):
    n = rng.choice([1, 2, 3, 3, 4, 4, 5, 5, 6, 6, 7, 8, 9, 10, 11, 12])
    n = min(n, max_leaves)
    r = rng.random()
    if r < 0.86 or n == 1:
        tree = trees.gen_tree(rng, n, shape="binary", lengths="none")
    elif r < 0.95:
        tree = trees.gen_tree(rng, n, shape=rng.choice(["mixed", "poly", "star"]), lengths="none")
    else:
        tree = trees.gen_tree(rng, n, shape="binary", lengths="none", unifurcations=0.2)
    ncalls = rng.choice([1, 2, 2, 3, 3, 4])
    nm = rng.randint(1, ncalls)
    mats = [gen_mat(rng, n) for _ in range(nm)]
    if nm >= 2 and rng.random() < 0.3:
        # same data type and shape, other data: the classic F11 situation
        m = copy.deepcopy(mats[0])
        m["rows"] = gen_rows(rng, m["dtype"], m["order"], m["nchar"])
        mats[1] = m
    cur = [copy.deepcopy(m["rows"]) for m in mats]
    used = []
    calls = []
    for _ in range(ncalls):
        # matrix objects are re-used across calls (with and without edits in between, with
        # either gap setting), mixed with other matrix objects
        if used and rng.random() < 0.55:
            j = rng.choice(used)
        else:
            j = rng.randrange(nm)
        c = gen_call(rng, j, mats[j])
        if j in used and rng.random() < 0.65:
            c["edits"] = gen_edits(rng, mats[j], cur[j])
            for x, col, sym in c["edits"]:
                cur[j][str(x)][col] = sym
        c["rows"] = copy.deepcopy(cur[j])
        used.append(j)
        calls.append(c)
    variants = []
    if n >= 2:
        variants.append(["swap", swap_copy(rng, tree)])
        npre = len(trees.preorder(tree))
        for _ in range(rng.choice([1, 1, 2])):
            variants.append(["reroot", reroot_copy(tree, rng.randrange(1, npre))])
    return {"tree": tree, "ntaxa": n, "mats": mats, "calls": calls, "variants": variants, "kind": "random"}


# --------------------------------------------------------------------------------------------
# running the library
# --------------------------------------------------------------------------------------------

class World:
    def __init__(self, case):
        import dendropy
        self.ns, self.taxa = trees.make_namespace(case["ntaxa"])
        self.other_ns, self.other_taxa = trees.make_namespace(case["ntaxa"])
        self.tindex = {id(t): i for i, t in enumerate(self.taxa)}
        self.tindex.update({id(t): i for i, t in enumerate(self.other_taxa)})
        self.calls = []
        for c in case["calls"]:
            self.calls.append(self.build_call(c))
        # auxiliary calls: the same matrix, unweighted, per-character list requested, fresh tree
        self.aux = []
        for c in case["calls"]:
            if c["api"][0] in ("PS", "DP") and c["api"][1]:
                a = dict(c)
                a["api"] = ["PS", True]
                a["weights"] = None
                a["sbc"] = True
                self.aux.append(self.build_call(a))
            else:
                self.aux.append(None)

    def build_matrix(self, dtype, order, rows, foreign=False):
        ns, tx = (self.other_ns, self.other_taxa) if foreign else (self.ns, self.taxa)
        m = make_matrix(dtype, ns)
        states = list(m.default_state_alphabet)
        for x in order:
            m.new_sequence(tx[x], [states[s] for s in rows[str(x)]])
        return m, states

    def build_call(self, c):
        """a freshly built matrix object holding the contents the matrix has at the time of call c"""
        m, states = self.build_matrix(c["dtype"], c["order"], c["rows"], c["api"] == ["PS", False])
        return {"spec": c, "chars": m, "states": states}

    def live_matrices(self, case):
        """the matrix objects of one history; edited in place between the calls"""
        return [self.build_matrix(m["dtype"], m["order"], m["rows"]) for m in case.get("mats", [])]

    def live_call(self, live, c):
        """apply the in-place edits that precede call c to its matrix object; the call then re-uses
        that same object.  (calls that need a foreign namespace get a private object)"""
        if c.get("mat") is None:
            return self.build_call(c)
        m, states = live[c["mat"]]
        for x, col, sym in c.get("edits", []):
            m[self.taxa[x]][col] = states[sym]         # public API: CharacterDataSequence.__setitem__
        if c["api"] == ["PS", False]:
            return self.build_call(c)                  # same contents in a matrix of another namespace
        return {"spec": c, "chars": m, "states": states}

    def alphabet(self, built):
        return [[mask(s.fundamental_indexes), mask(s.fundamental_indexes_with_gaps_as_missing)]
                for s in built["states"]]

    def observed_map(self, built):
        mp = built["chars"].taxon_state_sets_map(gaps_as_missing=built["spec"]["gam"])
        return [[self.tindex[id(t)], [mask(s) for s in v]] for t, v in mp.items()]

    def new_tree(self, spec):
        tree, by_id = trees.build_dendropy(spec, self.taxa, namespace=self.ns)
        order = [by_id[n["id"]] for n in trees.preorder(spec)]
        return tree, order

    def exec_call(self, tree, order, built):
        from dendropy.calculate import treescore
        from dendropy.model import parsimony
        c = built["spec"]
        sbc = [] if c["sbc"] else None
        w = c["weights"]
        try:
            with core.alarm(20):
                if c["api"][0] == "PS":
                    r = treescore.parsimony_score(tree, built["chars"], gaps_as_missing=c["gam"], weights=w,
                                                  score_by_character_list=sbc)
                elif c["api"][0] == "DP":
                    mp = built["chars"].taxon_state_sets_map(gaps_as_missing=c["gam"]) if c["api"][1] else None
                    r = parsimony.fitch_down_pass(tree.postorder_node_iter(), taxon_state_sets_map=mp, weights=w,
                                                  score_by_character_list=sbc)
                else:
                    mp = built["chars"].taxon_state_sets_map(gaps_as_missing=c["gam"]) if c["api"][1] else None
                    parsimony.fitch_up_pass(tree.preorder_node_iter(), taxon_state_sets_map=mp)
                    r = 0
                    sbc = None
            if not isinstance(r, int) or isinstance(r, bool):
                raise RuntimeError("score is not an int: %r" % (r,))
            res = ["Ok", r]
        except RuntimeError:
            raise
        except Exception as e:
            res = ["Err", core.exc_enum(e)]
            if c["api"][0] == "UP":
                sbc = None
        attrs = []
        for nd in order:
            v = getattr(nd, "state_sets", None)
            attrs.append(None if v is None else [mask(s) for s in v])
        return {"res": res, "sbc": None if sbc is None else list(sbc), "attrs": attrs}


def observe(case):
    w = World(case)
    ncalls = len(case["calls"])
    allcalls = w.calls + [a for a in w.aux]
    runs = []

    def do_run(name, spec, idxs, history=False):
        tree, order = w.new_tree(spec)
        live = w.live_matrices(case) if history else None
        obs = []
        maps = []
        for i in idxs:
            built = w.live_call(live, case["calls"][i]) if history else allcalls[i]
            obs.append(w.exec_call(tree, order, built))
            maps.append(w.observed_map(built))
        runs.append({"name": name, "calls": idxs, "obs": obs, "maps": maps})

    # histories: one tree object, matrix objects re-used and edited in place between calls
    do_run("main", case["tree"], list(range(ncalls)), history=True)
    # references: a fresh tree object and a freshly built matrix with the current contents, per call
    for i in range(ncalls):
        do_run("fresh%d" % i, case["tree"], [i])
        if w.aux[i] is not None:
            do_run("aux%d" % i, case["tree"], [ncalls + i])
    for k, (kind, spec) in enumerate(case["variants"]):
        do_run("%s%d" % (kind, k), spec, list(range(ncalls)), history=True)
    alph = [w.alphabet(b) if b is not None else None for b in allcalls]
    syms = [[s.symbol for s in b["states"]] if b is not None else None for b in allcalls]
    return {"runs": runs, "alphabets": alph, "symbols": syms}


# --------------------------------------------------------------------------------------------
# oracle: the property stated independently on what the library returned
# --------------------------------------------------------------------------------------------

def expected_sets(dtype, symbols, gam):
    """state set of every symbol from the documented meaning of the alphabet (independent of
    fundamental_indexes*): index of a fundamental state = its position."""
    if dtype in ("dna", "rna"):
        fund = "ACGT" if dtype == "dna" else "ACGU"
        out = []
        for s in symbols:
            if s == "-":
                out.append(0b1111 if gam else 0b10000)
            elif s == "?":
                out.append(0b1111 if gam else 0b11111)
            else:
                members = IUPAC[s].replace("T", fund[3]) if dtype == "rna" else IUPAC[s]
                out.append(mask(fund.index(ch) for ch in members))
        return out
    if dtype == "standard":
        out = []
        for s in symbols:
            if s == "-":
                out.append(1023 if gam else 1024)
            elif s == "?":
                out.append(1023 if gam else 2047)
            else:
                out.append(1 << int(s))
        return out
    if dtype == "protein":
        fund = "ACDEFGHIKLMNPQRSTVWY*"
        full = (1 << 21) - 1
        out = []
        for s in symbols:
            if s == "-":
                out.append(full if gam else 1 << 21)
            elif s == "?":
                out.append(full if gam else (1 << 22) - 1)
            elif s == "X":
                out.append(full)
            elif s == "B":
                out.append(mask([fund.index("D"), fund.index("N")]))
            elif s == "Z":
                out.append(mask([fund.index("E"), fund.index("Q")]))
            else:
                out.append(1 << fund.index(s))
        return out
    if dtype == "custom3":
        tab = {"0": 1, "1": 2, "2": 4, "a": 3, "b": 5, "c": 6, "p": 3, "q": 6,
               "-": 7 if gam else 8, "?": 7 if gam else 15}
        return [tab[s] for s in symbols]
    if dtype == "custom2":
        return [{"0": 1, "1": 2, "x": 3}[s] for s in symbols]
    if dtype == "sub3":
        return [{"0": 1, "1": 2, "2": 4, "a": 3, "b": 5, "c": 6, "d": 7}[s] for s in symbols]
    if dtype == "restriction":
        return [{"1": 1, "0": 2}[s] for s in symbols]
    return None


def brute_min(tree, leafset, nstates):
    """minimum number of changes over ALL assignments of states 0..nstates-1 to internal nodes
    (each leaf takes the best state of its own set) - deliberately naive enumeration."""
    nodes = trees.preorder(tree)
    internal = [n for n in nodes if n["kids"]]
    if not internal:
        return 0
    edges = []
    pos = {id(n): i for i, n in enumerate(internal)}
    for n in internal:
        for k in n["kids"]:
            if k["kids"]:
                edges.append((pos[id(n)], pos[id(k)], None))
            else:
                edges.append((pos[id(n)], None, leafset[k["taxon"]]))
    best = None
    for asg in itertools.product(range(nstates), repeat=len(internal)):
        c = 0
        for p, q, ls in edges:
            if q is None:
                if not (ls >> asg[p]) & 1:
                    c += 1
            elif asg[p] != asg[q]:
                c += 1
        if best is None or c < best:
            best = c
            if best == 0:
                break
    return best


BRUTE = {"leaves": 5, "assignments": 700}


def matrix_history(calls, i):
    """how the matrix object of call i was used before: new / reused unchanged / edited in place"""
    c = calls[i]
    if c.get("mat") is None or not any(calls[j].get("mat") == c["mat"] for j in range(i)):
        return "new-matrix-object"
    first = min(j for j in range(i) if calls[j].get("mat") == c["mat"])
    if any(calls[j].get("mat") == c["mat"] and calls[j].get("edits") for j in range(first + 1, i + 1)):
        return "same-matrix-object-edited-in-place"
    return "same-matrix-object-unchanged"


def rectangular(case, c):
    """a proper matrix: a row for every leaf taxon, all rows of one length"""
    lens = set(len(c["rows"][str(x)]) for x in c["order"])
    return set(c["order"]) >= set(range(case["ntaxa"])) and len(lens) == 1


def oracle(case, obs):
    calls = case["calls"]
    ncalls = len(calls)
    runs = {r["name"]: r for r in obs["runs"]}
    binary = is_binary(case["tree"])
    scoring = lambda c: c["api"][0] in ("PS", "DP") and c["api"][1] is True
    # 0. taxon_state_sets_map agrees with the documented meaning of the symbols (gaps as missing = full set)
    for i, c in enumerate(calls):
        want = expected_sets(c["dtype"], obs["symbols"][i], c["gam"])
        if want is not None:
            mp = dict((t, v) for t, v in runs["fresh%d" % i]["maps"][0])
            for x in c["order"]:
                exp = [want[s] for s in c["rows"][str(x)]]
                if mp.get(x) != exp:
                    return ("taxon_state_sets_map(gaps_as_missing=%s) of a %s matrix gives %s for symbols %s, expected %s"
                            % (c["gam"], c["dtype"], mp.get(x), [obs["symbols"][i][s] for s in c["rows"][str(x)]], exp),
                            "state-sets-map:" + c["dtype"])
    fresh = [runs["fresh%d" % i]["obs"][0] for i in range(ncalls)]
    # 1. history independence: every scoring call inside a history = the same call on a fresh tree object
    for i, c in enumerate(calls):
        if not scoring(c):
            continue
        got = runs["main"]["obs"][i]
        if (got["res"], got["sbc"]) != (fresh[i]["res"], fresh[i]["sbc"]):
            prior = [calls[j]["api"][0] for j in range(i)]
            how = matrix_history(calls, i)
            return ("call %d (%s) on a tree already used for calls %s returned %s %s; a fresh tree object with a "
                    "freshly built copy of the matrix's current contents gives %s %s"
                    % (i, how, prior, got["res"], got["sbc"], fresh[i]["res"], fresh[i]["sbc"]),
                    "history:" + how + ":" + "+".join(sorted(set(prior))) + ">" + c["api"][0])
    for i, c in enumerate(calls):
        if not scoring(c):
            continue
        f = fresh[i]
        # 2. the per-character list adds up to the total
        if f["res"][0] == "Ok" and f["sbc"] is not None and sum(f["sbc"]) != f["res"][1]:
            return ("score_by_character_list %s sums to %d, score is %d" % (f["sbc"], sum(f["sbc"]), f["res"][1]), "sbc-sum")
        if not binary:
            continue
        aux = runs["aux%d" % i]["obs"][0]
        if aux["res"][0] != "Ok":
            continue
        u = aux["sbc"]
        w = c["weights"]
        nchar = len(u)
        # 3. weights: total = sum of weight x per-character score
        if f["res"][0] == "Ok" and (w is None or len(w) >= nchar):
            ws = [1] * nchar if w is None else w
            tot = sum(ws[j] * u[j] for j in range(nchar))
            if f["res"][1] != tot:
                return ("weighted score %d is not sum(weight x per-character score) = %d (weights %s, per-character %s)"
                        % (f["res"][1], tot, w, u), "weighted-sum")
            if f["sbc"] is not None and f["sbc"] != [ws[j] * u[j] for j in range(nchar)]:
                return ("score_by_character_list %s is not weight x per-character score (weights %s, per-character %s)"
                        % (f["sbc"], w, u), "weighted-sbc")
        # 4. minimality: brute force over all assignments to internal nodes
        rect = rectangular(case, c)
        mp = dict((t, v) for t, v in runs["fresh%d" % i]["maps"][0])
        if rect and case["ntaxa"] <= BRUTE["leaves"]:
            allbits = 0
            for v in mp.values():
                for s in v:
                    allbits |= s
            nst = allbits.bit_length()
            if nst ** max(0, case["ntaxa"] - 1) <= BRUTE["assignments"]:
                for j in range(nchar):
                    b = brute_min(case["tree"], {t: v[j] for t, v in mp.items()}, nst)
                    if b != u[j]:
                        return ("character %d: Fitch score %d, minimum number of changes over all assignments %d (leaf sets %s)"
                                % (j, u[j], b, {t: v[j] for t, v in mp.items()}), "not-minimal")
    # 5. root position and child order
    if binary:
        for r in obs["runs"]:
            if not (r["name"].startswith("swap") or r["name"].startswith("reroot")):
                continue
            for i, c in enumerate(calls):
                if not scoring(c) or fresh[i]["res"][0] != "Ok" or not rectangular(case, c):
                    continue          # after an exception the partial per-character list depends on visiting order
                got = r["obs"][i]
                if (got["res"], got["sbc"]) != (fresh[i]["res"], fresh[i]["sbc"]):
                    kind = "child-order" if r["name"].startswith("swap") else "root-position"
                    return ("call %d on the %s copy returned %s %s, on the original %s %s"
                            % (i, r["name"], got["res"], got["sbc"], fresh[i]["res"], fresh[i]["sbc"]), kind)
    return None


# --------------------------------------------------------------------------------------------
# Coq terms
# --------------------------------------------------------------------------------------------

def c_zl(l):
    return clist([cz(x) for x in l])


def c_call(c, alphabet):
    api = {"PS": "ParsimonyScore", "DP": "DownPass", "UP": "UpPass"}[c["api"][0]]
    al = clist([cpair(cz(a), cz(b)) for a, b in alphabet])
    cm = clist([cpair(cz(x), c_zl(c["rows"][str(x)])) for x in c["_iter_order"]])
    return "(mkCall (%s %s) %s %s %s %s %s)" % (api, cbool(c["api"][1]), al, cbool(c["gam"]), cm,
                                              copt(c["weights"], c_zl), cbool(c["sbc"]))


def c_obs(o):
    res = "(Ok %s)" % cz(o["res"][1]) if o["res"][0] == "Ok" else "(Err %s)" % o["res"][1]
    return "(mkObs %s %s %s)" % (res, copt(o["sbc"], c_zl), clist([copt(a, c_zl) for a in o["attrs"]]))


def c_matrix(m):
    return clist([cpair(cz(t), c_zl(v)) for t, v in m])


def all_call_specs(case):
    out = list(case["calls"])
    for c in case["calls"]:
        if c["api"][0] in ("PS", "DP") and c["api"][1]:
            a = dict(c)
            a["api"] = ["PS", True]
            a["weights"] = None
            a["sbc"] = True
            out.append(a)
        else:
            out.append(None)
    return out


def to_coq(case, obs):
    specs = all_call_specs(case)
    spec_of = {"main": case["tree"]}
    for k, (kind, sp) in enumerate(case["variants"]):
        spec_of["%s%d" % (kind, k)] = sp
    cterms = []
    iter_order = {}
    for r in obs["runs"]:
        for i, m in zip(r["calls"], r["maps"]):
            iter_order[i] = m
    for i, c in enumerate(specs):
        if c is None:
            cterms.append("dummy_call")
            continue
        c = dict(c)
        # iteration order of the matrix as observed (keys of taxon_state_sets_map)
        c["_iter_order"] = [t for t, _v in iter_order[i]]
        cterms.append(c_call(c, obs["alphabets"][i]))
    rterms = []
    for r in obs["runs"]:
        sp = spec_of.get(r["name"], case["tree"])
        rterms.append("(mkRun %s %s %s %s)" % (trees.c_tree(sp), clist([cnat(i) for i in r["calls"]]),
                                             clist([c_obs(o) for o in r["obs"]]),
                                             clist([c_matrix(m) for m in r["maps"]])))
    return "(mkCase %s %s)" % (clist(cterms), clist(rterms))


def nontrivial(case, obs):
    f = [r for r in obs["runs"] if r["name"] == "main"][0]
    return case["ntaxa"] >= 3 and any(o["res"][0] == "Ok" and o["res"][1] > 0 for o in f["obs"])


def sample_fn(case, obs):
    main = obs["runs"][0]
    return {"tree": trees.newick(case["tree"], with_len=False),
            "calls": [[c["api"], c["dtype"], c["gam"], c["weights"], c["sbc"]] for c in case["calls"]],
            "results": [[o["res"], o["sbc"]] for o in main["obs"]]}


# --------------------------------------------------------------------------------------------
# exhaustive small scopes (thorough)
# --------------------------------------------------------------------------------------------

def binary_shapes(n):
    if n == 1:
        yield []
        return
    for k in range(1, n):
        for a in binary_shapes(k):
            for b in binary_shapes(n - k):
                yield [a, b]


def exhaustive_cases(chunk=200):
    """every ordered binary shape with <= nmax leaves x every column of non-empty leaf sets over a
    small state set, packed `chunk` columns per matrix."""
    scopes = [(2, "sub3"), (3, "sub3"), (4, "sub3"), (5, "custom2"), (6, "custom2")]
    for n, dtype in scopes:
        ns = nsymbols(dtype)
        cols = list(itertools.product(range(ns), repeat=n))
        for shape in binary_shapes(n):
            tree = trees.shape_to_tree(shape)
            for a in range(0, len(cols), chunk):
                part = cols[a:a + chunk]
                rows = {str(x): [col[x] for col in part] for x in range(n)}
                call = {"api": ["PS", True], "mat": None, "edits": [], "dtype": dtype, "gam": True, "order": list(range(n)), "rows": rows,
                        "weights": None, "sbc": True}
                yield {"tree": tree, "ntaxa": n, "calls": [call], "variants": [], "kind": "exhaustive"}


def known_f11_case():
    """the F11 witness of DESIGN 5.3: two matrices on 4 taxa, second call must not reuse the first's leaves"""
    tree = trees.shape_to_tree([[[], []], [[], []]])
    mk = lambda rows: {"api": ["PS", True], "mat": None, "edits": [], "dtype": "dna", "gam": True, "order": [0, 1, 2, 3],
                       "rows": {str(i): r for i, r in enumerate(rows)}, "weights": None, "sbc": True}
    return {"tree": tree, "ntaxa": 4, "calls": [mk([[0, 0], [0, 0], [0, 0], [0, 0]]), mk([[0, 1], [1, 0], [2, 3], [3, 2]])],
            "variants": [], "kind": "f11"}


def known_edit_case():
    """one matrix object scored, four of its cells edited in place (dimensions unchanged), scored again
    with either gap setting; each score must be that of the matrix's current contents"""
    tree = trees.shape_to_tree([[[[], []], []], [[[], []], []]])
    sym = {ch: i for i, ch in enumerate("ACGT-?NRYMWSKVHDB")}
    seqs = ["ACGTA-", "AGGCAT", "CCRTNA", "CGATCT", "AGA?CA", "CCYCAT"]
    rows0 = {str(i): [sym[ch] for ch in sq] for i, sq in enumerate(seqs)}
    edits = [[1, 0, sym["C"]], [3, 3, sym["C"]], [5, 5, sym["-"]], [0, 4, sym["G"]]]
    rows1 = copy.deepcopy(rows0)
    for x, col, sy in edits:
        rows1[str(x)][col] = sy
    mk = lambda rows, ed, gam: {"api": ["PS", True], "mat": 0, "edits": ed, "dtype": "dna", "gam": gam,
                                "order": list(range(6)), "rows": copy.deepcopy(rows), "weights": None, "sbc": True}
    mats = [{"dtype": "dna", "nchar": 6, "order": list(range(6)), "rows": rows0}]
    return {"tree": tree, "ntaxa": 6, "mats": mats,
            "calls": [mk(rows0, [], True), mk(rows1, edits, True), mk(rows1, [], False), mk(rows1, [], True)],
            "variants": [], "kind": "matrix-edit"}


def search(ctx, budget_s):
    t0 = time.time()
    rng = random.Random(ctx.seed + 1616)
    n = 0
    cases = [known_f11_case(), known_edit_case()]
    # caller-held taxon_state_sets_map objects shared between calls and trees (py/dv/c16_held.py)
    from dv import c16_held
    n += c16_held.search_held(ctx, random.Random(ctx.seed + 1617), 300)
    if ctx.violations:
        return
    while time.time() - t0 < budget_s and n < 20000:
        case = cases.pop() if cases else gen_case(rng)
        obs = observe(case)
        v = oracle(case, obs)
        n += 1
        if v:
            ctx.violation(v[0], {"case": case, "observed": slim(obs)}, key=v[1])
            if ctx.violations:
                return
    ctx.notes.append("search: %d further cases through the oracle, no unlisted violation" % n)


def slim(obs):
    return {"runs": [{"name": r["name"], "calls": r["calls"], "results": [[o["res"], o["sbc"]] for o in r["obs"]]}
                     for r in obs["runs"]]}


def run(tier, seed, replay=None):
    ctx = core.Ctx("C16", tier, seed)
    ctx.assumptions = [
        "coq/Gen/Fitch.v is regenerated on every run from parsimony.py by the fail-closed translator py/dv/gen_fitch.py (_store_sets_as_attr, _retrieve_state_sets_from_attr, fitch_down_pass, fitch_up_pass, parsimony_score); Props/C16.v proves the generated functions equal to the hand model coq/Model/C16Model.v on all inputs; trusted: the compilation scheme and the primitive semantics in coq/Model/C16Prims.v, and the static assumptions kwargs == {} / default attribute name",
        "taxon_state_sets_map (charmatrixmodel.py) and the tree iterators are not translated: model tied by this correspondence run (C15 for the iterators)",
        "state sets are Z bitmasks of fundamental state indexes; the symbol -> state set tables of the alphabets are read from the library at run time (and compared with the documented meaning by the oracle)",
        "weights are Python ints (float weights not modelled); post-order / pre-order iteration of the tree is the structural one (C15)",
        "the model is a function of the matrix CONTENTS at the time of each call (passed per call); matrix object identity, re-use and in-place edits exist only on the implementation side and are checked against fresh copies by the oracle and against the model by the correspondence",
        "held-map histories (py/dv/c16_held.py, coq/Model/C16ObjModel.v): the list objects of the rows of caller-held taxon_state_sets_map objects and of the node attributes are modelled as a heap; object identities are compared up to renaming (numbered by first appearance over all snapshots of a history, every observed object kept alive); set objects inside the lists are not tracked (fitch_* only build new sets); intermediate `result` lists of a polytomy's sequential fold are not allocated in the model (never stored, unobservable)",
        "theorems quantify over fully bifurcating trees with distinct node ids; the model also covers polytomies/unifurcations (sequential treatment / ValueError) for the correspondence only",
    ]
    if replay:
        import json
        r = json.load(open(replay))["replay"]
        case = r["case"]
        obs = observe(case)
        print("oracle:", oracle(case, obs))
        print(slim(obs))
        return 0
    if tier == "thorough":
        BRUTE["leaves"] = 7
        BRUTE["assignments"] = 5000        # 4 states on 7 leaves (4^6), 5 states on 6 leaves
    ok = core.proof_stage(ctx, ["Props/C16.vo"], gen_needed=("Fitch",))
    if not ok:
        core.broken_proof(ctx, search)
    n = 420 if tier == "quick" else 5000
    cases = [known_f11_case(), known_edit_case()] + [gen_case(ctx.rng) for _ in range(n)]
    if tier == "thorough":
        cases.extend(exhaustive_cases())
    for c in cases:
        ctx.count("kind:" + c["kind"])
        ctx.count("leaves:%d" % c["ntaxa"])
        ctx.count("shape:" + ("binary" if is_binary(c["tree"]) else "non-binary"))
        ctx.count("history-length:%d" % len(c["calls"]))
        for i, k in enumerate(c["calls"]):
            ctx.count("matrix:" + matrix_history(c["calls"], i))
            ctx.count("api:%s/%s" % tuple(k["api"]))
            ctx.count("dtype:" + k["dtype"])
            ctx.count("gaps_as_missing:%s" % k["gam"])
            ctx.count("weights:" + ("none" if k["weights"] is None else "given"))
        for v in c["variants"]:
            ctx.count("variant:" + v[0])

    def observe_counted(case):
        obs = observe(case)
        for o in obs["runs"][0]["obs"]:
            ctx.count("result:" + (o["res"][0] if o["res"][0] == "Ok" else o["res"][1]))
        return obs

    core.corr_stage(ctx, cases, observe_counted, to_coq, HEADER, "case_ok", oracle=oracle, show_fn="case_show",
                    nontrivial=nontrivial, search=search, shard=60 if tier == "quick" else 120, sample_fn=sample_fn)
    # histories with caller-held taxon_state_sets_map objects shared between calls and tree objects; every map and
    # every tree re-observed after every step, list-object identities up to renaming: coq/Model/C16ObjModel.v
    from dv import c16_held
    nh = 100 if tier == "quick" else 2000
    hcases = [c16_held.demo_case()] + [c16_held.gen_held_case(ctx.rng) for _ in range(nh)]
    for c in hcases:
        c16_held.record(ctx, c)
    core.corr_stage(ctx, hcases, c16_held.observe_held, c16_held.to_coq_held, c16_held.HEADER, "hcase_ok",
                    oracle=c16_held.oracle_held, show_fn="hcase_show", nontrivial=c16_held.nontrivial_held, search=search,
                    shard=(26 if tier == "quick" else 120), label="held",
                    sample_fn=lambda c, o: {"kind": c["kind"], "steps": [[s["api"], s["tree"], s["map"]] for s in c["steps"]],
                                            "results": [[x["res"], x["sbc"]] for x in o["steps"]]})
    return ctx.finish(
        level="proof",
        rule="random trees <=12 leaves (86% binary, rest polytomies/unifurcations), histories of 1-4 calls "
             "on 1-4 matrix OBJECTS that are re-used across calls (unchanged, or with cells edited in place between "
             "calls, with either gap setting) and mixed with other matrix objects; every call is compared with the "
             "same call on a fresh tree object and a freshly built matrix holding the current contents; calls are "
             "(parsimony_score / fitch_down_pass with and without map / fitch_up_pass) with DNA, RNA, protein, "
             "standard, restriction and custom matrices over the full symbol sets, gaps_as_missing both ways, "
             "weights, ragged/missing rows; every history is replayed on the main tree, on fresh trees per call, "
             "on a child-swapped copy and on re-rooted copies; held-map histories: 1-3 tree objects (same tree twice, swapped, "
             "re-rooted, other shape) x 2-4 caller-held taxon_state_sets_map objects of 1-3 matrices x 2-6 steps "
             "(fitch_down_pass / fitch_up_pass with a held map or none, parsimony_score), after every step the contents "
             "and row-object identities of every held map and the state_sets list object of every node of every tree "
             "are compared with the object-level model, the oracle requires every held map unchanged and every scoring "
             "step equal to a fresh tree with a freshly built map; thorough adds every ordered binary shape <=6 "
             "leaves x every column of leaf sets over 3 (<=4 leaves) or 2 states; a case is non-trivial when it "
             "has >=3 leaves and a positive score; distinct by full case content")
