"""C10 - TaxonNamespace: stable one-to-one taxon/bit map, exact label lookups."""
import copy
import random

from dv import core
from dv.core import cz, cbool, clist, copt, cpair

HEADER = "From DV Require Import Model.PyPrims Model.C10Model.\nFrom Coq Require Import ZArith. Open Scope Z_scope."

POOLS = [
    ["a", "A", "b", "B", "ab", "Ab", "AB", "c"],
    ["x1", "X1", "x2", "y", "Y", "z"],
    ["Homo", "homo", "HOMO", "Pan", "pan", "Gorilla", "Pongo"],
    ["t1", "t2", "t3", "T1", "T2", "t10"],
]


def gen_case(rng, maxlen):
    pool = sorted(set(rng.choice(POOLS)))
    nfree = rng.randint(0, 4)
    free = [rng.randrange(len(pool)) for _ in range(nfree)]
    cs = rng.random() < 0.4
    n = rng.randint(1, maxlen)
    ops = []
    # tids that may exist: free 0..nfree-1 plus created ones; we draw tids from a growing bound
    est = nfree
    for _ in range(n):
        k = rng.random()
        L = lambda: rng.randrange(len(pool))
        CS = lambda: rng.choice([None, None, True, False])
        T = lambda: rng.randrange(max(1, est + 1))
        if k < 0.16:
            ops.append(["NewTaxon", L()]); est += 1
        elif k < 0.22:
            ls = [L() for _ in range(rng.randint(0, 3))]
            ops.append(["NewTaxa", ls]); est += len(ls)
        elif k < 0.30:
            ops.append(["RequireTaxon", L(), CS()]); est += 1
        elif k < 0.36:
            ops.append(["AddTaxon", T()])
        elif k < 0.43:
            ops.append(["RemoveTaxon", T()])
        elif k < 0.48:
            ops.append(["RemoveLabel", L(), CS(), rng.random() < 0.5])
        elif k < 0.53:
            ops.append(["DiscardLabel", L(), CS(), rng.random() < 0.5])
        elif k < 0.55:
            ops.append(["Clear"])
        elif k < 0.60:
            ops.append(["Sort", rng.random() < 0.4])
        elif k < 0.63:
            ops.append(["Reverse"])
        elif k < 0.68:
            ops.append(["Relabel", T(), L()])
        elif k < 0.71:
            ops.append(["GetTaxon", L(), CS()])
        elif k < 0.75:
            ops.append(["FindAll", L(), CS()])
        elif k < 0.77:
            ops.append(["HasLabel", L(), CS()])
        elif k < 0.79:
            ops.append(["HasLabels", [L() for _ in range(rng.randint(0, 3))], CS()])
        elif k < 0.82:
            ops.append(["GetTaxa", [L() for _ in range(rng.randint(0, 3))], CS(), rng.random() < 0.5])
        elif k < 0.85:
            ops.append(["TaxonBitmask", T()])
        elif k < 0.88:
            ops.append(["TaxaBitmask", [T() for _ in range(rng.randint(0, 3))]])
        elif k < 0.89:
            ops.append(["AllBitmask"])
        elif k < 0.92:
            ops.append(["BitmaskTaxa", rng.getrandbits(rng.randint(0, est + 2))])
        elif k < 0.93:
            ops.append(["AccIndex", T()])
        elif k < 0.96:
            ops.append(["NewickGroups", rng.getrandbits(rng.randint(0, est + 1))])
        elif k < 0.97:
            ops.append(["SetMutable", rng.random() < 0.5])
        elif k < 0.98:
            ops.append(["SetCS", rng.random() < 0.5])
        elif k < 0.99:
            ops.append(["CopyConstruct"])
        else:
            ops.append(["DeepCopy"]); est += est
    return {"pool": pool, "free": free, "cs": cs, "ops": ops}


def observe(case):
    """Run the op history on the real TaxonNamespace. Returns list of [out, state]."""
    import dendropy
    pool = case["pool"]
    objs = []          # tid -> Taxon
    tid = {}           # id(obj) -> tid

    def reg(t):
        if id(t) not in tid:
            tid[id(t)] = len(objs)
            objs.append(t)
        return tid[id(t)]

    for li in case["free"]:
        reg(dendropy.Taxon(label=pool[li]))
    ns = dendropy.TaxonNamespace(is_case_sensitive=case["cs"])
    res = []
    for op in case["ops"]:
        name = op[0]
        kw = {}
        try:
            if name == "AddTaxon":
                if op[1] >= len(objs):
                    # a tid that does not exist yet: model treats it as a fresh foreign object;
                    # create it now so both sides agree (label: none needed -> use pool[0])
                    raise core_skip()
                ns.add_taxon(objs[op[1]]); out = ["OUnit"]
            elif name == "NewTaxon":
                t = ns.new_taxon(pool[op[1]]); out = ["OTax", reg(t)]
            elif name == "NewTaxa":
                ts = ns.new_taxa([pool[i] for i in op[1]]); out = ["OTaxa", [reg(t) for t in ts]]
            elif name == "RequireTaxon":
                t = ns.require_taxon(pool[op[1]], is_case_sensitive=op[2]); out = ["OTax", reg(t)]
            elif name == "RemoveTaxon":
                if op[1] >= len(objs):
                    raise core_skip()
                ns.remove_taxon(objs[op[1]]); out = ["OUnit"]
            elif name == "RemoveLabel":
                ns.remove_taxon_label(pool[op[1]], is_case_sensitive=op[2], first_match_only=op[3]); out = ["OUnit"]
            elif name == "DiscardLabel":
                ns.discard_taxon_label(pool[op[1]], is_case_sensitive=op[2], first_match_only=op[3]); out = ["OUnit"]
            elif name == "Clear":
                ns.clear(); out = ["OUnit"]
            elif name == "Sort":
                ns.sort(reverse=op[1]); out = ["OUnit"]
            elif name == "Reverse":
                ns.reverse(); out = ["OUnit"]
            elif name == "Relabel":
                if op[1] >= len(objs):
                    raise core_skip()
                objs[op[1]].label = pool[op[2]]; out = ["OUnit"]
            elif name == "GetTaxon":
                t = ns.get_taxon(pool[op[1]], is_case_sensitive=op[2]); out = ["OTax", None if t is None else reg(t)]
            elif name == "FindAll":
                out = ["OTaxa", [reg(t) for t in ns.findall(pool[op[1]], is_case_sensitive=op[2])]]
            elif name == "HasLabel":
                out = ["OBool", bool(ns.has_taxon_label(pool[op[1]], is_case_sensitive=op[2]))]
            elif name == "HasLabels":
                out = ["OBool", bool(ns.has_taxa_labels([pool[i] for i in op[1]], is_case_sensitive=op[2]))]
            elif name == "GetTaxa":
                out = ["OTaxa", [reg(t) for t in ns.get_taxa([pool[i] for i in op[1]], is_case_sensitive=op[2], first_match_only=op[3])]]
            elif name == "TaxonBitmask":
                if op[1] >= len(objs):
                    raise core_skip()
                out = ["OInt", ns.taxon_bitmask(objs[op[1]])]
            elif name == "TaxaBitmask":
                if any(i >= len(objs) for i in op[1]):
                    raise core_skip()
                out = ["OInt", ns.taxa_bitmask(taxa=[objs[i] for i in op[1]])]
            elif name == "AllBitmask":
                out = ["OInt", ns.all_taxa_bitmask()]
            elif name == "BitmaskTaxa":
                out = ["OTaxa", [reg(t) for t in ns.bitmask_taxa_list(op[1])]]
            elif name == "AccIndex":
                if op[1] >= len(objs):
                    raise core_skip()
                out = ["OInt", ns.accession_index(objs[op[1]])]
            elif name == "NewickGroups":
                s = ns.bitmask_as_newick_string(op[1])
                out = parse_groups(s, pool)
            elif name == "SetMutable":
                ns.is_mutable = op[1]; out = ["OUnit"]
            elif name == "SetCS":
                ns.is_case_sensitive = op[1]; out = ["OUnit"]
            elif name == "CopyConstruct":
                ns = dendropy.TaxonNamespace(ns); out = ["OUnit"]
            elif name == "DeepCopy":
                ns = copy.deepcopy(ns)
                for t in ns:
                    reg(t)
                out = ["OUnit"]
            else:
                raise RuntimeError("unknown op " + name)
        except core_skip:
            out = ["SKIP"]
        except Exception as e:
            out = ["OErr", core.exc_enum(e)]
        state = [[reg(t), ns.accession_index(t)] for t in ns]
        res.append([out, state, [pool.index(t.label) for t in ns], bool(ns.is_mutable), bool(ns.is_case_sensitive)])
    return res


class core_skip(Exception):
    pass


def parse_groups(s, pool):
    assert s.endswith(";")
    s = s[:-1]
    if s.startswith("(("):
        l, r = s[2:-2].split("), (")
        f = lambda x: [pool.index(y) for y in x.split(", ") if y != ""]
        return ["OGroups", f(l), f(r)]
    return ["OGroup1", [pool.index(y) for y in s[1:-1].split(",") if y != ""]]


def normalise(case, obs):
    """Drop ops the harness skipped (tids that do not exist yet) - returns (ops, obs) aligned."""
    ops = [o for o, r in zip(case["ops"], obs) if r[0] != ["SKIP"]]
    ob = [r for r in obs if r[0] != ["SKIP"]]
    return ops, ob


# ---- oracle: the property, stated independently on the implementation's behaviour ----

def oracle(case, obs):
    pool = case["pool"]
    ops, ob = normalise(case, obs)
    prev = {}       # tid -> accession index while continuously a member
    prev_members = []
    labels = {i: pool[l] for i, l in enumerate(case["free"])}
    mutable = True
    cs_ns = case["cs"]
    for step, (op, (out, state, labs, is_mut, is_cs)) in enumerate(zip(ops, ob)):
        name = op[0]
        idx = {}
        for t, i in state:
            if i in idx.values():
                return ("two members share accession index %d (bitmask %d) after step %d %s" % (i, 1 << i, step, op), "shared-bit")
            idx[t] = i
        members = [t for t, _ in state]
        if name != "DeepCopy":
            for t, i in state:
                if t in prev and prev[t] != i:
                    return ("member taxon %d changed bit %d -> %d at step %d %s" % (t, prev[t], i, step, op), "bit-changed:" + name)
        else:
            if [i for _, i in state] != [prev[t] for t in prev_members]:
                return ("deep copy changed the bits of the copied taxa at step %d" % step, "deepcopy-bits")
        if not mutable and name not in ("SetMutable", "DeepCopy", "CopyConstruct"):
            if set(members) - set(prev_members):
                return ("immutable namespace gained a member at step %d %s" % (step, op), "immutable-grew")
        # label bookkeeping (independent of the library's caches)
        cur_label = {t: pool[l] for t, l in zip(members, labs)}
        labels.update(cur_label)

        def match(l, cs):
            c = cs_ns if cs is None else cs
            return [t for t in prev_members if (labels[t] == pool[l] if c else labels[t].lower() == pool[l].lower())]

        if name == "FindAll" and out[0] == "OTaxa":
            if out[1] != match(op[1], op[2]):
                return ("findall returned %s, members matching are %s (step %d %s)" % (out[1], match(op[1], op[2]), step, op), "findall")
        if name == "GetTaxon" and out[0] == "OTax":
            m = match(op[1], op[2])
            if out[1] != (m[0] if m else None):
                return ("get_taxon returned %s, first matching member is %s (step %d %s)" % (out[1], m[:1], step, op), "get_taxon")
        if name == "RequireTaxon":
            m = match(op[1], op[2])
            if m:
                if out != ["OTax", m[0]] or members != prev_members:
                    return ("require_taxon with an existing match did not return the first match unchanged (step %d %s)" % (step, op), "require-existing")
            elif mutable:
                if out[0] != "OTax" or members != prev_members + [out[1]] or labels.get(out[1]) != pool[op[1]]:
                    return ("require_taxon without a match did not create exactly one new member (step %d %s)" % (step, op), "require-new")
        if name in ("RemoveLabel", "DiscardLabel"):
            m = match(op[1], op[2])
            if m:
                gone = m[:1] if op[3] else m
                if out != ["OUnit"] or members != [t for t in prev_members if t not in gone]:
                    return ("%s removed %s instead of %s (out %s) at step %d" % (name, [t for t in prev_members if t not in members], gone, out, step), "remove-label")
        if name == "BitmaskTaxa" and out[0] == "OTaxa":
            bits = sorted(idx[t] for t in out[1] if t in idx)
            want = [i for i in range(op[1].bit_length()) if (op[1] >> i) & 1]
            if bits != want or len(out[1]) != len(want):
                return ("bitmask_taxa_list(%d) returned taxa with bits %s" % (op[1], bits), "bitmask-taxa")
        if name == "TaxaBitmask" and out[0] == "OInt":
            want = 0
            for t in op[1]:
                want |= 1 << idx[t]
            if out[1] != want:
                return ("taxa_bitmask returned %d, expected %d" % (out[1], want), "taxa-bitmask")
        if name == "TaxonBitmask" and out[0] == "OInt":
            if op[1] not in idx or out[1] != 1 << idx[op[1]]:
                return ("taxon_bitmask(%d) = %d is not the single bit of its accession index" % (op[1], out[1]), "single-bit")
        if name == "NewickGroups" and out[0] == "OGroups":
            left = [pool.index(labels[t]) for t in members if (op[1] >> idx[t]) & 1]
            right = [pool.index(labels[t]) for t in members if not (op[1] >> idx[t]) & 1]
            if out[1] != left or out[2] != right:
                return ("bitmask_as_newick_string(%d) names %s | %s, the taxa with those bits are %s | %s" % (op[1], out[1], out[2], left, right), "newick-groups")
        if name == "Relabel":
            labels[op[1]] = pool[op[2]]
        prev = idx
        prev_members = members
        mutable = is_mut
        cs_ns = is_cs
    return None


# ---- Coq term of a case ----

def c_out(o):
    k = o[0]
    if k == "OUnit":
        return "OUnit"
    if k == "OTax":
        return "(OTax %s)" % copt(o[1], cz)
    if k == "OTaxa":
        return "(OTaxa %s)" % clist([cz(x) for x in o[1]])
    if k == "OBool":
        return "(OBool %s)" % cbool(o[1])
    if k == "OInt":
        return "(OInt %s)" % cz(o[1])
    if k == "OErr":
        return "(OErr %s)" % o[1]
    if k == "OGroups":
        return "(OGroups %s %s)" % (clist([cz(x) for x in o[1]]), clist([cz(x) for x in o[2]]))
    if k == "OGroup1":
        return "(OGroup1 %s)" % clist([cz(x) for x in o[1]])
    raise ValueError(o)


def c_op(op):
    n = op[0]
    cso = lambda c: copt(c, cbool)
    zl = lambda l: clist([cz(x) for x in l])
    if n in ("AddTaxon", "RemoveTaxon", "TaxonBitmask", "AccIndex", "NewTaxon", "BitmaskTaxa", "NewickGroups"):
        return "(%s %s)" % (n, cz(op[1]))
    if n in ("NewTaxa", "TaxaBitmask"):
        return "(%s %s)" % (n, zl(op[1]))
    if n in ("RequireTaxon", "GetTaxon", "FindAll", "HasLabel"):
        return "(%s %s %s)" % (n, cz(op[1]), cso(op[2]))
    if n in ("RemoveLabel", "DiscardLabel"):
        return "(%s %s %s %s)" % (n, cz(op[1]), cso(op[2]), cbool(op[3]))
    if n == "HasLabels":
        return "(HasLabels %s %s)" % (zl(op[1]), cso(op[2]))
    if n == "GetTaxa":
        return "(GetTaxa %s %s %s)" % (zl(op[1]), cso(op[2]), cbool(op[3]))
    if n in ("Clear", "Reverse", "AllBitmask", "CopyConstruct", "DeepCopy"):
        return n
    if n in ("Sort", "SetMutable", "SetCS"):
        return "(%s %s)" % (n, cbool(op[1]))
    if n == "Relabel":
        return "(Relabel %s %s)" % (cz(op[1]), cz(op[2]))
    raise ValueError(op)


def to_coq(case, obs):
    pool = case["pool"]
    ops, ob = normalise(case, obs)
    lower = clist([cpair(cz(i), cz(pool.index(s.lower()) if s.lower() in pool else 1000 + i)) for i, s in enumerate(pool)])
    # labels whose lower-case form is not in the pool get a private class id (1000+i); two such
    # labels with equal lower-case forms must share it:
    low = {}
    pairs = []
    for i, s in enumerate(pool):
        l = s.lower()
        if l in pool:
            pairs.append((i, pool.index(l)))
        else:
            low.setdefault(l, 1000 + i)
            pairs.append((i, low[l]))
    lower = clist([cpair(cz(a), cz(b)) for a, b in pairs])
    free = clist([cpair(cz(i), cz(l)) for i, l in enumerate(case["free"])])
    exp = clist([cpair(c_out(o), clist([cpair(cz(t), cz(i)) for t, i in st])) for o, st, _l, _m, _c in ob])
    return "(mkCase %s %s %s %s %s)" % (lower, free, cbool(case["cs"]), clist([c_op(o) for o in ops]), exp)


def nontrivial(case, obs):
    ops, ob = normalise(case, obs)
    return len(ops) >= 3 and any(len(st) >= 2 for _o, st, *_ in ob)


def exhaustive_cases():
    """every op sequence of length <= 3 over a small op alphabet and a 3-label pool"""
    import itertools
    pool = ["A", "a", "b"]
    alpha = [["NewTaxon", 0], ["NewTaxon", 1], ["NewTaxon", 2], ["RequireTaxon", 0, None], ["RequireTaxon", 1, True],
             ["RemoveTaxon", 0], ["RemoveTaxon", 1], ["RemoveLabel", 1, None, True], ["DiscardLabel", 0, False, False],
             ["Clear"], ["Sort", False], ["Sort", True], ["Reverse"], ["Relabel", 0, 2], ["FindAll", 0, None],
             ["TaxonBitmask", 0], ["BitmaskTaxa", 3], ["NewickGroups", 2], ["SetMutable", False], ["DeepCopy"], ["CopyConstruct"],
             ["AddTaxon", 0]]
    for n in (1, 2, 3):
        for seq in itertools.product(alpha, repeat=n):
            yield {"pool": pool, "free": [2], "cs": False, "ops": [list(o) for o in seq]}


def search(ctx, budget_s):
    import time
    t0 = time.time()
    rng = random.Random(ctx.seed + 77)
    n = 0
    while time.time() - t0 < budget_s and n < 20000:
        case = gen_case(rng, 30)
        obs = observe(case)
        v = oracle(case, obs)
        n += 1
        if v:
            ctx.violation(v[0], {"case": case, "observed": obs}, key=v[1])
            if ctx.violations:
                return
    ctx.notes.append("search: %d further histories through the oracle, no unlisted violation" % n)


def run(tier, seed, replay=None):
    ctx = core.Ctx("C10", tier, seed)
    ctx.assumptions = [
        "model coq/Model/C10Model.v is a hand transcription of taxonmodel.py; tied by this correspondence run",
        "labels are ids into a finite pool; str.lower is an uninterpreted function in the theorems",
        "bitmask arguments are non-negative (bitmask_taxa_list(-1) does not terminate; outside the property's quantifier)",
    ]
    if replay:
        import json
        r = json.load(open(replay))["replay"]
        case = r["case"]
        obs = observe(case)
        print("oracle:", oracle(case, obs))
        return 0
    ok = proof_ok = core.proof_stage(ctx, ["Props/C10.vo"], gen_needed=("BitFns",))
    if not ok:
        core.broken_proof(ctx, search)
    n = 400 if tier == "quick" else 6000
    cases = [gen_case(ctx.rng, 25 if tier == "quick" else 60) for _ in range(n)]
    if tier == "thorough":
        cases.extend(exhaustive_cases())
    for c in cases:
        for o in c["ops"]:
            ctx.count(o[0])
    core.corr_stage(ctx, cases, observe, to_coq, HEADER, "case_ok", oracle=oracle,
                    show_fn="case_run", nontrivial=nontrivial, search=search, shard=250,
                    sample_fn=lambda c, o: {"ops": c["ops"][:8], "pool": c["pool"], "last_state": normalise(c, o)[1][-1][1] if normalise(c, o)[1] else None})
    return ctx.finish(level="proof",
                      rule="random op histories (<=25 quick / <=60 thorough ops) over label pools with duplicates and case variants, both case settings; thorough adds every history of length <=3 over a 22-op alphabet; a case is non-trivial when it has >=3 executed ops and reaches a namespace with >=2 members; distinct by full case content")
